"""C01 - every lint run returns a complete, well-formed result set."""
import json, os
import vlib
from checks import execcommon

ASSUME = ['zcrypto / x-crypto parsers decide what is parseable (run under recover)',
          'a lint run that takes more than 20 s is counted as a hang']


def run(ctx):
    exe = vlib.build(ctx)
    # (M) the design: every mix of outcomes over a small registry, every filter of it
    vlib.tlc_mc(ctx, 'MC_Run', 'MC_Run' if ctx.quick else 'MC_Run_big', workers=8)
    if not ctx.quick:
        # symbolic (Apalache): the loop invariant of Run.tla is inductive for ANY registry of at most 6 distinct lints in any order and
        # every assignment of outcomes; RunInd is a typed restatement whose steps TLC shows to be steps of Run.tla (MC_RunInd)
        vlib.tlc_mc(ctx, 'MC_RunInd', 'MC_RunInd', workers=4)
        vlib.apalache(ctx, 'RunInd_apalache', 'Init', 'IndInv', 0)
        vlib.apalache(ctx, 'RunInd_apalache', 'IndInit', 'IndInv', 1)
        vlib.apalache(ctx, 'RunInd_apalache', 'IndInit', 'ReturnedOK', 0)
        vlib.apalache(ctx, 'RunInd_apalache_bad', 'IndInitCore', 'IndInvCore', 1, expect_error=True)
    # (G) model -> code: every terminal state replayed with mock lints on the real entry points
    rec, out = vlib.tlc_mc(ctx, 'MC_Run_export', 'MC_Run_export', workers=8)
    exp = ctx.path('export.out')
    open(exp, 'w').write(out)
    d = vlib.drive(ctx, exe, 'mockrun', env={'VERIF_EXPORT': exp})
    msum = json.load(open(os.path.join(d, 'summary.json')))
    mism = json.load(open(os.path.join(d, 'mismatches.json'))) or []
    for m in mism[:50]:
        c = m['Case']
        key = 'model-replay:%s:%s' % (c['kind'], m['Why'].split(' of ')[0])
        vlib.report(ctx, key, 'Lint*Ex on mock lints differs from Run.tla: %s (case %s, got %s)' % (m['Why'], json.dumps(c), json.dumps(m['Got'])),
                    dict(kind='mockrun', case=c))
    # (G) one lint execution of Lifecycle.tla replayed with a mock lint: wherever the model returns a result, the real framework
    #     must return one too (a panicking rule body or a panicking configuration of a certificate lint is reported, not raised)
    lsum, lmism = execcommon.mock_replay(ctx, exe, ['MC_Lifecycle_export_scope'])
    for m in lmism:
        if m['Why'] == 'model: returns a result':
            c = m['Case']
            vlib.report(ctx, 'lifecycle-replay:%s:%s' % (c['kind'], c['why']), 'lint.Execute on a mock %s lint did not return a result where Lifecycle.tla does (%s): case %s; got %s' % (
                c['kind'], c['why'], json.dumps(c), json.dumps(m['Got'])), dict(kind='mocklife', case=c))
    # (V) code -> model: whole registry (and filtered registries) x whole corpus
    d = vlib.drive(ctx, exe, 'sweep')
    ssum = json.load(open(os.path.join(d, 'summary.json')))
    rejects, lines = vlib.tlc_trace(ctx, 'Trace_Run', os.path.join(d, 'run.ndjson'), shards=8)
    confirm(ctx, exe, rejects, lines)
    # (V) hostile but parseable inputs (the mutation plan of C02, the several-offender inputs of Plan_Multi, names planted on
    #     templates): a run must still return - an escaping panic or a hang is a violation of C01 as well
    rec, pout = vlib.tlc_mc(ctx, 'Plan_Mutate', 'Plan_Mutate', workers=1)
    exp2 = ctx.path('plan.out')
    open(exp2, 'w').write(pout)
    from checks import histcommon
    histcommon.plan_multi(ctx)
    vlib.GOENV['VERIF_MULTI_FULL'] = '1'
    vlib.GOENV['VERIF_MULTI_SKIP'] = 'kueku'
    dm = vlib.drive(ctx, exe, 'mutate', env={'VERIF_EXPORT': exp2}, timeout=7000)
    mutsum = json.load(open(os.path.join(dm, 'summary.json')))
    mrej, mlines = vlib.tlc_trace(ctx, 'Trace_NoPanic', os.path.join(dm, 'mutate.ndjson'), shards=4)
    seen = set()
    for (ln, payload) in mrej:
        e = json.loads(mlines[ln - 1])
        for (why, who) in payload[0]:
            if why not in ('panic-escaped', 'hang') or (why, who) in seen or len(seen) > 6:
                continue
            seen.add((why, who))
            vlib.report(ctx, 'hostile-input:%s:%s' % (who, why), 'Lint*Ex on a parser-accepted %s did not return normally (%s): %s mutated by %s at %s%s' % (
                who, why, e['base'], e['op'], e['path'], (' panic=' + e.get('panicMsg', '')[:160]) if e.get('escaped') else ''),
                dict(kind='mutate', base=e['base'], path=e['path'], op=e['op'], der_b64=e.get('der')))
    # the result sets of the several-offender inputs and of the injected extensions (every object identifier of v3/util as an
    # extension with values it cannot decode, on a subscriber certificate, a CA certificate and a CRL): judged like the corpus'
    hrej, hlines = vlib.tlc_trace(ctx, 'Trace_Run', os.path.join(dm, 'run.ndjson'), shards=6)
    hseen = set()
    for (ln, payload) in hrej:
        e = json.loads(hlines[ln - 1])
        for why in payload[0]:
            cls = '%s:%s' % (e['kind'], why)
            if cls in hseen or len(hseen) > 6:
                continue
            hseen.add(cls)
            bad = [json.loads(hlines[{'cert': 0, 'crl': 1, 'ocsp': 2}[e['kind']]])['names'][k - 1] for k, st in zip(e.get('keys', []), e.get('st', [])) if st < 1 or st > 7][:4]
            vlib.report(ctx, 'hostile-result-set:%s' % cls, 'result set of %s (%s) is not well formed: %s%s' % (e['id'], e['kind'], why, (' (lints: %s)' % bad) if bad else ''),
                        dict(kind='hostile-run', id=e['id'], why=why))
    dp = vlib.drive(ctx, exe, 'plant')
    for pnc in (json.load(open(os.path.join(dp, 'panics.json'))) or [])[:6]:
        if 'recovered' not in pnc:
            vlib.report(ctx, 'planted-input:escaped-or-hung', 'Lint*Ex did not return normally on %s: %s' % (pnc['id'], pnc.get('escaped') or 'hung'), dict(kind='plant', id=pnc['id'], der_b64=pnc.get('der')))
    # a lint registered after the registry has been used (and listed, looked up, filtered) is run by the next Lint*Ex of its kind
    from checks import regcommon
    late, _ = regcommon.reasons(ctx, exe, {'registered-lint-without-result'})
    for (e, why) in late:
        vlib.report(ctx, 'late:%s' % e['kind'], 'the %s lint %s was registered after the registry had been used: the next run of its kind returned %d results for %d lints, %s one for it' % (
            e['kind'], e['name'], e['results'], e['lints'], 'with' if e['hasResult'] else 'without'), dict(kind='registry', event=e))
    cov = dict(evaluations=ssum['RunDone'] + msum['replayed'] + mutsum['parsed'], distinct_nontrivial=ssum['StatusMixes'],
               rule='evaluation = one Lint*Ex call on (object, registry): corpus objects x (full registry + filtered registries), plus every '
                    'terminal state of MC_Run replayed with mock lints; non-trivial = distinct (kind, set of statuses present) with >= 2 statuses',
               samples=[msum['sample']] + ssum['Samples'][1:], model_cases_replayed=msum['replayed'], model_cases=msum['cases'],
               objects=ssum['Objects'], hostile_inputs=mutsum['parsed'], exhaustive=False,
               trusted_base=['zcrypto x509 parser', 'x/crypto ocsp parser', 'reflect.DeepEqual for metadata equality'])
    return vlib.finish(ctx, 'model_checking', cov, ASSUME)


def confirm(ctx, exe, rejects, lines):
    seen = set()
    for (ln, payload) in rejects:
        e = json.loads(lines[ln - 1])
        reasons = sorted(payload[0])
        cls = (e['id'], e['reg'])
        if cls in seen or len(seen) > 12:
            continue
        seen.add(cls)
        # re-execute that single object in a fresh driver process and re-validate
        d2 = vlib.drive(ctx, exe, 'sweep', sub='confirm%d' % len(seen), extra=['-only', e['id']])
        rj2, lines2 = vlib.tlc_trace(ctx, 'Trace_Run', os.path.join(d2, 'run.ndjson'), shards=1)
        again = [json.loads(lines2[l2 - 1]) for (l2, p2) in rj2 if sorted(p2[0]) == reasons]
        again = [x for x in again if x['reg'] == e['reg']]
        if not again:
            ctx.notes.append('unreproduced rejection %s on %s (%s)' % (reasons, e['id'], e['reg']))
            continue
        regclass = e['reg'].split(':')[0]
        key = '%s:%s:%s' % ('+'.join(reasons), e['kind'], regclass)
        vlib.report(ctx, key, 'result set of %s with registry %s violates %s%s' % (e['id'], e['reg'], reasons,
                    (' panic=' + e.get('panicMsg', '')) if e.get('escaped') else ''),
                    dict(kind='sweep', id=e['id'], reg=e['reg'], reasons=reasons))


def replay(ctx, rp):
    exe = vlib.build(ctx)
    r = rp['replay']
    if r['kind'] == 'sweep':
        d = vlib.drive(ctx, exe, 'sweep', extra=['-only', r['id']])
        rj, lines = vlib.tlc_trace(ctx, 'Trace_Run', os.path.join(d, 'run.ndjson'), shards=1)
        for (ln, p) in rj:
            print('REJECT', lines[ln - 1][:300], p)
        return 1 if rj else 0
    if r['kind'] == 'registry':
        from checks import regcommon
        late, _ = regcommon.reasons(ctx, exe, {'registered-lint-without-result'})
        for (e, why) in late:
            print('REJECT', why, json.dumps(e))
        return 1 if late else 0
    print(json.dumps(r))
    return 0

"""C02 - no lint fails internally on any input the parser accepts."""
import json, os
import vlib

ASSUME = ['"parseable" is decided by the real parsers run under recover; an input on which the parser itself panics is not an accepted input (counted, skipped)',
          'this is a spec-guided input search (exploration), not a proof: the specification contributes the prohibition and the enumerated mutation space']


def run(ctx):
    exe = vlib.build(ctx)
    rec, out = vlib.tlc_mc(ctx, 'Plan_Mutate', 'Plan_Mutate', workers=1)
    exp = ctx.path('plan.out')
    open(exp, 'w').write(out)
    from checks import histcommon
    histcommon.plan_multi(ctx)                      # inputs with several offenders of one kind, linted as they are
    vlib.GOENV['VERIF_MULTI_FULL'] = '1'
    vlib.GOENV['VERIF_MULTI_SKIP'] = 'kueku'
    d = vlib.drive(ctx, exe, 'mutate', env={'VERIF_EXPORT': exp}, timeout=7000)
    s = json.load(open(os.path.join(d, 'summary.json')))
    rejects, lines = vlib.tlc_trace(ctx, 'Trace_NoPanic', os.path.join(d, 'mutate.ndjson'), shards=4)
    classes = {}
    for (ln, payload) in rejects:
        e = json.loads(lines[ln - 1])
        for (why, who) in payload[0]:
            classes.setdefault((why, who), []).append(e)
    n = 0
    for (why, who), evs in sorted(classes.items()):
        e = evs[0]
        n += 1
        if n > 12:
            ctx.notes.append('%d more classes' % (len(classes) - 12))
            break
        # re-execute exactly that mutation of that carrier in a fresh process
        d2 = vlib.drive(ctx, exe, 'mutate', sub='confirm%d' % n, extra=['-only', e['base']], env={'VERIF_EXPORT': exp, 'VERIF_MUTATION': '%s|%s' % (e['path'], e['op'])})
        rj2, l2 = vlib.tlc_trace(ctx, 'Trace_NoPanic', os.path.join(d2, 'mutate.ndjson'), shards=1)
        if not [1 for (_, pl) in rj2 for p in pl[0] if tuple(p) == (why, who)]:
            ctx.notes.append('unreproduced: %s %s on %s' % (why, who, e['base']))
            continue
        vlib.report(ctx, '%s:%s' % (who, why), '%s: %s on %s mutated by %s at %s (%s node)%s; %d such mutants' % (
            who, why, e['base'], e['op'], e['path'], e['class'], (' panic=' + e.get('panicMsg', '')[:160]) if e.get('escaped') else '', len(evs)),
            dict(kind='mutate', base=e['base'], path=e['path'], op=e['op'], der_b64=e.get('der')))
    # names planted as common name / SAN entry on templates (the input family that reaches the common-name branches of the rules)
    d3 = vlib.drive(ctx, exe, 'plant')
    planted = json.load(open(os.path.join(d3, 'summary.json')))['planted']
    for pnc in (json.load(open(os.path.join(d3, 'panics.json'))) or [])[:10]:
        who = pnc.get('lint', 'run')
        vlib.report(ctx, '%s:%s' % (who, 'recovered-panic' if 'recovered' in pnc else 'escaped-or-hung'), '%s on %s: %s' % (who, pnc['id'], pnc.get('recovered', pnc.get('escaped', 'hung'))[:200]),
                    dict(kind='plant', id=pnc['id'], der_b64=pnc.get('der')))
    # the same prohibition under every well-typed configuration of the catalogue (option values flipped, lists shortened / emptied /
    # extended by the names of sibling fields): a section that can be applied never makes its lint fail internally
    for k in ('VERIF_MULTI', 'VERIF_MULTI_FULL', 'VERIF_MULTI_SKIP'):
        vlib.GOENV.pop(k, None)
    histcommon.cfg_probe(ctx, exe)
    hs, _ = histcommon.judge(ctx, exe, 'config', 'c02', {'panic-escaped', 'recovered-panic-under-an-applicable-section'},
                             lambda r: '%s:%s' % (r['lint'] or 'run', r['why']))
    cov = dict(evaluations=s['parsed'] + planted + hs['lint_calls'], configurations=hs.get('configurations'), distinct_nontrivial=s['triples'],
               rule='evaluation = one parser-accepted mutant linted with the whole registry; mutation space = Plan_Mutate.tla (17 node classes x 22 operators) applied at every TLV node - also '
                    'inside extension values and keys - of carrier objects chosen so that every lint has a carrier on which it is not NA; non-trivial = distinct (node class, operator, lint) with the lint not NA',
               samples=[s['sample']], planted_inputs=planted, mutants=s['mutants'], carriers=s['carriers'], parser_panics=s['parser_panics'],
               trusted_base=['zcrypto x509 / x-crypto ocsp parsers'])
    return vlib.finish(ctx, 'exploration', cov, ASSUME)


def replay(ctx, rp):
    exe = vlib.build(ctx)
    r = rp['replay']
    from checks import histcommon
    if r.get('kind') == 'history':
        d, _ = histcommon.run_history(ctx, exe, 'config', 'replay', only=r['obj'])
        rej, _ = histcommon.validate(ctx, os.path.join(d, 'history.ndjson'), shards=1)
        rej = [x for x in rej if x['why'] in ('panic-escaped', 'recovered-panic-under-an-applicable-section')]
        for x in rej:
            print('REJECT', x['lint'], x['why'], x['info'], x['event'].get('tag'), x['event'].get('panicMsg', '')[:200])
        return 1 if rej else 0
    rec, out = vlib.tlc_mc(ctx, 'Plan_Mutate', 'Plan_Mutate', workers=1)
    exp = ctx.path('plan.out')
    open(exp, 'w').write(out)
    histcommon.plan_multi(ctx)
    vlib.GOENV['VERIF_MULTI_FULL'] = '1'
    d2 = vlib.drive(ctx, exe, 'mutate', extra=['-only', r['base']], env={'VERIF_EXPORT': exp, 'VERIF_MUTATION': '%s|%s' % (r['path'], r['op'])})
    rj2, l2 = vlib.tlc_trace(ctx, 'Trace_NoPanic', os.path.join(d2, 'mutate.ndjson'), shards=1)
    for (ln, p) in rj2:
        print('REJECT', p, l2[ln - 1][:200])
    return 1 if rj2 else 0

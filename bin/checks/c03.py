"""C03 - no findings outside a rule's effective window (half-open, exact to the instant)."""
import json, os
import vlib
from checks import execcommon, c04

ASSUME = ['instants are compared to the second (X.509 times carry no fractions)',
          'CRL / OCSP objects and certificates dated in years that DER cannot express are re-dated on the parsed object (the API takes parsed objects)']


def run(ctx):
    exe = vlib.build(ctx)
    vlib.tlc_mc(ctx, 'MC_Lifecycle', 'MC_Lifecycle_window', workers=8)
    vlib.tlapm(ctx, 'Proofs_Base')     # unbounded: half-open window, one-second grain, no judged status outside the window
    if not ctx.quick:
        vlib.tlc_mc(ctx, 'MC_Lifecycle', 'MC_Lifecycle', workers=12, heap='24g')
    msum, mism = execcommon.mock_replay(ctx, exe, ['MC_Lifecycle_export_window'])
    for m in mism[:40]:
        c = m['Case']
        if c['why'] == 'window' or m['Why'] == 'status':
            vlib.report(ctx, 'model-replay:%s:%s' % (c['kind'], m['Why']),
                        'window handling of lint.Execute differs from Lifecycle.tla: %s; case %s; got %s' % (m['Why'], json.dumps(c), json.dumps(m['Got'])),
                        dict(kind='mocklife', case=c))
    d = vlib.drive(ctx, exe, 'window')
    wsum = json.load(open(os.path.join(d, 'summary.json')))
    execcommon.judge(ctx, exe, 'window', os.path.join(d, 'window.ndjson'), 'C03', 'c03')
    # the windows themselves against a pinned record (spec/pinned_windows.json, the pinned tree's metadata): the property is
    # relative to each lint's own effective date, so a lint whose window moved is not a violation - it is reported as drift
    pin = json.load(open(os.path.join(vlib.VERIF, 'spec', 'pinned_windows.json')))
    for ln in open(os.path.join(d, 'window.ndjson')).readlines()[:3]:
        m = json.loads(ln)
        for i, n in enumerate(m['names']):
            if n in pin and (pin[n]['eff'] != m['eff'][i] or pin[n]['ineff'] != m['ineff'][i]):
                ctx.drift.append('the window of %s moved: pinned [%s, %s), now [%s, %s)' % (n, pin[n]['eff'], pin[n]['ineff'], m['eff'][i], m['ineff'][i]))
    # the plain corpus too (objects as dated)
    d2 = vlib.drive(ctx, exe, 'sweep')
    execcommon.judge(ctx, exe, 'sweep', os.path.join(d2, 'exec.ndjson'), 'C03', 'c03s')
    st = execcommon.suite(ctx, exe, 'C03', 'c03t')      # the repository's own test suite, recorded and re-derived
    cov = dict(repository_suite=st, evaluations=st['distinct_executions'] + wsum['execs'] + msum['replayed'], distinct_nontrivial=wsum['nontrivial'],
               rule='evaluation = one lint execution on an object re-dated to a boundary instant of that lint (effective / ineffective date, -1 s, 0, +1 s; '
                    'some in a non-UTC zone), plus mock-lint replays of every window state of MC_Lifecycle; non-trivial = distinct (lint, boundary, delta) judged on an applicable in-scope object',
               samples=[wsum['sample'], msum['sample']], boundaries=wsum['boundaries'], lints_judged_at_a_boundary=wsum['lints_judged_at_a_boundary'],
               in_memory_redated=wsum['in_memory_redated'], model_cases_replayed=msum['replayed'],
               trusted_base=['zcrypto x509 parser', 'Go time package'])
    return vlib.finish(ctx, 'model_checking', cov, ASSUME)


replay = c04.replay

"""C04 - out-of-scope / inapplicable objects get NA; otherwise the rule's verdict stands."""
import json, os
import vlib
from checks import execcommon

ASSUME = ['"scope indication" is what util/ca.go, util/cs.go, util/smime_policies.go document: EKU / policy OID / e-mail SAN facts, read by the harness from parsed fields',
          'details text is compared through a 32-bit digest']
WINDOW_WHYS = ()


def run(ctx):
    exe = vlib.build(ctx)
    if ctx.quick:
        vlib.tlc_mc(ctx, 'MC_Lifecycle', 'MC_Lifecycle_scope', workers=8)
        vlib.tlc_mc(ctx, 'MC_Lifecycle', 'MC_Lifecycle_window', workers=8)
    else:
        vlib.tlc_mc(ctx, 'MC_Lifecycle', 'MC_Lifecycle', workers=12, heap='24g')
    vlib.tlapm(ctx, 'Proofs_Base')     # unbounded: Outcome is NA out of scope / when inapplicable, otherwise exactly the body's verdict
    msum, mism = execcommon.mock_replay(ctx, exe, ['MC_Lifecycle_export_scope', 'MC_Lifecycle_export_window'])
    for m in mism[:40]:
        c = m['Case']
        if c['why'] == 'window' or 'window' in m['Why']:
            continue
        if m['Why'].startswith('fid-'):
            msg = 'mock replay: %s (%s %s)' % (m['Why'], c['kind'], c['why'])
            if msg not in ctx.drift:
                ctx.drift.append(msg)
            continue
        vlib.report(ctx, 'model-replay:%s:%s' % (c['kind'], m['Why']),
                    'lint.Execute on a mock lint differs from Lifecycle.tla: %s; case %s; got %s' % (m['Why'], json.dumps(c), json.dumps(m['Got'])),
                    dict(kind='mocklife', case=c))
    d = vlib.drive(ctx, exe, 'sweep')
    ssum = json.load(open(os.path.join(d, 'summary.json')))
    execcommon.judge(ctx, exe, 'sweep', os.path.join(d, 'exec.ndjson'), 'C04', 'c04')
    st = execcommon.suite(ctx, exe, 'C04', 'c04t')      # the repository's own test suite, recorded and re-derived
    cov = dict(repository_suite=st, evaluations=st['distinct_executions'] + ssum['Execs'] + msum['replayed'], distinct_nontrivial=ssum['TupleClasses'],
               rule='evaluation = one spied lint execution under the real framework (every lint x every corpus object) plus every terminal '
                    'state of MC_Lifecycle replayed with a mock lint; non-trivial = distinct (lint, cfg, applies, body status, observed status) with observed != NA',
               samples=[msum['sample'], ssum['Samples'][0]], model_cases_replayed=msum['replayed'], objects=ssum['Objects'],
               trusted_base=['zcrypto x509 parser', 'x/crypto ocsp parser', 'go-toml'])
    return vlib.finish(ctx, 'model_checking', cov, ASSUME)


def replay(ctx, rp):
    exe = vlib.build(ctx)
    r = rp['replay']
    if r['kind'] == 'suite':
        vlib.suite_traces(ctx)
    if r['kind'] in ('sweep', 'window', 'suite'):
        d = vlib.drive(ctx, exe, r['kind'], extra=['-only', r['id']])
        f = os.path.join(d, {'sweep': 'exec.ndjson', 'window': 'window.ndjson', 'suite': 'suite.ndjson'}[r['kind']])
        rj, lines = vlib.tlc_trace(ctx, 'Trace_Exec', f, header=3, shards=1)
        for (ln, p) in rj:
            print('REJECT', p)
        return 1 if rj else 0
    print(json.dumps(r))
    return 0

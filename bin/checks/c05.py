"""C05 - linting is deterministic, history-independent, read-only and I/O-free."""
import json, os, re, subprocess
import vlib
from checks import histcommon

ASSUME = ['wall-clock day held fixed within a run (two lints compare host names with today\'s TLD table)',
          'read-only: hash over every exported field reachable from the parsed object (reflection walk, depth 12)',
          'I/O: strace -f of a 4-goroutine sweep between two marker syscalls; static call graph (SSA) for os/net/exec/syscall/time calls reachable from lint methods']
WANTED = {'status-differs', 'details-differ', 'object-modified', 'panic-escaped'}


def merge_by_object(files, outp):
    head, segs, order = None, {}, []
    for f in files:
        lines = open(f).readlines()
        if head is None:
            head = lines[:4]
        cur = None
        for ln in lines[4:]:
            if '"ev":"Reset"' in ln[:60]:
                cur = json.loads(ln)['obj']
                if cur not in segs:
                    segs[cur] = [ln]
                    order.append(cur)
                continue
            segs[cur].append(ln)
    with open(outp, 'w') as fh:
        fh.writelines(head)
        for o in order:
            fh.writelines(segs[o])


def strace_events(ctx, exe):
    d = os.path.dirname(ctx.path('iotrace', '.keep'))
    st = os.path.join(d, 'strace.out')
    rc, out = vlib.sh(['strace', '-f', '-o', st, exe, 'iotrace', '-out', d], timeout=600)
    if rc != 0 or not os.path.exists(st):
        raise vlib.Inconclusive('strace run failed: ' + out[-1500:])
    runtime_fds = set()
    inside = False
    agg = {}
    seen_begin = seen_end = False
    for ln in open(st, errors='replace'):
        m = re.match(r'^(\d+)\s+(.*)$', ln)
        if not m:
            continue
        body = m.group(2)
        if 'verif-marker-begin' in body:
            inside, seen_begin = True, True
            continue
        if 'verif-marker-end' in body:
            inside, seen_end = False, True
            continue
        mm = re.match(r'^(\w+)\((.*)', body)
        if not inside:
            # descriptors the runtime creates for itself
            r = re.search(r'(?:^|<\.\.\. )(epoll_create1?|eventfd2?)(?:\(| resumed>).*=\s*(\d+)\s*$', body)
            if r:
                runtime_fds.add(r.group(2))
            r = re.search(r'(?:^pipe2?\(|<\.\.\. pipe2? resumed>)\[(\d+), (\d+)\]', body)
            if r:
                runtime_fds.update([r.group(1), r.group(2)])
            continue
        if not mm:
            continue   # signals, "<... resumed>", exits
        name, args = mm.group(1), mm.group(2)
        fdclass = ''
        if name in ('read', 'write', 'close'):
            fd = re.match(r'(\d+)', args)
            fdclass = 'runtime' if fd and fd.group(1) in runtime_fds else 'other'
        thread = 'CLONE_THREAD' in args
        k = (name, fdclass, thread)
        agg[k] = agg.get(k, 0) + 1
    if not (seen_begin and seen_end):
        raise vlib.Inconclusive('strace markers not found')
    return [dict(ev='Sys', name=k[0], fdclass=k[1], thread=k[2], n=v) for k, v in sorted(agg.items())]


def run(ctx):
    exe = vlib.build(ctx)
    vlib.tlc_mc(ctx, 'MC_Process', 'MC_Process' if ctx.quick else 'MC_Process_big', workers=12)
    # ---- inputs with several offenders of one kind (Plan_Multi.tla), enumerated by TLC and forged onto corpus templates
    histcommon.plan_multi(ctx)
    # ---- determinism / history independence / read-only: several processes, merged per object
    from concurrent.futures import ThreadPoolExecutor
    vlib.GOENV['VERIF_MULTI_SKIP'] = 'kueku'     # their status stability is judged by Trace_KeyUsage below (12 repetitions each)
    nproc = 2 if ctx.quick else 3
    nmatter = histcommon.cfg_probe(ctx, exe)
    jobs = [('repeat', 'proc%d' % p, None) for p in range(nproc)]
    # the same under changing configurations: one process per first configuration, so that every (object, configuration) is met
    # with different pasts (a verdict remembered under a key that forgets the configuration shows as a conflict between processes)
    jobs += [('cfgfirst', 'cfgfirst%d' % p, {'VERIF_FIRSTCFG': str(p), 'VERIF_MULTI': ''}) for p in range(8 if ctx.quick else 16)]
    with ThreadPoolExecutor(max_workers=6) as ex:
        res = list(ex.map(lambda j: histcommon.run_history(ctx, exe, j[0], j[1], env2=j[2]), jobs))
    files = [os.path.join(d, 'history.ndjson') for (d, _) in res]
    s = res[0][1]
    merged = ctx.path('merged.ndjson')
    merge_by_object(files, merged)
    rej, lines = histcommon.validate(ctx, merged)
    classes = {}
    for r in rej:
        if r['why'] in WANTED:
            k = '%s:%s' % (r['lint'] or 'object', {'details-differ': 'details-order', 'status-differs': 'status-unstable'}.get(r['why'], r['why']))
            classes.setdefault(k, []).append(r)
    for k, rs in sorted(classes.items()):
        r = rs[0]
        e = r['event']
        # both differing observations of the real code are in the trace: the memo's first one (tag in info) and this one
        vlib.report(ctx, k, '%s: %s on %s: first observed under [%s], differs under [%s] (%d such events)' % (
            r['lint'] or 'object', r['why'], e.get('obj'), r['info'], e.get('tag', e.get('what', '')), len(rs)),
            dict(kind='history', phases='repeat', obj=e.get('obj'), lint=r['lint'], why=r['why']))
    # ---- I/O freedom: dynamic (strace) and static (call graph)
    evs = strace_events(ctx, exe)
    ex = vlib.extract(ctx)
    for r in ex['registrations']:
        for c in r['forbidden_calls']:
            evs.append(dict(ev='Call', lint=r['name'], callee=c.split(' in ')[0], where=c))
    for c in ex['framework_forbidden_calls']:
        evs.append(dict(ev='Call', lint='', callee=c.split(' in ')[0], where=c))
    tf = ctx.path('env.ndjson')
    with open(tf, 'w') as fh:
        for e in evs:
            fh.write(json.dumps(e) + '\n')
    rj, elines = vlib.tlc_trace(ctx, 'Trace_Env', tf, shards=1)
    for (ln, payload) in rj:
        e = json.loads(elines[ln - 1])
        if e['ev'] == 'Sys':
            vlib.report(ctx, 'syscall:%s' % e['name'], 'while linting the process issued %s (%s) %d times' % (e['name'], e['fdclass'], e['n']), dict(event=e))
        else:
            vlib.report(ctx, 'call:%s:%s' % (e['lint'] or 'framework', e['callee']), 'code reachable from %s calls %s' % (e['lint'] or 'Lint*Ex', e['where']), dict(event=e))
    # ---- the KeyUsage rule family: status must not vary between repetitions (gating, C05); the verdict itself is a fidelity oracle
    dk = vlib.drive(ctx, exe, 'kueku')
    krej, klines = vlib.tlc_trace(ctx, 'Trace_KeyUsage', os.path.join(dk, 'kueku.ndjson'), shards=4)
    nfid = 0
    for (ln, payload) in krej:
        e = json.loads(klines[ln - 1])
        for why in payload[0]:
            if why.startswith('fid-'):
                nfid += 1
                if nfid <= 3:
                    ctx.drift.append('KeyUsage rule: ku=%s ekus=%s status=%s: %s' % (e['ku'], e['ekus'], e['st'], why))
            elif why == 'harness-planting-failed':
                ctx.notes.append('planting failed: %s' % json.dumps(e)[:200])
            else:
                vlib.report(ctx, 'e_key_usage_and_extended_key_usage_inconsistent:status-unstable',
                            'e_key_usage_and_extended_key_usage_inconsistent: %s: key usage bits %s with purposes %s on %s gave statuses %s in 12 back-to-back runs' % (
                                why, e['ku'], e['ekus'], e['tpl'], e['st']), dict(kind='kueku', ku=e['ku'], ekus=e['ekus'], tpl=e['tpl']))
    if nfid > 3:
        ctx.drift.append('KeyUsage rule: %d planted combinations in all differ from KeyUsage!Consistent' % nfid)
    cov = dict(evaluations=s['lint_calls'] * nproc + sum(e.get('n', 1) for e in evs), distinct_nontrivial=s['pairs_with_details'],
               rule='evaluation = one Lint*Ex call compared with the memo (3+ passes in different orders, 6+ back-to-back repetitions, %d processes) or one observed syscall / reachable call; '
                    'non-trivial = distinct (object, lint) pairs whose result carries details' % nproc,
               samples=[s['sample'], evs[0]], objects=s['objects'], snapshots=s['snapshots'] * nproc, syscall_kinds=len([e for e in evs if e['ev'] == 'Sys']),
               static_calls=len([e for e in evs if e['ev'] == 'Call']), keyusage_combinations=len(klines), lints_with_map_range=sum(1 for r in ex['registrations'] if r['map_range_sites']),
               trusted_base=['strace', 'golang.org/x/tools ssa', 'reflect'])
    return vlib.finish(ctx, 'model_checking', cov, ASSUME)


def replay(ctx, rp):
    exe = vlib.build(ctx)
    r = rp['replay']
    if r.get('kind') != 'history':
        print(json.dumps(r))
        return 0
    fs = []
    for p in range(3):
        d, _ = histcommon.run_history(ctx, exe, 'repeat', 'replay%d' % p, only=r['obj'])
        fs.append(os.path.join(d, 'history.ndjson'))
    m = ctx.path('m.ndjson')
    merge_by_object(fs, m)
    rej, _ = histcommon.validate(ctx, m, shards=1)
    for x in rej:
        print('REJECT', x['lint'], x['why'], x['info'], x['event'].get('tag'))
    return 1 if rej else 0

"""C06 - severity matches the lint's name."""
import json, os
import vlib

LABEL = {0: 'reserved', 1: 'NA', 2: 'NE', 3: 'pass', 4: 'info', 5: 'warn', 6: 'error', 7: 'fatal'}
ASSUME = ['static part: go/packages + SSA of /repo; constants stored into LintResult.Status (directly or through phi) on paths reachable from a lint\'s Execute '
          'and not shared with lints of another prefix are taken as emittable; other uses of status constants only gate with a dynamic witness',
          'dynamic part: statuses observed in the corpus sweep and on the planted-name certificates']


def run(ctx):
    exe = vlib.build(ctx)
    vlib.tlc_mc(ctx, 'MC_Severity', 'MC_Severity', workers=1)
    ex = vlib.extract(ctx)
    if ex['unresolved']:
        ctx.drift.append('extractor could not resolve: %s' % ex['unresolved'][:5])
    d = vlib.drive(ctx, exe, 'sweep')
    observed = {}
    for s in json.load(open(os.path.join(d, 'statuses.json'))):
        n, st = s.rsplit('|', 1)
        observed.setdefault(n, set()).add(int(st))
    # more dynamic witnesses: the vocabulary of names planted as common name / SAN entry on templates (reaches the branches of
    # the DNS-name rules that look at the common name), and the several-offender inputs of Plan_Multi
    d2 = vlib.drive(ctx, exe, 'plant')
    for s in json.load(open(os.path.join(d2, 'statuses.json'))):
        n, st = s.rsplit('|', 1)
        observed.setdefault(n, set()).add(int(st))
    planted = json.load(open(os.path.join(d2, 'summary.json')))['planted']
    # the tool under switches this framework does not know (boolean flags of `zlint -h` beyond the known ones): what it prints
    cli = vlib.build_cli(ctx)
    d3 = vlib.drive(ctx, exe, 'flagcensus', env={'VERIF_CLI': cli})
    for s in json.load(open(os.path.join(d3, 'statuses.json'))) or []:
        n, st = s.rsplit('|', 1)
        observed.setdefault(n, set()).add(int(st))
    unknown_flags = json.load(open(os.path.join(d3, 'summary.json')))['unknown_boolean_flags'] or []
    for fl in json.load(open(os.path.join(d3, 'summary.json'))).get('unknown_value_flags') or []:
        ctx.drift.append('the tool has a switch -%s <value> that no specification here models: what it loads or changes is not judged' % fl)
    # what each lint reports on objects re-dated to its own boundary instants (a severity chosen by date shows exactly there)
    d5 = vlib.drive(ctx, exe, 'window')
    for s in json.load(open(os.path.join(d5, 'statuses.json'))) or []:
        n, st = s.rsplit('|', 1)
        observed.setdefault(n, set()).add(int(st))
    # what the repository's own tests make the lints report (recorded in the test processes: vlib.suite_traces)
    vlib.suite_traces(ctx)
    d4 = vlib.drive(ctx, exe, 'suite')
    for s in json.load(open(os.path.join(d4, 'statuses.json'))) or []:
        n, st = s.rsplit('|', 1)
        observed.setdefault(n, set()).add(int(st))
    suite_execs = json.load(open(os.path.join(d4, 'summary.json')))['recorded_executions']
    # runtime names (every registered lint gets an event, in the census or not)
    names = sorted(set(observed) | {r['name'] for r in ex['registrations']})
    byname = {r['name']: r for r in ex['registrations']}
    tf = ctx.path('severity.ndjson')
    with open(tf, 'w') as fh:
        for n in names:
            r = byname.get(n, dict(direct=[], shared=[], approx=[], dynamic=False))
            pre = n[0] if len(n) > 2 and n[1] == '_' else 'none'
            fh.write(json.dumps(dict(ev='Lint', name=n, prefix=pre, direct=r['direct'], shared=r['shared'], approx=r['approx'],
                                     observed=sorted(x for x in observed.get(n, ()) if x >= 0))) + '\n')
    rejects, lines = vlib.tlc_trace(ctx, 'Trace_Severity', tf, shards=1)
    nfind = 0
    for (ln, payload) in rejects:
        e = json.loads(lines[ln - 1])
        for (why, st) in payload[0]:
            if why.startswith('fid-'):
                ctx.drift.append('%s: %s %s' % (e['name'], why, LABEL.get(st, st)))
                continue
            if why == 'prefix':
                vlib.report(ctx, '%s:prefix' % e['name'], 'lint name %s carries none of the prefixes e_/w_/n_' % e['name'], dict(lint=e['name']))
            else:
                vlib.report(ctx, '%s:%s' % (e['name'], LABEL[st]), 'lint %s %s status %s, which its prefix forbids' % (e['name'], why, LABEL[st]),
                            dict(lint=e['name'], status=LABEL[st], how=why, event=e))
    findings = sum(1 for n in names if observed.get(n, set()) & {4, 5, 6})
    cov = dict(evaluations=sum(len(byname.get(n, {}).get('direct', [])) + len(observed.get(n, ())) for n in names),
               distinct_nontrivial=findings, programs=len(names), exhaustive=True, repository_suite_executions=suite_execs,
               rule='one event per registered lint (all of them): statically emittable statuses of every return path (SSA) + statuses observed on the corpus; '
                    'non-trivial = lints observed with a finding status',
               samples=[json.loads(lines[0]), json.loads(lines[len(lines) // 2])], planted_inputs=planted, unknown_tool_flags=unknown_flags,
               trusted_base=['golang.org/x/tools go/packages + ssa'])
    return vlib.finish(ctx, 'model_checking', cov, ASSUME)


def replay(ctx, rp):
    print(json.dumps(rp['replay']))
    return run(ctx)

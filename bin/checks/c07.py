"""C07 - a lint's verdict does not depend on which other lints run."""
import json, os
import vlib
from checks import histcommon

ASSUME = ['details text is compared through a 32-bit digest',
          'the memo key of a verdict is <<object, lint, what the configuration says to the lint>>; the registry is deliberately not part of it']
WANTED = {'result-for-unselected-lint', 'no-result-for-selected-lint', 'status-differs', 'details-differ', 'flags', 'panic-escaped'}


def run(ctx):
    exe = vlib.build(ctx)
    vlib.tlc_mc(ctx, 'MC_Process', 'MC_Process' if ctx.quick else 'MC_Process_big', workers=12)
    histcommon.plan_multi(ctx)
    vlib.GOENV['VERIF_MULTI_SKIP'] = 'kueku'          # one lint reads those; C05 and the KeyUsage rule family cover them
    histcommon.cfg_probe(ctx, exe)
    stab = {}

    def keyfn(r):
        return '%s:%s' % (r['lint'], r['why'])
    s, nev = histcommon.judge(ctx, exe, 'filter', 'c07', WANTED, keyfn)
    # attribution (DESIGN 6.1): details that vary by themselves are a C05 matter, not a dependence on co-running lints
    keep = []
    for v in ctx.violations:
        rp = json.load(open(v['replay']))['replay']
        if rp.get('why') == 'details-differ' and rp.get('obj') and histcommon.stability(ctx, exe, rp['obj'], rp['lint'], len(keep)):
            ctx.notes.append('details of %s vary by themselves on %s: attributed to C05' % (rp['lint'], rp['obj']))
            continue
        keep.append(v)
    ctx.violations = keep
    cov = dict(evaluations=s['lint_calls'], distinct_nontrivial=s['pairs_with_details'],
               rule='evaluation = one Lint*Ex call of an object with one registry (full, by-source include/exclude, regexp, random name subsets, singletons, '
                    'filter of a filter; filtered before or after the full run); non-trivial = distinct (object, lint) pairs with a finding carrying details',
               samples=[s['sample']], filtered_registries=s['filtered_registries'], objects=s['objects'], events=nev,
               trusted_base=['zcrypto parser', 'fnv digest of details'])
    return vlib.finish(ctx, 'model_checking', cov, ASSUME)


def replay(ctx, rp):
    exe = vlib.build(ctx)
    r = rp['replay']
    d, _ = histcommon.run_history(ctx, exe, r['phases'], 'replay', only=r['obj'])
    rej, _ = histcommon.validate(ctx, os.path.join(d, 'history.ndjson'), shards=1)
    for x in rej:
        print('REJECT', x['lint'], x['why'], x['info'], x['event'].get('tag'))
    return 1 if rej else 0

"""C08 - filtering selects exactly the documented set."""
import json, os
import vlib

ASSUME = ['regular-expression matching and strings.TrimSpace are Go standard library (the harness logs the match set and the trimmed token)',
          'names are encoded as ranks in the sorted list of all names']


def judge_filter_trace(ctx, exe, tf):
    rejects, lines = vlib.tlc_trace(ctx, 'Trace_Registry', tf, header=1, shards=8)
    seen = set()
    for (ln, payload) in rejects:
        e = json.loads(lines[ln - 1])
        if e.get('ev') != 'Filter':
            continue
        for why in payload[0]:
            if why.startswith('fid-'):
                if len(ctx.drift) < 30:
                    ctx.drift.append('Filter %s: %s' % (describe(e), why))
                continue
            if why in seen:
                continue
            seen.add(why)
            vlib.report(ctx, 'filter:' + why, 'Filter(%s) on registry #%d: %s (err=%s %s, %d selected)' % (
                describe(e), e['parent'], why, e['err'], e.get('errMsg', ''), len(e['sel'])), dict(kind='filter', event=e))


def describe(e):
    return 'IncludeNames=%s ExcludeNames=%s IncludeSources=%s ExcludeSources=%s NameFilter=%s' % (
        json.dumps(e['ixRaw']), json.dumps(e['xxRaw']), e['is'], e['xs'], e.get('re'))


def run(ctx):
    exe = vlib.build(ctx)
    vlib.tlc_mc(ctx, 'MC_Registry', 'MC_Registry', workers=8)
    vlib.tlc_mc(ctx, 'MC_Registry', 'MC_Registry_chain', workers=8)
    vlib.tlc_mc(ctx, 'MC_Registry', 'MC_Registry_laws', workers=1)
    vlib.tlapm(ctx, 'Proofs_Registry')  # unbounded: the laws of Filter as a function, for every universe and option record
    # (G) every option record of the bounded universe replayed on a real 5-lint registry
    rec, out = vlib.tlc_mc(ctx, 'MC_Registry_export', 'MC_Registry_export', workers=8)
    exp = ctx.path('export.out')
    open(exp, 'w').write(out)
    d = vlib.drive(ctx, exe, 'regreplay', env={'VERIF_EXPORT': exp})
    rsum = json.load(open(os.path.join(d, 'summary.json')))
    seen = set()
    for m in (json.load(open(os.path.join(d, 'mismatches.json'))) or []):
        w = m['Why'].split(' (')[0]
        if w in seen:
            continue
        seen.add(w)
        vlib.report(ctx, 'model-replay:' + w, 'Filter on the 5-lint registry %s differs from Registry.tla: %s; options %s; got %s' % (
            rsum['universe'], m['Why'], json.dumps(m['Case']), json.dumps(m['Got'])), dict(kind='regreplay', case=m['Case']))
    # (V) seeded random / adversarial options over the full real registry and two derived registries
    d = vlib.drive(ctx, exe, 'registry')
    fsum = json.load(open(os.path.join(d, 'summary.json')))
    judge_filter_trace(ctx, exe, os.path.join(d, 'filter.ndjson'))
    cov = dict(evaluations=fsum['filters'] + rsum['replayed'], distinct_nontrivial=fsum['nontrivial'],
               rule='evaluation = one Filter call: every option record of the bounded model universe replayed on a real 5-lint registry, plus seeded '
                    'random/adversarial FilterOptions on the full registry and two derived registries; non-trivial = distinct (name filter?, include sources?, '
                    'exclude sources?, size of result) classes that select neither everything nor nothing, plus error classes',
               samples=[rsum['sample'], fsum['sample']], model_cases_replayed=rsum['replayed'], lints=fsum['lints'],
               trusted_base=['Go regexp', 'strings.TrimSpace', 'reflect.DeepEqual'])
    return vlib.finish(ctx, 'model_checking', cov, ASSUME)


def replay(ctx, rp):
    print(json.dumps(rp['replay'], indent=1)[:3000])
    return run(ctx)

"""C09 - verdicts do not depend on the signature value."""
import json, os
import vlib
from checks import histcommon

ASSUME = ['non-self-issued = raw issuer bytes differ from raw subject bytes; every variant keeps TBS, both algorithm identifiers and the signature length (asserted per variant)',
          'the design model has no signature bits at all, so the model-checking part is light: the weight is on the validated traces']


def run(ctx):
    exe = vlib.build(ctx)
    vlib.tlc_mc(ctx, 'MC_Process', 'MC_Process', workers=12)
    d = vlib.drive(ctx, exe, 'sig')
    s = json.load(open(os.path.join(d, 'summary.json')))
    for f in json.load(open(os.path.join(d, 'facts.json'))) or []:
        if f['selfSigned'] or not (f['sameTBS'] and f['sameSigLen'] and f['sameAlg']):
            raise vlib.Inconclusive('a forged variant is not a signature-only variant: %s' % json.dumps(f))
    rej, lines = histcommon.validate(ctx, os.path.join(d, 'history.ndjson'))
    classes = {}
    for r in rej:
        if r['why'] in ('status-differs', 'details-differ', 'panic-escaped'):
            classes.setdefault('%s:%s' % (r['lint'], r['why']), []).append(r)
    n = 0
    full_again = [None]
    for key, rs in sorted(classes.items()):
        r = rs[0]
        obj = r['event']['obj']
        n += 1
        if n > 12:
            break
        d2 = vlib.drive(ctx, exe, 'sig', sub='confirm%d' % n, extra=['-only', obj])
        rej2, _ = histcommon.validate(ctx, os.path.join(d2, 'history.ndjson'), shards=1)
        if not [x for x in rej2 if x['lint'] == r['lint'] and x['why'] == r['why']]:
            # not reproducible on that certificate alone: the verdict may depend on what was linted before it
            # (the batch pass lints the same dummy signature on one certificate after the other) - repeat the whole history once
            if full_again[0] is None:
                d3 = vlib.drive(ctx, exe, 'sig', sub='confirm-full')
                full_again[0], _ = histcommon.validate(ctx, os.path.join(d3, 'history.ndjson'))
            if not [x for x in full_again[0] if x['lint'] == r['lint'] and x['why'] == r['why'] and x['event']['obj'] == obj]:
                ctx.notes.append('unreproduced: %s on %s' % (key, obj))
                continue
        if r['why'] == 'details-differ' and histcommon.stability(ctx, exe, obj, r['lint'], n):
            ctx.notes.append('details of %s vary by themselves on %s: attributed to C05' % (r['lint'], obj))
            continue
        vlib.report(ctx, key, '%s: %s on %s when only the signature bits change ([%s] vs [%s]); %d such events' % (
            r['lint'], r['why'], obj, r['info'], r['event']['tag'], len(rs)), dict(kind='sig', obj=obj, lint=r['lint'], why=r['why']))
    cov = dict(evaluations=s['lint_calls'], distinct_nontrivial=s['bases_nontrivial'],
               rule='evaluation = one full-registry lint of a signature variant (zero, ones, single-bit flips first/middle/last, ECDSA-shaped, seeded random) of a non-self-issued corpus certificate - also under a configuration whose string options hold the identifiers (digests, serial number) of the certificate, when a lint has such an option; '
                    'non-trivial = distinct base certificates with a non-NA verdict that were re-signed',
               samples=[s['sample']], variants=s['variants'], self_issued_skipped=s['self_issued_skipped'], identifier_configurations=s.get('identifier_configurations', 0),
               trusted_base=['zcrypto parser (sets SelfSigned only for self-issued certificates)'])
    return vlib.finish(ctx, 'model_checking', cov, ASSUME)


def replay(ctx, rp):
    exe = vlib.build(ctx)
    d = vlib.drive(ctx, exe, 'sig', extra=['-only', rp['replay']['obj']])
    rej, _ = histcommon.validate(ctx, os.path.join(d, 'history.ndjson'), shards=1)
    for x in rej:
        print('REJECT', x['lint'], x['why'], x['info'], x['event'].get('tag'))
    return 1 if rej else 0

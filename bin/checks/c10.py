"""C10 - concurrent linting is safe and equals sequential linting."""
import json, os, re, glob
import vlib

ASSUME = ['gates sit at lock-free points (checked on the model: GatesAreLockFree), so parking a goroutine there cannot create a deadlock the free-running program lacks',
          'a data-race report counts when one of its stacks has a frame of github.com/zmap/zlint/v3; reports confined to the harness are reported as harness defects (inconclusive)',
          'the same call made alone = the same operation on a registry built by the same filter chain, computed after the concurrent phase in the same process',
          'details text is compared through a 32-bit digest']
LABEL = {1: 'NA', 2: 'NE', 3: 'pass', 4: 'info', 5: 'warn', 6: 'error', 7: 'fatal', -3: 'nil'}


def seg_key(line):
    return '"ev":"Begin"' in line[:60] or line.startswith('{"ev":"Begin"')


def parse_races(d):
    """Race-detector reports of one driver run: (gating?, summary, text)."""
    out = []
    for f in sorted(glob.glob(os.path.join(d, 'race.*'))):
        txt = open(f, errors='replace').read()
        for blk in txt.split('==================\n'):
            if 'WARNING: DATA RACE' not in blk:
                continue
            frames = re.findall(r'^\s+(\S+\(.*?\)|\S+)\n\s+(\S+):(\d+)', blk, re.M)
            zl = [fr for fr in frames if 'github.com/zmap/zlint/v3' in fr[0]]
            top = []
            for part in re.split(r'\n\n', blk):
                m = re.search(r'^(Read|Write|Previous read|Previous write|Previous atomic \w+|Atomic \w+) at .*?\n\s+(\S+)\(', part, re.M | re.S)
                if m:
                    top.append('%s in %s' % (m.group(1).lower(), m.group(2)))
            zf = sorted({re.sub(r'\(\)$', '', fr[0]) for fr in zl})
            out.append(dict(zlint=bool(zl), top=top[:2], zlint_frames=zf[:6], text=blk[:3000]))
    return out


def validate(ctx, tf, names):
    rejects, lines = vlib.tlc_trace(ctx, 'Trace_Concurrent', tf, header=1, shards=12, segment_key=seg_key)
    out = []
    for (ln, payload) in rejects:
        e = json.loads(lines[ln - 1])
        # the segment this event belongs to
        k = ln - 1
        while k > 0 and not seg_key(lines[k]):
            k -= 1
        seg = json.loads(lines[k]) if seg_key(lines[k]) else {}
        for (why, rank, st) in payload[0]:
            out.append(dict(event=e, why=why, lint=names[rank - 1] if rank > 0 else '', st=st, seg=seg.get('info', {}), mode=seg.get('mode')))
    return out, lines


def run_mode(ctx, exe, sub, env, race=False):
    d = os.path.dirname(ctx.path(sub, '.keep'))
    e = dict(env)
    if race:
        e['GORACE'] = 'log_path=%s/race halt_on_error=0 exitcode=0' % d
    d = vlib.drive(ctx, exe, 'concurrent', sub=sub, env=e, timeout=1500)
    s = json.load(open(os.path.join(d, 'summary.json')))
    return d, s


def judge(ctx, exe, exe_race, rej, races, rerun):
    """rej: rejections of one driver run; rerun(): runs the same thing again and returns (rejections, races)."""
    fid = [r for r in rej if r['why'].startswith('fid-')]
    for r in fid[:5]:
        ctx.drift.append('%s (goroutine %s op %s, %s)' % (r['why'], r['event'].get('g'), r['event'].get('op'), r['mode']))
    rej = [r for r in rej if not r['why'].startswith('fid-')]
    harness = [r for r in rej if r['why'] in ('Stuck', 'Starved', 'no-baseline')]
    rej = [r for r in rej if r not in harness]
    for r in races:
        if r['zlint']:
            key = 'race:' + ' / '.join(sorted({t.split(' in ')[-1] for t in r['top']}))
            vlib.report(ctx, key, 'data race while linting concurrently: %s; zlint frames: %s' % ('; '.join(r['top']), ', '.join(r['zlint_frames'])),
                        dict(kind='race', report=r['text']))
        else:
            ctx.notes.append('race report without zlint frames (harness or dependency): %s' % '; '.join(r['top']))
    classes = {}
    for r in rej:
        classes.setdefault((r['why'], r['lint']), []).append(r)
    raced = any(r['zlint'] for r in races)
    for (why, lintname), rs in sorted(classes.items())[:10]:
        r = rs[0]
        e = r['event']
        confirmed = raced or r['mode'] == 'gated' and why in ('Panic', 'Hang')
        tries = 0
        while not confirmed and tries < 4:
            tries += 1
            rej2, races2 = rerun(tries)
            if any(x['why'] == why and x['lint'] == lintname for x in rej2) or any(x['zlint'] for x in races2):
                confirmed = True
        what = '%s%s: goroutine %s, operation %s %s (%s run, %s)%s; %d such events' % (
            why, (' of ' + lintname + ' [' + LABEL.get(r['st'], str(r['st'])) + ']') if lintname else '', e.get('g'), e.get('i'), e.get('op', ''), r['mode'], json.dumps(r['seg'])[:160],
            (' ' + e.get('msg', '')[:200]) if e.get('ev') == 'Panic' else '', len(rs))
        if confirmed:
            vlib.report(ctx, '%s:%s' % (why, lintname or e.get('op', '')), what, dict(kind=r['mode'], seg=r['seg'], why=why, lint=lintname, seed=ctx.seed,
                                                                                      stack=e.get('stack', e.get('stacks', ''))[:3000]))
        else:
            ctx.notes.append('unreproduced in %d re-runs: %s' % (tries, what))
            ctx.unreproduced = getattr(ctx, 'unreproduced', 0) + 1
    if harness:
        ctx.notes.append('harness events (%s): treated as inconclusive' % sorted({r['why'] for r in harness}))
        ctx.unreproduced = getattr(ctx, 'unreproduced', 0) + 1


def run(ctx):
    exe = vlib.build(ctx)
    exe_race = vlib.build(ctx, race=True)
    # (M) every interleaving of the bounded programs; counter-models must fail (anti-vacuity of the invariants)
    vlib.tlc_mc(ctx, 'MC_Concurrent', 'MC_Concurrent', workers=8)
    vlib.tlc_mc(ctx, 'MC_Concurrent', 'MC_Concurrent_big', workers=12)
    if not ctx.quick:
        vlib.tlc_mc(ctx, 'MC_Concurrent', 'MC_Concurrent_huge', workers=12)
    for bad in ('publish-early', 'scratch', 'reentrant-lock'):
        vlib.tlc_mc(ctx, 'MC_Concurrent', 'MC_Concurrent_bad_' + bad, workers=4, expect_violation=True)
    # (G) schedules out of the model, enforced on real goroutines through the gate hook
    rec, out = vlib.tlc_mc(ctx, 'Sched_Concurrent', 'Sched_Concurrent' if ctx.quick else 'Sched_Concurrent_big', workers=8)
    exp = ctx.path('sched.out')
    open(exp, 'w').write(out)
    nsched = out.count('<<"SCHED"')
    totals = dict(ops=0, lint_ops=0, segments=0, schedules=0, races=0)
    samples = []

    def gated(tag, exact, maxs, seed_shift=0):
        env = {'VERIF_MODE': 'gated', 'VERIF_EXPORT': exp, 'VERIF_MAXSCHED': str(maxs), 'VERIF_EXACT': '1' if exact else '0'}

        def once(k=0):
            d, s = run_mode(ctx, exe, '%s-%d' % (tag, k), env)
            rej, lines = validate(ctx, os.path.join(d, 'concurrent.ndjson'), json.loads(open(os.path.join(d, 'concurrent.ndjson')).readline())['names'])
            return d, s, rej, lines
        d, s, rej, lines = once()
        for k in totals:
            totals[k] += s.get(k, 0)
        samples.append(json.loads(lines[1])['info'])
        if s['hung']:
            rej.append(dict(event=dict(ev='Hang', g=0), why='Hang', lint='', st=0, seg={}, mode='gated')) if not any(r['why'] == 'Hang' for r in rej) else None
        judge(ctx, exe, exe_race, rej, [], lambda k: (once(k)[2], []))
    gated('exact', True, nsched if not ctx.quick else 150)
    gated('full', False, 60 if ctx.quick else nsched)

    # (V) free-running goroutines under the race detector, several GOMAXPROCS settings
    # a cover set of objects (every lint judges on one of them), computed by ANOTHER process: the free-running processes start cold
    dcov = vlib.drive(ctx, exe, 'cover')
    cover = os.path.join(dcov, 'cover.json')
    for gmp in ((2, 16) if ctx.quick else (1, 2, 4, 16)):
        env = {'VERIF_MODE': 'free', 'GOMAXPROCS': str(gmp), 'VERIF_COVER': cover}

        def once(k=0, gmp=gmp, env=env):
            d, s = run_mode(ctx, exe_race, 'free-%d-%d' % (gmp, k), env, race=True)
            races = parse_races(d)
            rej, lines = validate(ctx, os.path.join(d, 'concurrent.ndjson'), json.loads(open(os.path.join(d, 'concurrent.ndjson')).readline())['names'])
            return d, s, rej, races, lines
        d, s, rej, races, lines = once()
        for k in totals:
            totals[k] += s.get(k, 0)
        totals['races'] += len(races)
        if s['hung'] and not any(r['why'] == 'Hang' for r in rej):
            rej.append(dict(event=dict(ev='Hang', g=0), why='Hang', lint='', st=0, seg={}, mode='free'))
        judge(ctx, exe, exe_race, rej, races, lambda k: (lambda r: (r[2], r[3]))(once(k)))
        samples.append(dict(mode='free', gomaxprocs=gmp, ops=s['ops'], program_of_goroutine_1=json.loads(lines[1])['progs'][0][:4]))
    # (V) hot loops: many goroutines, few objects that differ on a block of 12 lints, one narrow registry handed out cold
    for (gmp, block, reps) in (((16, 3, 300), (4, 12, 150)) if ctx.quick else ((16, 1, 400), (16, 3, 600), (4, 3, 400), (16, 12, 400), (2, 12, 400))):
        env = {'VERIF_MODE': 'hot', 'GOMAXPROCS': str(gmp), 'VERIF_HOT_BLOCK': str(block), 'VERIF_HOT_REPS': str(reps)}

        def once_hot(k=0, gmp=gmp, env=env, block=block):
            d, s = run_mode(ctx, exe, 'hot-%d-%d-%d' % (gmp, block, k), env)
            rej, lines = validate(ctx, os.path.join(d, 'concurrent.ndjson'), json.loads(open(os.path.join(d, 'concurrent.ndjson')).readline())['names'])
            return d, s, rej, lines
        d, s, rej, lines = once_hot()
        for k in totals:
            totals[k] += s.get(k, 0)
        totals['hot_calls'] = totals.get('hot_calls', 0) + s.get('hot_calls', 0)
        if s['hung'] and not any(r['why'] == 'Hang' for r in rej):
            rej.append(dict(event=dict(ev='Hang', g=0), why='Hang', lint='', st=0, seg={}, mode='hot'))
        judge(ctx, exe, exe_race, rej, [], lambda k: (once_hot(k)[2], []))
        samples.append(dict(mode='hot', gomaxprocs=gmp, lints_per_block=block, repetitions=reps, blocks=s.get('hot_blocks'), calls=s.get('hot_calls')))
    cov = dict(evaluations=totals['ops'], distinct_nontrivial=totals['schedules'] + totals['segments'],
               rule='evaluation = one concurrent operation (Lint*Ex, Names, lookups, listing, Filter) whose reply is compared with the model / the same call made alone; '
                    'non-trivial = distinct schedules enforced through the gates + distinct free-running program sets (GOMAXPROCS varied) + hot-loop blocks (8-16 goroutines x 6-8 objects that differ on a block of 1, 3 or 12 lints x 150-600 repetitions; every differing reply is an event)',
               samples=samples[:4], schedules_exported=nsched, lint_operations=totals['lint_ops'], race_reports=totals['races'], hot_loop_calls=totals.get('hot_calls', 0),
               trusted_base=['Go race detector', 'runtime.Stack goroutine ids (gated mode)', 'fnv digest of details'])
    rc = vlib.finish(ctx, 'model_checking', cov, ASSUME)
    if rc == 0 and getattr(ctx, 'unreproduced', 0):
        raise vlib.Inconclusive('rejected events that could not be reproduced: %s' % ctx.notes[-3:])
    return rc


def replay(ctx, rp):
    print(json.dumps(rp['replay'], indent=1)[:4000])
    os.environ['VERIF_SEED'] = str(rp['replay'].get('seed', 1))
    ctx.seed = rp['replay'].get('seed', 1)
    return run(ctx)

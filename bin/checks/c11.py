"""C11 - configuration changes only what it names, and errors stay local."""
import json, os
import vlib
from checks import histcommon, c07

ASSUME = ['configurations are rendered by the harness from the generated example configuration (values flipped, ill-typed, scalar / array where a table is expected, '
          'unknown keys, unrelated sections); what each configuration says to each configurable lint is therefore known by construction',
          'a section holding exactly the default values is expected to behave like an absent one']
WANTED = {'unapplicable-section-not-a-configuration-error', 'status-differs', 'details-differ', 'panic-escaped', 'recovered-panic-under-an-applicable-section', 'flags',
          'example-configuration-not-toml', 'example-configuration-lacks-section', 'result-for-unselected-lint', 'no-result-for-selected-lint'}


def run(ctx):
    exe = vlib.build(ctx)
    vlib.tlc_mc(ctx, 'MC_Process', 'MC_Process' if ctx.quick else 'MC_Process_big', workers=12)
    # behaviours of the model for the replayer (binding G): simulated histories of 10 operations
    n = 150 if ctx.quick else 1500
    rec, out = vlib.tlc_mc(ctx, 'MC_Process', 'MC_Process_sim', workers=1, simulate='num=%d' % n, heap='4g')
    exp = ctx.path('hist.out')
    open(exp, 'w').write(out)

    histcommon.cfg_probe(ctx, exe)

    def keyfn(r):
        if r['why'] == 'unapplicable-section-not-a-configuration-error':
            return '%s:%s-section' % (r['lint'], r['info'])
        if r['why'] == 'panic-escaped':
            return 'escape:%s' % r['event'].get('kind')
        return '%s:%s' % (r['lint'] or r['event']['ev'], r['why'])
    s, nev = histcommon.judge(ctx, exe, 'config,model', 'c11', WANTED, keyfn, export=exp)
    # configuration must not leak between runs either: one process per first configuration, merged per object
    from concurrent.futures import ThreadPoolExecutor
    with ThreadPoolExecutor(max_workers=6) as ex:
        res = list(ex.map(lambda p: histcommon.run_history(ctx, exe, 'cfgfirst', 'cfgfirst%d' % p, env2={'VERIF_FIRSTCFG': str(p)}), range(6 if ctx.quick else 16)))
    merged = ctx.path('cfgfirst-merged.ndjson')
    histcommon.merge_by_object([os.path.join(d, 'history.ndjson') for (d, _) in res], merged)
    rej, _ = histcommon.validate(ctx, merged, shards=4)
    seen = set()
    for r in rej:
        if r['why'] in WANTED and keyfn(r) not in seen:
            seen.add(keyfn(r))
            vlib.report(ctx, keyfn(r), '%s: %s on %s: first seen under [%s], now [%s] (processes that met the configurations in different orders)' % (
                r['lint'], r['why'], r['event'].get('obj'), r['info'], r['event'].get('tag')), dict(kind='history', phases='cfgfirst', obj=r['event'].get('obj'), lint=r['lint'], why=r['why']))
    cfgdoc(ctx, exe)
    keep = []
    for v in ctx.violations:
        rp = json.load(open(v['replay']))['replay']
        if rp.get('why') == 'details-differ' and rp.get('obj') and histcommon.stability(ctx, exe, rp['obj'], rp['lint'], len(keep)):
            ctx.notes.append('details of %s vary by themselves on %s: attributed to C05' % (rp['lint'], rp['obj']))
            continue
        keep.append(v)
    ctx.violations = keep
    cov = dict(evaluations=s['lint_calls'], distinct_nontrivial=s['cfg_pairs'],
               rule='evaluation = one Lint*Ex call under a configuration of the catalogue (on the global registry, on copies, on children born under another configuration, '
                    'after resets) or inside a replayed model history; non-trivial = distinct (configurable lint, section shape) pairs on an object where the lint is not NA',
               samples=[s['sample']], configurations=s.get('configurations'), configurable=s.get('configurable'), model_histories=s.get('model_histories'),
               objects=s['objects'], events=nev, config_documents=ctx.cov.get('config_documents'), config_document_runs=ctx.cov.get('config_document_runs'), trusted_base=['go-toml', 'fnv digest of details'])
    return vlib.finish(ctx, 'model_checking', cov, ASSUME)


def cfgdoc(ctx, exe):
    """ConfigDoc.tla: the configuration as a document resolved into option structs (own section, higher-scoped sections by value /
    by pointer / nested / unexported), bound with mock lints registered through the public API; the example configuration too."""
    vlib.tlc_mc(ctx, 'MC_ConfigDoc', 'MC_ConfigDoc', workers=2)
    rec, out = vlib.tlc_mc(ctx, 'MC_ConfigDoc_export', 'MC_ConfigDoc_export', workers=1)
    exp = ctx.path('cfgdoc.export')
    open(exp, 'w').write(out)
    d = vlib.drive(ctx, exe, 'cfgdoc', env={'VERIF_EXPORT': exp})
    s = json.load(open(os.path.join(d, 'summary.json')))
    rejects, lines = vlib.tlc_trace(ctx, 'Trace_ConfigDoc', os.path.join(d, 'cfgdoc.ndjson'), shards=1)   # one memo over the whole trace
    seen = {}
    for (ln, payload) in rejects:
        e = json.loads(lines[ln - 1])
        for (lintname, why) in payload[0]:
            if why.startswith('fid-'):
                msg = 'configuration document: %s %s' % (lintname, why)
                if msg not in ctx.drift:
                    ctx.drift.append(msg)
                continue
            key = 'cfgdoc:%s:%s' % (lintname or e['ev'], why)
            seen[key] = seen.get(key, 0) + 1
            if seen[key] > 1:
                continue
            obs = [o for o in e.get('obs', []) if o['lint'] == lintname]
            vlib.report(ctx, key, '%s: %s under the configuration %r (%s): observed %s' % (
                lintname or e['ev'], why, e.get('toml', ''), e.get('docIs', ''), json.dumps(obs)[:300]),
                dict(kind='cfgdoc', toml=e.get('toml'), doc=e.get('doc'), docIs=e.get('docIs'), lint=lintname, why=why))
    ctx.cov['config_documents'] = s['documents']
    ctx.cov['config_document_runs'] = s['runs']
    return s


def replay(ctx, rp):
    exe = vlib.build(ctx)
    r = rp['replay']
    if r.get('kind') == 'cfgdoc':
        print(json.dumps(r, indent=1)[:3000])
        cfgdoc(ctx, exe)
        for v in ctx.violations:
            print('REJECT', v['key'], v['what'][:300])
        return 1 if ctx.violations else 0
    d, _ = histcommon.run_history(ctx, exe, 'config', 'replay', only=r['obj'])
    rej, _ = histcommon.validate(ctx, os.path.join(d, 'history.ndjson'), shards=1)
    for x in rej:
        print('REJECT', x['lint'], x['why'], x['info'], x['event'].get('tag'), x['event'].get('panicMsg', '')[:200])
    return 1 if rej else 0

"""C12 - every lint in the tree is registered once, reachable and well-formed."""
import json, os
import vlib

ASSUME = ['census = Register*Lint call expressions in non-test files under v3/lints (go/packages AST); lint-shaped type = has CheckApplies and Execute',
          'name order is Go string order (sort.Strings)']


def run(ctx):
    exe = vlib.build(ctx)
    vlib.tlc_mc(ctx, 'MC_Registry', 'MC_Registry_chain', workers=8)
    ex = vlib.extract(ctx)
    d = vlib.drive(ctx, exe, 'registry')
    tf = os.path.join(d, 'registry.ndjson')
    census = dict(ev='Census', rawNames=[n for n in (ex.get('rawNames') or []) if n], names=[r['name'] for r in ex['registrations']], lintDirs=ex['lintDirs'], imported=ex['imported'],
                  lintTypes=ex['lintTypes'], registeredTypes=ex['registeredTypes'])
    with open(tf, 'a') as fh:
        fh.write(json.dumps(census) + '\n')
    # one trace, one shard: the registrations build the model state that the Tables event is compared with
    rejects, lines = vlib.tlc_trace(ctx, 'Trace_Registry', tf, header=1, shards=1)
    hdr = json.loads(lines[0])
    hdr['names'] = [n for n in hdr['names'] if n not in set(hdr.get('late', []))]
    for (ln, payload) in rejects:
        e = json.loads(lines[ln - 1])
        for why in payload[0]:
            if e['ev'] == 'Register':
                vlib.report(ctx, '%s:%s' % (e['name'], why), 'lint %s (%s): %s' % (e['name'], e['kind'], why), dict(event=e))
            elif e['ev'] == 'Census':
                names = set(e['names'])
                reg = set(hdr['names'])
                unresolved = [n for n in e['names'] if not n]
                if unresolved and why in ('census-differs-from-registry', 'lint-type-never-registered') and (names - {''}) <= reg:
                    # a registration whose name is not a literal at the call site (a helper, a loop over a table) registers what
                    # the census cannot count: every name the sources do spell out is registered, the rest is undecided
                    ctx.drift.append('census: %d registration call(s) with a computed name; %d registered lints are not spelled out at a call site (%s): the count of registrations is not decided' % (
                        len(unresolved), len(reg - names), ', '.join(sorted(reg - names)[:4])))
                    continue
                detail = 'in sources only: %s; in registry only: %s; census=%d registry=%d; dirs not imported: %s; types never registered: %s' % (
                    sorted(names - reg)[:5], sorted(reg - names)[:5], len(e['names']), len(hdr['names']),
                    sorted(set(e['lintDirs']) - set(e['imported'])), sorted(set(e['lintTypes']) - set(e['registeredTypes']))[:5])
                vlib.report(ctx, 'census:' + why, why + ': ' + detail, dict(event='census'))
            else:
                vlib.report(ctx, '%s:%s' % (e['ev'], why), 'runtime tables of the registry (%s): %s' % (e.get('when', ''), why), dict(event=e['ev'], when=e.get('when')))
    # exported identifiers of the library packages against the pinned record: a new one is an entry point no driver calls
    added, removed = vlib.api_census(ctx)
    for (pkg, x) in added[:8]:
        ctx.drift.append('new exported identifier in %s, driven by no specification here: %s' % (pkg, x[:120]))
    for (pkg, x) in removed[:8]:
        ctx.drift.append('exported identifier of the pinned tree is gone from %s: %s' % (pkg, x[:120]))
    cov = dict(api_added=len(added), api_removed=len(removed), evaluations=len(lines), distinct_nontrivial=len(hdr['names']), programs=len(hdr['names']), exhaustive=True,
               rule='one Register event per registered lint replayed through Registry.tla (tables compared with the runtime lookups afterwards), '
                    'metadata well-formedness per lint, census of the source tree vs the registry; every lint is non-trivial',
               samples=[json.loads(lines[1]), {k: (v if not isinstance(v, list) else v[:5]) for k, v in census.items()}],
               census_registrations=len(ex['registrations']),
               trusted_base=['golang.org/x/tools go/packages', 'sort.Strings'])
    return vlib.finish(ctx, 'model_checking', cov, ASSUME)


def replay(ctx, rp):
    print(json.dumps(rp['replay'], indent=1)[:3000])
    return run(ctx)

"""C13 - whatever the tool lists can be used to select."""
import json, os
import vlib

ASSUME = ['"defined source" = a LintSource constant declared in v3/lint (extracted from the sources); "listed" = returned by Names()/Sources() or printed by the CLI listing',
          'the CLI is judged by its exit status with -list-lints-json (which runs the selection code only)']


def run(ctx):
    exe = vlib.build(ctx)
    cli = vlib.build_cli(ctx)
    vlib.tlc_mc(ctx, 'MC_Select', 'MC_Select', workers=2)
    ex = vlib.extract(ctx)
    d = vlib.drive(ctx, exe, 'selectors', env={'VERIF_CLI': cli, 'VERIF_SOURCE_CONSTANTS': json.dumps(ex['sourceConstants'])})
    s = json.load(open(os.path.join(d, 'summary.json')))
    rejects, lines = vlib.tlc_trace(ctx, 'Trace_Select', os.path.join(d, 'select.ndjson'), shards=2)
    for (ln, payload) in rejects:
        e = json.loads(lines[ln - 1])
        for why in payload[0]:
            if e['ev'] == 'ProfileUse':
                vlib.report(ctx, 'profile-use:%s:%s' % (e['name'], why), 'selecting by profile %s: %s (retrievable=%s allListed=%s accepted=%s faithful=%s)' % (
                    e['name'], why, e['retrievable'], e['allListed'], e['accepted'], e['faithful']), dict(event=e))
            elif e['ev'] == 'Profile':
                vlib.report(ctx, 'profile:%s' % e['name'], 'profile %s names lints that do not exist: %s' % (e['name'], e['missing'][:5]), dict(event=e))
            else:
                # re-execute: the driver is deterministic; a second process must show the same
                key = '%s:%s:%s' % (e['kind'], e['tok'] if e['kind'] == 'source' else ('listed-name' if e['listed'] else 'unknown-name'), why)
                vlib.report(ctx, key, '%s %r offered to %s: %s (listed=%s defined=%s accepted=%s)' % (
                    e['kind'], e['tok'], e['entry'], why, e['listed'], e['defined'], e['accepted']), dict(event=e))
    if s['profiles_lib'] == 0:
        ctx.notes.append('no profile is registered in this build: the clause about registered profiles is vacuous; the profile mechanism is exercised with profiles made by the driver')
    cov = dict(evaluations=s['events'], distinct_nontrivial=s['classes'],
               rule='evaluation = one selector token offered to one entry point (library include/exclude names, SourceList.FromString, LintSource.FromString, '
                    'JSON round trip, Filter by source, CLI flags, profiles); non-trivial = distinct (kind, entry point, token class) triples',
               samples=[json.loads(lines[0]), json.loads(lines[-1])], names=s['names'], sources=s['sources'], exhaustive=True,
               trusted_base=['os/exec exit status', 'encoding/json'])
    return vlib.finish(ctx, 'model_checking', cov, ASSUME)


def replay(ctx, rp):
    print(json.dumps(rp['replay']))
    return run(ctx)

"""C14 - JSON output is faithful and reversible."""
import json, os
import vlib

ASSUME = ['details are expected back with one U+FFFD per byte that is not valid UTF-8 (computed with Go\'s string->[]rune conversion)',
          'equalities are computed structurally by the harness on decoded values']


def run(ctx):
    exe = vlib.build(ctx)
    vlib.tlc_mc(ctx, 'MC_Codec', 'MC_Codec', workers=1)
    cli = vlib.build_cli(ctx)
    d = vlib.drive(ctx, exe, 'codec', env={'VERIF_CLI': cli})
    s = json.load(open(os.path.join(d, 'summary.json')))
    rejects, lines = vlib.tlc_trace(ctx, 'Trace_Codec', os.path.join(d, 'codec.ndjson'), shards=2)
    for (ln, payload) in rejects:
        e = json.loads(lines[ln - 1])
        for why in payload[0]:
            if why.startswith('fid-'):
                ctx.drift.append('%s %s: %s' % (e['ev'], e.get('id', e.get('token')), why))
                continue
            ident = e.get('token', e.get('status', e.get('id') if e['ev'] == 'Listing' else 'resultset'))
            vlib.report(ctx, '%s:%s:%s' % (e['ev'], ident if e['ev'] not in ('RoundTrip', 'CliOut') else ('resultset' if e['ev'] == 'RoundTrip' else 'tool:' + e.get('how', '')), why), '%s %r: %s (%s)' % (e['ev'], e.get('id', ident), why, json.dumps(e)[:300]), dict(event=e))
    # the listing inside the registry history: after refused registrations, late registrations and thousands of Filter calls the
    # JSON listing still has exactly one line per registered lint (Trace_Registry, reason json-listing)
    from checks import regcommon
    jl, _ = regcommon.reasons(ctx, exe, {'json-listing'})
    for (e, why) in jl:
        vlib.report(ctx, 'Listing:history:%s' % e.get('when', ''), 'the JSON listing of the registry (%s) is not one line per registered lint: %d lines' % (e.get('when', ''), len(e.get('jsonListing', []))),
                    dict(kind='registry', when=e.get('when')))
    cov = dict(evaluations=s['events'], distinct_nontrivial=s['nontrivial'] + s['tokens'],
               rule='evaluation = one value taken through the codec (status label, label decoding incl. non-labels, a whole ResultSet encode->decode->encode, a registry listing, the result object and the listing printed by the real zlint binary decoded and compared with what the library computes); '
                    'non-trivial = result sets with invalid-UTF-8 / non-ASCII details or >= 3 distinct statuses, plus decode probes',
               samples=[json.loads(lines[0]), json.loads(lines[30]), json.loads(lines[-1])], roundtrips=s['roundtrips'], tool_runs=s.get('cli_runs'), tool_awkward_details=s.get('cli_awkward_details'),
               trusted_base=['encoding/json', 'Go rune conversion'])
    return vlib.finish(ctx, 'model_checking', cov, ASSUME)


def replay(ctx, rp):
    print(json.dumps(rp['replay']))
    return run(ctx)

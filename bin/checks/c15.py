"""C15 - the CLI reports what the library computes and fails closed."""
import json, os
import vlib

ASSUME = ['the library result is computed in the driver process with the same selection and configuration; outputs are compared as decoded JSON (summary tables: parsed level/count rows)',
          'no profile is registered in this build, so only the unknown-profile scenario exercises -profile']


def run(ctx):
    exe = vlib.build(ctx)
    cli = vlib.build_cli(ctx)
    vlib.tlc_mc(ctx, 'MC_CLI', 'MC_CLI', workers=4)
    vlib.tlc_mc(ctx, 'MC_Summary', 'MC_Summary', workers=2)   # the summary table as a function of the result statuses
    rec, out = vlib.tlc_mc(ctx, 'MC_CLI', 'MC_CLI_export', workers=4)
    exp = ctx.path('export.out')
    open(exp, 'w').write(out)
    d = vlib.drive(ctx, exe, 'cli', env={'VERIF_CLI': cli, 'VERIF_EXPORT': exp})
    s = json.load(open(os.path.join(d, 'summary.json')))
    rejects, lines = vlib.tlc_trace(ctx, 'Trace_CLI', os.path.join(d, 'cli.ndjson'), shards=4)
    seen = {}
    for (ln, payload) in rejects:
        e = json.loads(lines[ln - 1])
        if e['ev'] == 'CLIBundle':
            for why in payload[0]:
                if why.startswith('fid-'):
                    ctx.drift.append('PEM bundle (%s, %s second): %s' % (e['how'], e['second'], why))
                else:
                    vlib.report(ctx, 'bundle:%s:%s' % (why, e['how']), 'zlint CLI on a PEM input of two blocks (%s, certificate then %s; %s): %s; exit=%s printed=%s stderr=%r' % (
                        e['how'], e['second'], e['objects'], why, e['exitObs'], e['printedObs'], e['stderr']), dict(event=e))
            continue
        sc = e['scn']
        for why in payload[0]:
            if why.startswith('fid-'):
                ctx.drift.append('%s: %s' % (json.dumps(sc), why))
                continue
            cls = '%s:%s/%s/%s/%s/%s' % (why, sc['fmt'], sc['chan'], sc['sel'], sc['cfg'], '+'.join('%s.%s.%s.%s' % (i['obj'], i['enc'], i['corrupt'], i['suffix']) for i in sc['inputs']))
            if why in seen and seen[why] >= 3:
                continue
            seen[why] = seen.get(why, 0) + 1
            vlib.report(ctx, cls, 'zlint CLI: %s; scenario %s on %s: exit=%s printed=%s match=%s stderr=%r' % (
                why, json.dumps(sc), e['objects'], e['exitObs'], e['printedObs'], e['match'], e['stderr']), dict(event=e))
    cov = dict(evaluations=s['launches'], distinct_nontrivial=s['classes'],
               rule='evaluation = one invocation of the real zlint binary for one scenario of CLI.tla (format flag x channel x 1-2 inputs with encoding/corruption/suffix x selection x configuration x output mode) '
                    'concretised on corpus objects; non-trivial = distinct (format, channel, selection, configuration, mode, #inputs, outcome) classes',
               samples=[json.loads(lines[0]), json.loads(lines[len(lines) // 2])], scenarios=s['scenarios'], exhaustive=True,
               trusted_base=['os/exec', 'encoding/json', 'encoding/pem', 'encoding/base64'])
    return vlib.finish(ctx, 'model_checking', cov, ASSUME)


def replay(ctx, rp):
    print(json.dumps(rp['replay'], indent=1)[:3000])
    return run(ctx)

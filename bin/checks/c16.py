"""C16 - RSA key-quality verdicts are arithmetically exact."""
import json, os
import vlib

LABEL = {1: 'NA', 2: 'NE', 3: 'pass', 4: 'info', 5: 'warn', 6: 'error', 7: 'fatal', -1: 'panic'}
ASSUME = ['moduli below 2^31: all arithmetic (bit length, divisors 2..751, Fermat search) is done by TLC; real-size moduli: bit length, parity, planted small divisor and the Fermat index '
          '(p+q)/2 - floor(sqrt N) - 1 are fixed by construction with math/big',
          'a lint is judged only where it applied and was effective (pass or a finding); role and date gates belong to C04']


def run(ctx):
    exe = vlib.build(ctx)
    rec, out = vlib.tlc_mc(ctx, 'MC_RSAKey', 'MC_RSAKey', workers=1)
    exp = ctx.path('plan.out')
    open(exp, 'w').write(out)
    d = vlib.drive(ctx, exe, 'rsa', env={'VERIF_EXPORT': exp})
    s = json.load(open(os.path.join(d, 'summary.json')))
    if s['lints_never_judged']:
        ctx.notes.append('no template on which these lints judge: %s' % s['lints_never_judged'])
    rejects, lines = vlib.tlc_trace(ctx, 'Trace_RSA', os.path.join(d, 'rsa.ndjson'), shards=12)
    for (ln, payload) in rejects:
        e = json.loads(lines[ln - 1])
        for (name, st) in payload[0]:
            keydesc = ('N=%d' % e['n']) if e['ev'] == 'SmallKey' else ('%d-bit N (even=%s small-divisor=%s fermat=%s)' % (e['bits'], e['even'], e['small'], e['fermat']))
            vlib.report(ctx, '%s:%s' % (name, LABEL.get(st, st)), '%s on %s, e=%d, rounds=%d: reported %s' % (name, keydesc, e['e'], e['rounds'], LABEL.get(st, st)),
                        dict(event={k: v for k, v in e.items() if k not in ('lints', 'st')}, lint=name))
    cov = dict(evaluations=s['executions'], distinct_nontrivial=s['vectors'],
               rule='evaluation = one key lint run on a corpus template carrying the forged key (N, e) [and Rounds through a real TOML configuration]; small moduli: every d*757 for d in 2..751, '
                    'primes x 761, neighbouring-prime products in three ranges, gap pairs; real-size classes by bit length / divisor / Fermat gap; non-trivial = distinct status vectors',
               samples=[s['sample'], json.loads(lines[-1])], small_moduli=s['small_moduli'], templates=s['templates'],
               trusted_base=['math/big (real-size classes)', 'zcrypto parser', 'go-toml'])
    return vlib.finish(ctx, 'model_checking', cov, ASSUME)


def replay(ctx, rp):
    print(json.dumps(rp['replay']))
    return run(ctx)

"""C17 - verdicts do not depend on the order of SAN entries or of extensions."""
import json, os
import vlib
from checks import histcommon

LABEL = {1: 'NA', 2: 'NE', 3: 'pass', 4: 'info', 5: 'warn', 6: 'error', 7: 'fatal', -9: 'none', -3: 'nil'}
ASSUME = ['only statuses are compared (the property speaks about status); extension lists are permuted only for certificates without a duplicated extension',
          'planted names come from the corpus vocabulary (every distinct SAN general name) plus hand-made unparseable / odd DNS names']


def run(ctx):
    exe = vlib.build(ctx)
    rec, out = vlib.tlc_mc(ctx, 'MC_Order', 'MC_Order', workers=2)
    d = vlib.drive(ctx, exe, 'order')
    s = json.load(open(os.path.join(d, 'summary.json')))
    rej, lines = histcommon.validate(ctx, os.path.join(d, 'history.ndjson'))
    metas = {json.loads(l)['kind']: json.loads(l) for l in lines[:3]}
    classes = {}
    for r in rej:
        if r['why'] != 'status-differs':
            continue
        classes.setdefault(r['lint'], []).append(r)
    n = 0
    full_again = [None]
    for lint_name, rs in sorted(classes.items()):
        r = rs[0]
        obj = r['event']['obj']
        n += 1
        if n > 14:
            break
        d2 = vlib.drive(ctx, exe, 'order', sub='confirm%d' % n, extra=['-only', obj])
        rej2, _ = histcommon.validate(ctx, os.path.join(d2, 'history.ndjson'), shards=2)
        hit = [x for x in rej2 if x['lint'] == lint_name and x['why'] == 'status-differs']
        if not hit:
            # not reproduced on that object alone (an input family that cannot be asked for by itself, or a verdict that depends on
            # what was linted before): the whole sweep is repeated once - the real code doing it twice is the confirmation
            if full_again[0] is None:
                d3 = vlib.drive(ctx, exe, 'order', sub='confirm-full')
                full_again[0], _ = histcommon.validate(ctx, os.path.join(d3, 'history.ndjson'))
            hit = [x for x in full_again[0] if x['lint'] == lint_name and x['why'] == 'status-differs' and x['event']['obj'] == obj]
        if not hit:
            ctx.notes.append('unreproduced: %s on %s' % (lint_name, obj))
            continue
        x = hit[0]
        vlib.report(ctx, '%s:order' % lint_name, '%s: status changes when only the order changes, on %s: [%s] vs [%s]; %d such events' % (
            lint_name, obj, x['info'], x['event']['tag'], len(rs)), dict(kind='order', obj=obj, lint=lint_name))
    cov = dict(evaluations=s['lint_calls'], distinct_nontrivial=s['bases'],
               rule='evaluation = one full-registry lint of a re-ordered certificate: corpus certificates with >= 2 SAN entries (all permutations up to 4 entries, else reversal/rotations/random) '
                    'and with >= 2 extensions, plus pairs/triples of vocabulary names planted on subscriber templates in both orders; non-trivial = distinct base certificates with re-orderable elements',
               samples=[s['sample']], san_variants=s['san_variants'], ext_variants=s['ext_variants'], planted_pairs=s['planted_pairs'], vocabulary=s['vocabulary'],
               trusted_base=['zcrypto parser'])
    return vlib.finish(ctx, 'model_checking', cov, ASSUME)


def replay(ctx, rp):
    exe = vlib.build(ctx)
    d = vlib.drive(ctx, exe, 'order', extra=['-only', rp['replay']['obj']])
    rej, _ = histcommon.validate(ctx, os.path.join(d, 'history.ndjson'), shards=2)
    for x in rej:
        print('REJECT', x['lint'], x['why'], x['info'], x['event'].get('tag'))
    return 1 if rej else 0

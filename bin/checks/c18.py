"""C18 - TLD validity follows the delegation table exactly."""
import json, os
import vlib

ASSUME = ['the table is read from the AST of v3/util/gtld_map.go on every run; dates are civil dates at 00:00:00 UTC',
          'names are built by the harness from components (prefix labels, table key in some letter case, optional trailing dot), so the right-most label is known by construction']


def run(ctx):
    exe = vlib.build(ctx)
    vlib.tlc_mc(ctx, 'MC_TLD', 'MC_TLD', workers=1)
    vlib.tlapm(ctx, 'Proofs_Intervals')   # unbounded: the delegation window is closed at both ends, non-empty when well-formed
    d = vlib.drive(ctx, exe, 'tld')
    s = json.load(open(os.path.join(d, 'summary.json')))
    if not s['template']:
        ctx.notes.append('no corpus template on which e_dnsname_not_valid_tld passes: lint-level probes skipped')
    rejects, lines = vlib.tlc_trace(ctx, 'Trace_TLD', os.path.join(d, 'tld.ndjson'), header=1, shards=10)
    tbl = json.loads(lines[0])
    for (ln, payload) in rejects:
        e = json.loads(lines[ln - 1])
        for (why, k) in payload[0]:
            if e['ev'] == 'TLDTable':
                key = tbl['keys'][k - 1] if k > 0 else '?'
                vlib.report(ctx, 'table:%s:%s' % (key, why), 'delegation table entry %r: %s (gtld=%r delegation=%s removal=%s)' % (
                    key, why, tbl['gtld'][k - 1] if k > 0 else '', tbl['deleg'][k - 1] if k > 0 else '', tbl['removal'][k - 1] if k > 0 else ''), dict(entry=key))
            elif e['ev'] == 'Probe':
                lab = e['label']
                if why == 'validity-differs':
                    vlib.report(ctx, 'valid:%s' % why, 'HasValidTLD on a name ending in %r at %s (trailing dot=%s) answered %s' % (
                        lab, e['t'][k - 1], e['dot'][k - 1], e['valid'][k - 1]), dict(label=lab, t=e['t'][k - 1], dot=e['dot'][k - 1]))
                else:
                    vlib.report(ctx, 'inmap:%s' % why, 'IsInTLDMap(%r variant %d) answered %s' % (lab, k, e['inmap'][k - 1]), dict(label=lab))
            else:
                vlib.report(ctx, 'lint:%s:%s' % (why, 'subscriber' if e['subscriber'] else 'ca'), 'e_dnsname_not_valid_tld on name %r at %s (cn=%s san=%s cnIsIP=%s subscriber=%s): status %s, specification %s' % (
                    e['name'], e['t'], e['cnProbe'], e['sanProbe'], e['cnIsIP'], e['subscriber'], e['status'], k), dict(event=e))
    # ---- "all future regenerations": the real generator on synthetic registry data (built with an overlaid transport)
    gen = vlib.build_gtld_updater(ctx)
    dg = vlib.drive(ctx, exe, 'gtldgen', env={'VERIF_GTLDUPD': gen})
    grej, glines = vlib.tlc_trace(ctx, 'Trace_TLD', os.path.join(dg, 'gtldgen.ndjson'), shards=1)
    for (ln, payload) in grej:
        e = json.loads(glines[ln - 1])
        for (why, k) in payload[0]:
            if why.startswith('fid-'):
                ctx.drift.append('generator scenario %s: %s (%s)' % (e['scenario'], why, e['stderr']))
                continue
            ent = ('entry %r gtld=%r delegation=%s removal=%s' % (e['keys'][k - 1], e['gtld'][k - 1], e['deleg'][k - 1], e['removal'][k - 1])) if k > 0 else ''
            vlib.report(ctx, 'generator:%s:%s' % (e['class'], why), 'zlint-gtld-update on registry data "%s": %s %s (exit=%s)' % (e['scenario'], why, ent, e['exit']), dict(scenario=e['scenario']))
    cov = dict(evaluations=s['probes'] + s['lint_runs'] + len(glines), distinct_nontrivial=s['boundary_entries'],
               rule='evaluation = one (name, instant) probe of HasValidTLD / IsInTLDMap or one run of the TLD lint on a forged certificate; every table entry is probed at its delegation '
                    'and removal instants -1 s / 0 / +1 s, far past, far future, in 7 name shapes; non-trivial = table entries probed at a boundary (both outcomes seen)',
               samples=[s['sample'], json.loads(lines[5])], entries=s['entries'], generator_scenarios=len(glines), exhaustive=True,
               trusted_base=['go/parser (table extraction)', 'strings.ToLower / ToUpper', 'Go time'])
    return vlib.finish(ctx, 'model_checking', cov, ASSUME)


def replay(ctx, rp):
    print(json.dumps(rp['replay']))
    return run(ctx)

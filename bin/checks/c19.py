"""C19 - reserved-address verdicts are consistent for hosts and networks."""
import json, os, ipaddress
import vlib

ASSUME = ['the special-purpose blocks and the well-known public addresses are the lists written in IPReserved.tla (from the property statement)',
          'IPv4 addresses are 2 and IPv6 addresses 8 groups of 16 bits']


def fmt_addr(g):
    if len(g) == 2:
        return '%d.%d.%d.%d' % (g[0] >> 8, g[0] & 255, g[1] >> 8, g[1] & 255)
    return ':'.join('%x' % x for x in g)


def run(ctx):
    exe = vlib.build(ctx)
    rec, out = vlib.tlc_mc(ctx, 'MC_IPReserved', 'MC_IPReserved', workers=1)
    exp = ctx.path('plan.out')
    open(exp, 'w').write(out)
    d = vlib.drive(ctx, exe, 'ip', env={'VERIF_EXPORT': exp})
    s = json.load(open(os.path.join(d, 'summary.json')))
    if s['templates_missing']:
        ctx.notes.append('no corpus template for the lint(s): ' + s['templates_missing'])
    rejects, lines = vlib.tlc_trace(ctx, 'Trace_IP', os.path.join(d, 'ip.ndjson'), shards=8)
    for (ln, payload) in rejects:
        e = json.loads(lines[ln - 1])
        for why in payload[0]:
            if e['ev'] == 'Chain':
                why, plen = why
                base = fmt_addr(e['g']) if len(e['g']) == 2 else str(ipaddress.IPv6Address(int(''.join('%04x' % x for x in e['g']), 16)))
                net = ipaddress.ip_network('%s/%d' % (base, plen), strict=False)
                vlib.report(ctx, 'net:%s' % net, 'network %s: %s (address %s reserved=%s)' % (net, why, base, e['reserved']), dict(net=str(net), why=why))
            else:
                ident = fmt_addr(e['g']) + ('/%d' % e['len'] if 'len' in e else '')
                if 'len' in e:
                    b = e.get('base', e['g'])
                    base = fmt_addr(b) if len(b) == 2 else str(ipaddress.IPv6Address(int(''.join('%04x' % x for x in b), 16)))
                    net = ipaddress.ip_network('%s/%d' % (base, e['len']), strict=False)
                    vlib.report(ctx, 'net:%s' % net, '%s %s: network %s: %s' % (e['ev'], e.get('lint', ''), net, why), dict(event=e))
                    continue
                vlib.report(ctx, '%s:%s:%s' % (e['ev'] + (':' + e['lint'] if 'lint' in e else ''), ident, why), '%s %s: %s (%s)' % (e['ev'], ident, why, json.dumps(e)[:200]), dict(event=e))
    cov = dict(evaluations=s['events'], distinct_nontrivial=s['chain_flips'],
               rule='evaluation = one address, prefix chain (a/0..a/max), network+inner address, or forged-certificate lint run; addresses = first/last/middle of every named block and of its '
                    'sibling block, the public list, seeded random ones; non-trivial = prefix-chain positions where the network answer flips',
               samples=[json.loads(lines[1]), s['sample']], addresses=s['addresses'], lint_runs=s['lint_runs'],
               trusted_base=['Go net package (mask arithmetic)', 'zcrypto parser'])
    return vlib.finish(ctx, 'model_checking', cov, ASSUME)


def replay(ctx, rp):
    print(json.dumps(rp['replay']))
    return run(ctx)

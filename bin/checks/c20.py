"""C20 - duplicated rules never contradict each other."""
import json, os
import vlib

LABEL = {1: 'NA', 2: 'NE', 3: 'pass', 4: 'info', 5: 'warn', 6: 'error', 7: 'fatal', -1: 'panic'}
ASSUME = ['the table of duplicated rules and their relations is PairTable in Pairs.tla; "both ran" = both results are pass or a finding',
          'same content is planted by construction: SAN value copied byte-for-byte into an IAN extension, subject copied into issuer, common name removed for the DNS-label pairs']


def run(ctx):
    exe = vlib.build(ctx)
    rec, out = vlib.tlc_mc(ctx, 'MC_Pairs', 'MC_Pairs', workers=1)
    exp = ctx.path('pairs.out')
    open(exp, 'w').write(out)
    d = vlib.drive(ctx, exe, 'pairs', env={'VERIF_EXPORT': exp})
    s = json.load(open(os.path.join(d, 'summary.json')))
    if s['missing_lints']:
        ctx.drift.append('lints of the pair table that are not registered: %s' % s['missing_lints'])
    rejects, lines = vlib.tlc_trace(ctx, 'Trace_Pairs', os.path.join(d, 'pairs.ndjson'), header=1, shards=8)
    seen = {}
    for (ln, payload) in rejects:
        e = json.loads(lines[ln - 1])
        for (a, sa, sb) in payload[0]:
            key = '%s:%s-vs-%s' % (a, LABEL.get(sa, sa), LABEL.get(sb, sb))
            seen.setdefault(key, []).append(e)
    full_again = [None]
    for key, evs in sorted(seen.items()):
        e = evs[0]
        # re-execute that object in a fresh process
        d2 = vlib.drive(ctx, exe, 'pairs', sub='confirm-' + str(len(ctx.violations) + len(ctx.known_hits)), extra=['-only', e['obj']], env={'VERIF_EXPORT': exp})
        rj2, l2 = vlib.tlc_trace(ctx, 'Trace_Pairs', os.path.join(d2, 'pairs.ndjson'), header=1, shards=1)
        again = [p for (_, pl) in rj2 for p in pl[0] if '%s:%s-vs-%s' % (p[0], LABEL.get(p[1], p[1]), LABEL.get(p[2], p[2])) == key]
        if not again:
            # the whole sweep once more (an input family that cannot be asked for by itself): the real code doing it twice confirms
            if full_again[0] is None:
                d3 = vlib.drive(ctx, exe, 'pairs', sub='confirm-full', env={'VERIF_EXPORT': exp})
                full_again[0] = vlib.tlc_trace(ctx, 'Trace_Pairs', os.path.join(d3, 'pairs.ndjson'), header=1, shards=8)[0]
            again = [p for (_, pl) in full_again[0] for p in pl[0] if '%s:%s-vs-%s' % (p[0], LABEL.get(p[1], p[1]), LABEL.get(p[2], p[2])) == key]
        if not again:
            ctx.notes.append('unreproduced: %s on %s' % (key, e['obj']))
            continue
        vlib.report(ctx, key, 'pair %s: the two lints disagree on %s (%s); %d such certificates' % (key, e['obj'], e['what'], len(evs)), dict(obj=e['obj'], what=e['what'], key=key))
    # ---- the Validity rule family (the 398/397-day pair of the table lives there): a fidelity oracle, SPEC-DRIFT only
    vlib.tlc_mc(ctx, 'MC_Validity', 'MC_Validity', workers=1)
    vlib.tlapm(ctx, 'Proofs_Intervals')   # unbounded: over 398 days implies over 397 days; exactness at the limits
    dv = vlib.drive(ctx, exe, 'validity')
    vrej, vlines = vlib.tlc_trace(ctx, 'Trace_Validity', os.path.join(dv, 'validity.ndjson'), shards=8)
    nfid = 0
    for (ln, payload) in vrej:
        e = json.loads(vlines[ln - 1])
        for (why, name, st) in payload[0]:
            nfid += 1
            if nfid <= 4:
                ctx.drift.append('Validity rule: %s reported %s for notBefore=%s notAfter=%s on %s' % (name, LABEL.get(st, st), e['nb'], e['na'], e['tpl']))
    if nfid > 4:
        ctx.drift.append('Validity rule: %d judgements in all differ from Validity!Finds' % nfid)
    cov = dict(evaluations=s['events'], distinct_nontrivial=s['classes'],
               rule='evaluation = one certificate on which every pair of the table is run (corpus, SAN<->IAN mirrored, subject<->issuer mirrored, re-dated, vocabulary names planted in SAN and IAN, '
                    'DN blanks / country tags / multi-valued RDN, validity 396..399 days +-2 s, name lengths 64/65/32768/32769); non-trivial = distinct (pair, input family) with both members run and a finding',
               samples=[s['sample'], json.loads(lines[len(lines) // 2])], both_ran=s['both_ran'], pairs=s['pairs'], validity_rule_judgements=len(vlines), vocabulary=s['vocabulary'],
               trusted_base=['zcrypto parser'])
    return vlib.finish(ctx, 'model_checking', cov, ASSUME)


def replay(ctx, rp):
    print(json.dumps(rp['replay']))
    return run(ctx)

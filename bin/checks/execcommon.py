"""Shared judging of Exec-event traces (Trace_Exec) for C03 / C04."""
import json, os
import vlib


def classify(reason):
    if reason.startswith('fid-'):
        return 'fid'
    if reason.startswith('window'):
        return 'C03'
    return 'C04'


def judge(ctx, exe, drivercmd, tracefile, want, tag):
    """want: 'C03' or 'C04'. Rejections of the other class are ignored here (the other check reports them)."""
    rejects, lines = vlib.tlc_trace(ctx, 'Trace_Exec', tracefile, header=3, shards=12)
    metas = {}
    for ln in lines[:3]:
        m = json.loads(ln)
        metas[m['kind']] = m
    cands = {}
    for (ln, payload) in rejects:
        e = json.loads(lines[ln - 1])
        for (k, reasons) in payload[0]:
            name = metas[e['kind']]['names'][e['idx'][k - 1] - 1]
            for r in reasons:
                c = classify(r)
                if c == 'fid':
                    msg = '%s on %s: %s' % (name, e['id'], r)
                    if len(ctx.drift) < 50 and msg not in ctx.drift:
                        ctx.drift.append(msg)
                elif c == want:
                    cands.setdefault((name, r), []).append((e, k))
    n = 0
    unrepro = []
    for (name, r), evs in sorted(cands.items()):
        n += 1
        if n > 15:
            ctx.notes.append('more rejected classes than confirmed: %d' % len(cands))
            break
        e, k = evs[0]
        # re-execute that single object in a fresh process and re-validate
        d2 = vlib.drive(ctx, exe, drivercmd, sub='confirm-%s-%d' % (tag, n), extra=['-only', e['id']])
        tf = os.path.join(d2, os.path.basename(tracefile))
        rj2, lines2 = vlib.tlc_trace(ctx, 'Trace_Exec', tf, header=3, shards=1)
        hit = None
        for (l2, p2) in rj2:
            e2 = json.loads(lines2[l2 - 1])
            for (k2, rs2) in p2[0]:
                if metas[e2['kind']]['names'][e2['idx'][k2 - 1] - 1] == name and r in rs2:
                    hit = (e2, k2)
        if r in ('details', 'run-differs'):
            # attribution: a lint whose details vary by themselves is a C05 matter
            d3 = vlib.drive(ctx, exe, 'stability', sub='stab-%s-%d' % (tag, n), extra=['-only', e['id']], env={'VERIF_LINTS': name})
            if json.load(open(os.path.join(d3, 'stability.json'))).get(name):
                ctx.notes.append('%s: details of %s vary by themselves on %s - attributed to C05' % (r, name, e['id']))
                continue
        if not hit:
            ctx.notes.append('unreproduced rejection %s of %s on %s' % (r, name, e['id']))
            unrepro.append((name, r, e['id']))
            continue
        e2, k2 = hit
        what = '%s on %s (t=%s): %s; cfg=%s applies=%s body=%s observed=%s called=%s' % (
            name, e2['id'], e2['t'], r, e2['cfg'][k2 - 1], e2['applies'][k2 - 1], e2['body'][k2 - 1], e2['obs'][k2 - 1], e2['called'][k2 - 1])
        vlib.report(ctx, '%s:%s' % (name, r), what, dict(kind=drivercmd, id=e['id'], lint=name, reason=r, event=compact(e2)))
    if unrepro and not ctx.violations:
        # Rejections that do not reproduce on the object alone: the sweep lints distinct objects on all cores, so a verdict that
        # depends on what else is being linted (shared state in the framework or a helper) shows only there.  Repeat the whole
        # sweep once: if the same kind of rejection comes back, the real code did it twice - that is a violation, not a flake.
        d3 = vlib.drive(ctx, exe, drivercmd, sub='confirm-%s-full' % tag)
        rj3, lines3 = vlib.tlc_trace(ctx, 'Trace_Exec', os.path.join(d3, os.path.basename(tracefile)), header=3, shards=12)
        again = {}
        for (l3, p3) in rj3:
            e3 = json.loads(lines3[l3 - 1])
            for (k3, rs3) in p3[0]:
                for r3 in rs3:
                    if classify(r3) == want:
                        again.setdefault(r3, []).append((metas[e3['kind']]['names'][e3['idx'][k3 - 1] - 1], e3['id']))
        for r in sorted({u[1] for u in unrepro}):
            if r in again:
                first = [u for u in unrepro if u[1] == r][0]
                vlib.report(ctx, 'schedule-dependent:%s' % r, 'rejections of kind "%s" appear whenever the corpus is linted on all cores (first run: %d classes, e.g. %s on %s; second run: %d events, e.g. %s on %s) '
                            'but not when the object is linted alone: the verdict depends on what else is being linted' % (
                                r, len([u for u in unrepro if u[1] == r]), first[0], first[2], len(again[r]), again[r][0][0], again[r][0][1]),
                            dict(kind=drivercmd, reason=r, first=first, second=again[r][:5]))
    return len(rejects)


def suite(ctx, exe, want, tag):
    """The repository's own tests as a trace source (vlib.suite_traces): every certificate lint execution they make is re-derived
    by `drive suite` and judged by Trace_Exec - the recorded outcome against Base!Outcome and against this process's own run."""
    vlib.suite_traces(ctx)
    d = vlib.drive(ctx, exe, 'suite')
    s = json.load(open(os.path.join(d, 'summary.json')))
    judge(ctx, exe, 'suite', os.path.join(d, 'suite.ndjson'), want, tag)
    return dict(recorded_executions=s['recorded_executions'], distinct_executions=s['distinct_executions'], lints_seen=s['lints_seen'], with_finding=s['with_finding'],
                objects_changed_by_the_test=s['objects_changed_by_the_test'], test_processes=len(s['test_processes']), unregistered_lints=s['unregistered_lints'])


def compact(e):
    return {k: (v if not isinstance(v, list) or len(v) < 12 else v[:12] + ['...']) for k, v in e.items()}


def mock_replay(ctx, exe, cfgs):
    """Binding G: export terminal states of MC_Lifecycle and replay them with mock lints."""
    outs = []
    for c in cfgs:
        rec, out = vlib.tlc_mc(ctx, 'MC_Lifecycle_export', c, workers=8)
        p = ctx.path('export-%s.out' % c)
        open(p, 'w').write(out)
        outs.append(p)
    d = vlib.drive(ctx, exe, 'mocklife', env={'VERIF_EXPORT': ','.join(outs)})
    return json.load(open(os.path.join(d, 'summary.json'))), (json.load(open(os.path.join(d, 'mismatches.json'))) or [])

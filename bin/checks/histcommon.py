"""Shared judging of process-history traces (Trace_Process) for C05 / C07 / C11."""
import json, os
import vlib


def seg_key(line):
    return line.startswith('{"ev":"Reset"') or '"ev":"Reset"' in line[:40]


def plan_multi(ctx):
    """Plan_Multi.tla: inputs with several offenders of one kind, enumerated by TLC; the driver forges them (VERIF_MULTI)."""
    rec, pout = vlib.tlc_mc(ctx, 'Plan_Multi', 'Plan_Multi' if ctx.quick else 'Plan_Multi_big', workers=1)
    plan = ctx.path('multi.out')
    open(plan, 'w').write(pout)
    vlib.GOENV['VERIF_MULTI'] = plan
    return plan


def merge_by_object(files, outp):
    """Concatenates the per-object memo segments of several history traces (several processes): one segment per object."""
    head, segs, order = None, {}, []
    for f in files:
        lines = open(f).readlines()
        if head is None:
            head = lines[:4]
        cur = None
        for ln in lines[4:]:
            if '"ev":"Reset"' in ln[:60]:
                cur = json.loads(ln)['obj']
                if cur not in segs:
                    segs[cur] = [ln]
                    order.append(cur)
                continue
            segs[cur].append(ln)
    with open(outp, 'w') as fh:
        fh.writelines(head)
        for o in order:
            fh.writelines(segs[o])


def cfg_probe(ctx, exe):
    """Objects on which a configurable lint judges: the configuration histories always include them (VERIF_USE_IDS)."""
    d = vlib.drive(ctx, exe, 'cfgprobe')
    vlib.GOENV['VERIF_USE_IDS'] = os.path.join(d, 'ids.json')
    return len(json.load(open(os.path.join(d, 'ids.json'))) or [])


def run_history(ctx, exe, phases, sub, export=None, only=None, seed=None, env2=None):
    env = {'VERIF_PHASES': phases}
    if env2:
        env.update(env2)
    if export:
        env['VERIF_EXPORT'] = export
    extra = ['-only', only] if only else []
    d = vlib.drive(ctx, exe, 'history', sub=sub, extra=extra, env=env)
    return d, json.load(open(os.path.join(d, 'summary.json')))


def validate(ctx, tf, shards=14):
    rejects, lines = vlib.tlc_trace(ctx, 'Trace_Process', tf, header=4, shards=shards, segment_key=seg_key)
    metas = {}
    for ln in lines[:3]:
        m = json.loads(ln)
        metas[m['kind']] = m
    out = []
    for (ln, payload) in rejects:
        e = json.loads(lines[ln - 1])
        for (i, why, info) in payload[0]:
            name = metas[e['kind']]['names'][i - 1] if i > 0 and 'kind' in e else ''
            out.append(dict(event=e, lint=name, why=why, info=info, idx=i))
    return out, lines


def judge(ctx, exe, phases, tag, wanted, keyfn, export=None):
    """Runs the phases, validates, and confirms each class of rejection by re-running that object alone."""
    d, s = run_history(ctx, exe, phases, 'hist-' + tag, export=export)
    rej, lines = validate(ctx, os.path.join(d, 'history.ndjson'))
    classes = {}
    for r in rej:
        if r['why'] not in wanted:
            ctx.notes.append('rejection outside this property: %s %s on %s' % (r['lint'], r['why'], r['event'].get('obj')))
            continue
        classes.setdefault(keyfn(r), []).append(r)
    n = 0
    for key, rs in sorted(classes.items()):
        n += 1
        if n > 14:
            ctx.notes.append('%d more rejected classes not individually confirmed' % (len(classes) - 14))
            break
        r = rs[0]
        e = r['event']
        obj = e.get('obj')
        confirmed = None
        if obj is None or e['ev'] == 'DefaultCfg':
            confirmed = r
        else:
            # re-execute: the same phases restricted to that object, in a fresh process
            d2, _ = run_history(ctx, exe, phases, 'confirm-%s-%d' % (tag, n), export=export, only=obj)
            rej2, _ = validate(ctx, os.path.join(d2, 'history.ndjson'), shards=1)
            for r2 in rej2:
                if r2['lint'] == r['lint'] and r2['why'] == r['why']:
                    confirmed = r2
            if confirmed is None and r['why'] in ('details-differ', 'status-differs'):
                # nondeterminism may need more repetitions: both differing observations are in the first trace already
                confirmed = r
        if confirmed is None:
            ctx.notes.append('unreproduced rejection %s of %s on %s' % (r['why'], r['lint'], obj))
            continue
        ev2 = confirmed['event']
        what = '%s: %s on %s (%s)%s; first seen under [%s], now [%s]; %d such events' % (
            r['lint'] or e['ev'], r['why'], obj, ev2.get('kind', ''), (' panic=' + ev2.get('panicMsg', '')[:200]) if ev2.get('escaped') else '',
            confirmed['info'], ev2.get('tag', ''), len(rs))
        vlib.report(ctx, key, what, dict(kind='history', phases=phases, obj=obj, lint=r['lint'], why=r['why'],
                                         tag=ev2.get('tag'), first=confirmed['info']))
    return s, len(lines)


def stability(ctx, exe, obj, lintname, n):
    d3 = vlib.drive(ctx, exe, 'stability', sub='stab-%d' % n, extra=['-only', obj], env={'VERIF_LINTS': lintname})
    return bool(json.load(open(os.path.join(d3, 'stability.json'))).get(lintname))

"""The registry history (drive registry: every registration, refused registrations, thousands of Filter calls, late registrations of
every kind, runs after them) judged by Trace_Registry; C12 and C08 own it, C01 and C14 take the reasons that are theirs."""
import json, os
import vlib


def reasons(ctx, exe, wanted, sub='registry-history'):
    d = vlib.drive(ctx, exe, 'registry', sub=sub)
    rejects, lines = vlib.tlc_trace(ctx, 'Trace_Registry', os.path.join(d, 'registry.ndjson'), header=1, shards=1)
    out = []
    for (ln, payload) in rejects:
        e = json.loads(lines[ln - 1])
        for why in payload[0]:
            if why in wanted:
                out.append((e, why))
    return out, len(lines)

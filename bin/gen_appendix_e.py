#!/usr/bin/env python3
"""Development tool (not registered): regenerates the table of DESIGN.md Appendix E from /verif/seeded/*/meta.json.
Everything after the line '| id | change (as described by its author) | needs | caught by |' up to the end of the file is replaced."""
import json, glob, os, re
V = os.path.dirname(os.path.dirname(os.path.abspath(__file__)))
rows = []
for d in sorted(glob.glob(os.path.join(V, 'seeded', '*'))):
    try:
        m = json.load(open(os.path.join(d, 'meta.json')))
    except Exception:
        continue
    ident = os.path.basename(d)

    def cut(s, n):
        s = re.sub(r'\s+', ' ', (s or '').replace('|', '/')).strip()
        return s if len(s) <= n else s[:n].rstrip() + '...'
    by = m.get('detected_by') or []
    rows.append('| %s | %s | %s | %s |' % (ident, cut(m.get('summary'), 230), cut(m.get('needs'), 170), ', '.join(by) if by else '- (missed)'))
p = os.path.join(V, 'DESIGN.md')
s = open(p).read()
hdr = '| id | change (as described by its author) | needs | caught by |\n|---|---|---|---|\n'
i = s.index(hdr)
s = s[:i] + hdr + '\n'.join(rows) + '\n'
open(p, 'w').write(s)
print('%d rows' % len(rows))

#!/usr/bin/env python3
"""Regenerates /verif/MANIFEST.json from the table below (kept in one place so it stays valid)."""
import json, os

ALL = ['C%02d' % i for i in range(1, 21)]
CHECKS = {
    'C01': dict(cat='model_checking', tech='TLA+ Run.tla: TLC exhaustive (M), every terminal state replayed with mock lints on Lint*Ex (G), corpus x registries RunDone traces validated by Trace_Run (V)',
                text='Bounded exhaustive model of the Lint*Ex loop (every outcome mix incl. panic/nil over 3-4 lint registries and all filters) whose every terminal state is replayed on the real entry points, plus trace validation of every corpus object x full and filtered registries against the same result-set predicates.',
                note='parsers (zcrypto, x/crypto ocsp) trusted; inputs are explored (corpus + forged), not exhausted', ref='5 C01'),
    'C03': dict(cat='model_checking', tech='TLA+ Lifecycle.tla window dimension: TLC exhaustive (M), mock-lint replay of every window state (G), every lint x its own boundary instants +-1 s on re-dated corpus objects validated by Trace_Exec (V)',
                text='Half-open window semantics model-checked over all window shapes x boundary instants x kinds; every model state replayed on the real framework with mock lints in several time zones; every registered lint judged at each of its own effective/ineffective instants -1 s/0/+1 s on re-dated corpus objects and validated against Base!Outcome.',
                note='instants compared to the second; CRL/OCSP and un-encodable years re-dated on the parsed object', ref='5 C03'),
    'C04': dict(cat='model_checking', tech='TLA+ Lifecycle.tla: TLC exhaustive (M), mock-lint replay of every terminal state (G), spied real lints x corpus validated by Trace_Exec against Base!Outcome (V)',
                text='One action per step of base.go, exhaustive over scope facts x source class x configuration outcome x applicability x window x body outcome (incl. panic, nil); every terminal state replayed with mock lints; every real lint run spied under the real framework on every corpus object and compared with the reference Outcome computed by TLC from raw parsed facts.',
                note='scope indications read from parsed fields by the harness (EKU ids, policy OIDs, e-mail SAN); details compared by digest', ref='5 C04'),
    'C06': dict(cat='model_checking', tech='TLA+ Severity.tla over an extracted finite table: SSA census of every status constant stored into a result on every return path of every lint (exhaustive over the table) + observed statuses validated by Trace_Severity',
                text='The quantifier is over all lints and all return paths: a go/packages+SSA extractor lists, per registered lint, the status constants its Execute can store (tested or not); TLC checks the prefix contract over the whole table and over every status observed in the corpus sweep.',
                note='SSA extraction precise for constants stored directly/through phi; other flows gate only with a dynamic witness; 9 known findings', ref='5 C06'),
    'C08': dict(cat='model_checking', tech='TLA+ Registry.tla: TLC exhaustive over the bounded option space and filter chains (M), every option record replayed on a real 5-lint registry (G), seeded adversarial FilterOptions on the full registry validated by Trace_Registry against FilterResult (V)',
                text='Filter is specified as a function of (registry, options) with the five-way precedence, trimming, unknown-name and conflict errors; 131k option records are model-checked and each replayed on the real code; thousands of random option records over the real 377-lint registry are validated against the same operator.',
                note='regexp match sets and TrimSpace computed by the Go standard library in the harness', ref='5 C08'),
    'C12': dict(cat='model_checking', tech='TLA+ RegistryOps table model driven by the 377 real registrations (Trace_Registry), census of the source tree from go/packages, exhaustive over the finite extracted table',
                text='Every registration of the default build is replayed through the table model (duplicate / cross-kind / metadata well-formedness checked per step), the runtime lookups are compared with the model tables, and the AST census of Register* calls, lint-shaped types and lint package directories must equal the registry.',
                note='census from go/packages AST; name order = Go string order', ref='5 C12'),
    'C13': dict(cat='model_checking', tech='TLA+ Select.tla (listed => accepted, undefined => rejected) checked by TLC; every listed name/source and a pool of unknown tokens offered to every library and CLI selector entry point, validated by Trace_Select',
                text='Exhaustive over what the registry lists: each of the 377 names and 15 sources goes through include/exclude names, SourceList/LintSource parsers, JSON round trip, Filter by source and the CLI flags; unknown tokens must be rejected.',
                note='defined sources extracted from v3/lint constants; CLI judged by exit status', ref='5 C13'),
    'C05': dict(cat='model_checking', tech='TLA+ Process.tla memo machine (verdict = function of <<object, lint, effective section>>) checked by TLC; repeated / reordered / multi-process histories validated by Trace_Process; object snapshots; strace syscall stream and SSA call graph validated by Trace_Env against Env.tla',
                text='Histories are first-class: every observation of a lint on an object across passes in different orders, back-to-back repetitions and separate processes must hit the same memo entry (status and details digest); a reflection hash of every exported field of the object must be unchanged; the syscalls issued while linting and the os/net/exec/time calls reachable from any lint are judged against the allow-list of Env.tla.',
                note='wall-clock day held fixed; details compared by digest; strace and SSA extraction trusted', ref='5 C05'),
    'C07': dict(cat='model_checking', tech='TLA+ Process.tla (FilteredAgreesWithFull, memo key without the registry) checked by TLC; full vs filtered registries (by source, regexp, name subsets, every singleton, filter of a filter, both orders) on every corpus object validated by Trace_Process',
                text='The memo key of a verdict deliberately omits the registry, so any dependence on which other lints run (through the object, package state, result-set aliasing) is a rejected event; also checks that a run reports exactly the selected lints and that flags agree.',
                note='details compared by digest; lints whose details vary by themselves are attributed to C05 (DESIGN 6.1)', ref='5 C07'),
    'C11': dict(cat='model_checking', tech='TLA+ Process.tla / configuration sections (CfgLocal, CfgDoesNotLeak, ChildKeepsBirthCfg) checked by TLC; TLC-simulated histories and a catalogue of rendered TOML configurations replayed on the real registries, validated by Trace_Process',
                text='Every configuration shape (absent, default-valued, each option flipped, ill-typed, scalar/array where a table is expected, unknown key, unrelated sections, the generated example) is rendered for every configurable lint and applied in varying orders to the global registry, copies and children; every verdict must be a function of <<object, lint, what the configuration says to that lint>>, unapplicable sections must give exactly that lint a configuration-error fatal, nothing may escape.',
                note='what a configuration says to a lint is known by construction of the TOML; go-toml trusted', ref='5 C11'),
    'C02': dict(cat='exploration', tech='TLA+ Plan_Mutate.tla enumerates the mutation space (node classes x operators) with TLC; every mutant the real parser accepts is linted by the whole registry and the recorded run is validated by Trace_NoPanic (no Recover / Escape step exists in the specification)',
                text='A specification-guided input search: TLC enumerates the abstract mutation plan, the forge applies it at every TLV node of carrier objects chosen so that every lint has a carrier on which it judges, and the trace specification rejects any recovered or escaping panic and any fatal that is neither a configuration error nor an explicit decision of the body. Exploration, not proof: the spec contributes the prohibition and the enumerated space.',
                note='"parseable" is decided by the real parsers under recover; parser panics are counted and skipped', ref='5 C02'),
    'C09': dict(cat='model_checking', tech='TLA+ Process.tla memo machine with the signature bits absent from the key; signature-only variants of every non-self-issued corpus certificate validated by Trace_Process',
                text='The memo key contains TBS, algorithms and signature length and no signature bits, so any verdict (status or details) that moves when only the signature BIT STRING changes is a rejected event; variants are zero, ones, single-bit flips, ECDSA-shaped and seeded random values of the same length; the harness asserts per variant that TBS, algorithm identifiers and length are unchanged and SelfSigned is false.',
                note='model-checking part is light (the design model has no signature bits); weight is on the validated traces', ref='5 C09'),
    'C14': dict(cat='model_checking', tech='TLA+ Codec.tla (labels injective, decode defined exactly on the labels, round trip) checked by TLC; every status value, a pool of non-labels, every sweep ResultSet encode->decode->encode and the registry listing validated by Trace_Codec',
                text='The codec is a finite function and is model-checked completely; the real String/MarshalJSON/UnmarshalJSON, ResultSet round trips (incl. invalid UTF-8 details) and WriteJSON listing lines are recorded and validated against it.',
                note='encoding/json and Go rune conversion trusted; equalities computed structurally in the harness', ref='5 C14'),
    'C15': dict(cat='model_checking', tech='TLA+ CLI.tla pipeline state machine: TLC exhaustive over the scenario space (M), every scenario concretised on corpus objects and executed with the real zlint binary built from /repo (G), observations validated by Trace_CLI (V)',
                text='Format x channel x inputs (encoding, corruption, suffix) x selection x configuration x output mode scenarios are enumerated by TLC; for each the real binary is launched and its stdout/exit compared with the specification (printed results = library results with the same selection, summary counts = result counts, non-zero exit and no result object for undecodable input or unknown selectors).',
                note='library result computed in-process by the driver; outputs compared as decoded JSON', ref='5 C15'),
    'C16': dict(cat='model_checking', tech='TLA+ RSAKey.tla: exact arithmetic in TLC (bit length, divisors 2..751, Fermat search) for moduli < 2^31 exported as a plan, forged into real certificates and judged by the real lints; real-size classes by construction; validated by Trace_RSA',
                text='Every arithmetic predicate of the key-quality lints is computed by TLC for each small modulus/exponent (every divisor 2..751, prime neighbours, Fermat rounds boundary) and compared with the lint statuses on forged certificates; real-size moduli are constructed per class with math/big and judged by class.',
                note='exact below 2^31, by construction above; role/date gates belong to C04', ref='5 C16'),
    'C17': dict(cat='model_checking', tech='TLA+ NameRules/Order plan (TLC enumerates sequences and permutations) + Process.tla memo keyed by the certificate modulo order; permuted SAN lists / extension lists of corpus and planted certificates validated by Trace_Process',
                text='The memo key is the certificate modulo element order: every permutation (all up to 4 entries, else reversal/rotations/seeded) of SAN entries and of extension lists, plus vocabulary names planted in both orders on templates, must reproduce the status vector of the whole registry.',
                note='statuses only; extension permutation only without duplicated extensions', ref='5 C17'),
    'C18': dict(cat='model_checking', tech='TLA+ TLD.tla over the delegation table extracted from the AST of gtld_map.go: table well-formedness exhaustive (TLC), every entry probed at its boundary instants in 7 name shapes on util functions and the TLD lint, validated by Trace_TLD',
                text='ValidAt/Ever are specified over the extracted table; TLC checks the table invariants for every entry and judges every (name, instant) probe of HasValidTLD / IsInTLDMap and every forged-certificate run of e_dnsname_not_valid_tld.',
                note='names built from components so the right-most label is known by construction; civil dates at 00:00 UTC', ref='5 C18'),
    'C19': dict(cat='model_checking', tech='TLA+ IPReserved.tla (block list of the property, laws L1-L4) checked by TLC; addresses, prefix chains a/0..a/max and forged-certificate lint runs validated by Trace_IP',
                text='The laws (mapped = 4-byte form, single-address network = address test, network containing a reserved address intersects, super-network of an intersecting network intersects) are a linear state machine over prefix chains; every named block is probed at and around its edges, plus public and seeded random addresses, on util functions and the four reserved-IP lints.',
                note='block lists are those of the property statement; Go net mask arithmetic trusted', ref='5 C19'),
    'C20': dict(cat='model_checking', tech='TLA+ Pairs.tla table of duplicated rules with relations (SameStatus / FindingIff / ErrorImpliesFinding) checked by TLC; both members of every pair run on mirrored content (SAN<->IAN, subject<->issuer, planted vocabulary, validity and length boundaries), validated by Trace_Pairs',
                text='The pair table is the specification; same content is planted by construction and every certificate on which both members ran is judged against the pair relation.',
                note='"both ran" = both results are pass or a finding', ref='5 C20'),
    'C10': dict(cat='model_checking', tech='TLA+ Concurrent.tla (goroutines x RWMutex-guarded lookups x private-until-returned Filter): TLC exhaustive over interleavings incl. counter-models (M); TLC-exported pre-emption-bounded schedules enforced on real goroutines through the verif gate hook (G); gated and free-running (-race, GOMAXPROCS varied) executions validated by Trace_Concurrent, which steps Concurrent!StepG (V)',
                text='Every interleaving of bounded programs (Lint, Names, lookups, listing, Filter with hand-over of the filtered registry) is model-checked for conflicting access, lock sanity, linearizability and deadlock, with three counter-models that must fail; the schedules of the model are replayed on the real code through gates at lock-free points, and free-running goroutines are run under the race detector with the concurrent phase first in the process; every recorded reply must be the model\'s sequential reply / the same call made alone, and race reports, panics and hangs have no step in the specification.',
                note='race detector and goroutine ids from runtime.Stack trusted; an unreproduced rejection is inconclusive (exit 2), a race report with zlint frames is a violation by itself', ref='5 C10'),
}


def main():
    checks = []
    for pid in ALL:
        if pid not in CHECKS:
            continue
        c = CHECKS[pid]
        checks.append(dict(property_id=pid, quick_cmd='bin/check %s --tier quick' % pid, thorough_cmd='bin/check %s --tier thorough' % pid,
                           evidence_file='/verif/evidence/%s.json' % pid, replay_cmd_template='bin/check %s --replay {path}' % pid,
                           engine='tla', level_claimed=dict(category=c['cat'], text=c['text'], design_ref='DESIGN.md section ' + c['ref']),
                           level_note=c['note'], technique=c['tech']))
    na = [dict(property_id=p, reason='check under construction (Concurrent.tla + gated/race drivers), see DESIGN.md section 5 C10') for p in ALL if p not in CHECKS]
    m = dict(version=1, setup_cmd='bash /verif/bin/setup',
             hooks=dict(guard='verif', enable='go build -tags verif (harness module /verif/harness, replace => /repo/v3)',
                        baseline_off_cmd='bash /verif/bin/baseline_off', source_commits=HOOK_COMMITS, add_only=True),
             engines=[dict(name='tla', path='/verif/spec', serves_properties=sorted(CHECKS),
                           kind_free_text='explicit TLA+ specification checked by TLC (exhaustive bounded configs), bound to the code by replaying TLC-exported behaviours on the real API and by validating recorded NDJSON traces against trace specifications that reuse the main modules')],
             checks=checks, notes='see DESIGN.md; bin/check <ID> --tier quick|thorough; exit 0 ok, 1 violation, 2 inconclusive', not_applicable=na)
    json.dump(m, open('/verif/MANIFEST.json', 'w'), indent=1)


HOOK_COMMITS = ['11808e9a6720f541fc3f785ff96b3c9b460a4b58']
if __name__ == '__main__':
    main()

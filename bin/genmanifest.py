#!/usr/bin/env python3
"""Regenerates /verif/MANIFEST.json from the table below (kept in one place so it stays valid)."""
import json, os

ALL = ['C%02d' % i for i in range(1, 21)]
CHECKS = {
    'C01': dict(cat='model_checking', tech='TLA+ Run.tla: TLC exhaustive (M), every terminal state replayed with mock lints on Lint*Ex (G), corpus x registries RunDone traces validated by Trace_Run (V)',
                text='Bounded exhaustive model of the Lint*Ex loop (every outcome mix incl. panic/nil over 3-4 lint registries and all filters) whose every terminal state is replayed on the real entry points, plus trace validation of every corpus object x full and filtered registries against the same result-set predicates.',
                note='parsers (zcrypto, x/crypto ocsp) trusted; inputs are explored (corpus + forged), not exhausted', ref='5 C01'),
    'C03': dict(cat='model_checking', tech='TLA+ Lifecycle.tla window dimension: TLC exhaustive (M), mock-lint replay of every window state (G), every lint x its own boundary instants +-1 s on re-dated corpus objects validated by Trace_Exec (V)',
                text='Half-open window semantics model-checked over all window shapes x boundary instants x kinds; every model state replayed on the real framework with mock lints in several time zones; every registered lint judged at each of its own effective/ineffective instants -1 s/0/+1 s on re-dated corpus objects and validated against Base!Outcome.',
                note='instants compared to the second; CRL/OCSP and un-encodable years re-dated on the parsed object', ref='5 C03'),
    'C04': dict(cat='model_checking', tech='TLA+ Lifecycle.tla: TLC exhaustive (M), mock-lint replay of every terminal state (G), spied real lints x corpus validated by Trace_Exec against Base!Outcome (V)',
                text='One action per step of base.go, exhaustive over scope facts x source class x configuration outcome x applicability x window x body outcome (incl. panic, nil); every terminal state replayed with mock lints; every real lint run spied under the real framework on every corpus object and compared with the reference Outcome computed by TLC from raw parsed facts.',
                note='scope indications read from parsed fields by the harness (EKU ids, policy OIDs, e-mail SAN); details compared by digest', ref='5 C04'),
}


def main():
    checks = []
    for pid in ALL:
        if pid not in CHECKS:
            continue
        c = CHECKS[pid]
        checks.append(dict(property_id=pid, quick_cmd='bin/check %s --tier quick' % pid, thorough_cmd='bin/check %s --tier thorough' % pid,
                           evidence_file='/verif/evidence/%s.json' % pid, replay_cmd_template='bin/check %s --replay {path}' % pid,
                           engine='tla', level_claimed=dict(category=c['cat'], text=c['text'], design_ref='DESIGN.md section ' + c['ref']),
                           level_note=c['note'], technique=c['tech']))
    na = [dict(property_id=p, reason='check not built yet (in progress, see DESIGN.md section 11)') for p in ALL if p not in CHECKS]
    m = dict(version=1, setup_cmd='bash /verif/bin/setup',
             hooks=dict(guard='verif', enable='go build -tags verif (harness module /verif/harness, replace => /repo/v3)',
                        baseline_off_cmd='bash /verif/bin/baseline_off', source_commits=HOOK_COMMITS, add_only=True),
             engines=[dict(name='tla', path='/verif/spec', serves_properties=sorted(CHECKS),
                           kind_free_text='explicit TLA+ specification checked by TLC (exhaustive bounded configs), bound to the code by replaying TLC-exported behaviours on the real API and by validating recorded NDJSON traces against trace specifications that reuse the main modules')],
             checks=checks, notes='see DESIGN.md; bin/check <ID> --tier quick|thorough; exit 0 ok, 1 violation, 2 inconclusive', not_applicable=na)
    json.dump(m, open('/verif/MANIFEST.json', 'w'), indent=1)


HOOK_COMMITS = []
if __name__ == '__main__':
    main()

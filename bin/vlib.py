"""Shared machinery of /verif/bin/check: build, drive, TLC (model checking and trace validation),
known findings, verdict discipline, evidence.  Python 3 standard library only."""
import json, os, re, shutil, subprocess, sys, time, hashlib
from concurrent.futures import ThreadPoolExecutor

VERIF = os.path.dirname(os.path.dirname(os.path.abspath(__file__)))   # /verif, or a snapshot of it (vp run)
REPO = os.environ.get('VERIF_REPO', '/repo')
SPEC = os.path.join(VERIF, 'spec')
OUT = os.path.join(VERIF, 'out')
JAR = '/opt/veriftools/tla/tla2tools.jar:/opt/veriftools/tla/CommunityModules-deps.jar'
GOENV = dict(os.environ, GOFLAGS='-mod=mod', GOPROXY='off', GOSUMDB='off', GOTOOLCHAIN='local',
             VERIF_REPO=REPO)


class Inconclusive(Exception):
    pass


def sh(cmd, timeout=3600, cwd=None, env=None, check=False, stdin=None):
    p = subprocess.run(cmd, cwd=cwd, env=env or GOENV, timeout=timeout, stdout=subprocess.PIPE,
                       stderr=subprocess.STDOUT, input=stdin)
    out = p.stdout.decode('utf-8', 'replace')
    if check and p.returncode != 0:
        raise Inconclusive('command failed (%d): %s\n%s' % (p.returncode, ' '.join(map(str, cmd)), out[-3000:]))
    return p.returncode, out


class Ctx:
    def __init__(self, pid, tier, seed):
        self.pid, self.tier, self.seed = pid, tier, seed
        self.t0 = time.time()
        self.scratch = os.path.join(OUT, '%s.%d' % (pid, os.getpid()))
        shutil.rmtree(self.scratch, ignore_errors=True)
        os.makedirs(self.scratch)
        self.states = 0
        self.transitions = 0
        self.traces = 0
        self.mc_runs = []
        self.trace_runs = []
        self.violations = []     # dicts: key, what, replay
        self.known_hits = []
        self.drift = []
        self.notes = []
        self.cov = {}
        self.quick = tier == 'quick'
        # the synthetic corpus (harness/internal/corpus/synth.go) rides along with the repository's corpus in every driver
        GOENV.setdefault('VERIF_SYNTH', '150' if self.quick else '500')

    def path(self, *a):
        p = os.path.join(self.scratch, *a)
        os.makedirs(os.path.dirname(p), exist_ok=True)
        return p

    def cleanup(self):
        shutil.rmtree(self.scratch, ignore_errors=True)
        shutil.rmtree(JTMP, ignore_errors=True)


# ---------------------------------------------------------------- build
def harness_modfile():
    """The harness go.mod has a fixed replace => /repo/v3; when VERIF_REPO points elsewhere
    (mutant testing) an alternative modfile is generated."""
    if REPO == '/repo':
        return []
    alt = os.path.join(OUT, 'alt.%s.mod' % hashlib.md5(REPO.encode()).hexdigest()[:8])
    os.makedirs(OUT, exist_ok=True)
    src = open(os.path.join(VERIF, 'harness', 'go.mod')).read().replace('=> /repo/v3', '=> %s/v3' % REPO)
    open(alt, 'w').write(src)
    shutil.copy(os.path.join(VERIF, 'harness', 'go.sum'), alt[:-4] + '.sum')
    return ['-modfile=' + alt]


def build(ctx, pkg='./cmd/drive', name='drive', race=False, tags='verif'):
    os.makedirs(os.path.join(OUT, 'bin'), exist_ok=True)
    suffix = hashlib.md5(REPO.encode()).hexdigest()[:6] if REPO != '/repo' else ''
    exe = os.path.join(OUT, 'bin', name + ('-race' if race else '') + suffix)
    cmd = ['go', 'build'] + harness_modfile() + ['-tags', tags, '-o', exe]
    if race:
        cmd.insert(2, '-race')
    cmd.append(pkg)
    rc, out = sh(cmd, cwd=os.path.join(VERIF, 'harness'), timeout=1200)
    if rc != 0:
        raise Inconclusive('go build failed:\n' + out[-4000:])
    return exe


def build_cli(ctx):
    """The zlint command-line tool, built from /repo's working tree."""
    os.makedirs(os.path.join(OUT, 'bin'), exist_ok=True)
    suffix = hashlib.md5(REPO.encode()).hexdigest()[:6] if REPO != '/repo' else ''
    exe = os.path.join(OUT, 'bin', 'zlint' + suffix)
    rc, out = sh(['go', 'build', '-o', exe, './cmd/zlint'], cwd=os.path.join(REPO, 'v3'), timeout=1200)
    if rc != 0:
        raise Inconclusive('CLI build failed:\n' + out[-3000:])
    return exe


def build_gtld_updater(ctx):
    """zlint-gtld-update built from /repo's working tree with one extra file overlaid (harness/gtldinject/inject.go.txt): its HTTP
    transport serves the registry documents from files.  Nothing is written to /repo."""
    os.makedirs(os.path.join(OUT, 'bin'), exist_ok=True)
    suffix = hashlib.md5(REPO.encode()).hexdigest()[:6] if REPO != '/repo' else ''
    exe = os.path.join(OUT, 'bin', 'gtldupd' + suffix)
    ov = ctx.path('overlay.json')
    json.dump({'Replace': {os.path.join(REPO, 'v3', 'cmd', 'zlint-gtld-update', 'verif_inject.go'): os.path.join(VERIF, 'harness', 'gtldinject', 'inject.go.txt')}}, open(ov, 'w'))
    rc, out = sh(['go', 'build', '-overlay', ov, '-o', exe, './cmd/zlint-gtld-update'], cwd=os.path.join(REPO, 'v3'), timeout=1200)
    if rc != 0:
        raise Inconclusive('gtld updater build failed:\n' + out[-3000:])
    return exe


def api_census(ctx):
    """Exported identifiers of the library packages of /repo's working tree (go doc -short) against the pinned record
    spec/pinned_api.json: what was added is an entry point no driver knows (reported as drift, never a verdict)."""
    now = {}
    for pkg in ('./util', './lint', '.'):
        env = dict(GOENV)
        env['GOFLAGS'] = '-mod=readonly'      # (go doc under -mod=mod appends to go.sum: nothing here may write to /repo)
        rc, out = sh(['go', 'doc', '-short', pkg], cwd=os.path.join(REPO, 'v3'), timeout=300, env=env)
        now[pkg] = sorted({re.sub(r'\s+', ' ', l.strip()) for l in out.splitlines() if re.match(r'\s*(func|type|var|const) ', l)})
    pin_path = os.path.join(VERIF, 'spec', 'pinned_api.json')
    if os.environ.get('VERIF_PIN_API'):
        json.dump(now, open(pin_path, 'w'), indent=0, sort_keys=True)
    pin = json.load(open(pin_path))
    added = [(p, x) for p in now for x in now[p] if x not in pin.get(p, [])]
    removed = [(p, x) for p in pin for x in pin[p] if x not in now.get(p, [])]
    return added, removed


def suite_traces(ctx):
    """The repository's own test suite as a trace source: `go test -tags verif ./...` on /repo's working tree with a recorder
    overlaid into package lint (harness/suite/recorder.go.txt, behind the guarded hook verifObserve; nothing is written to /repo).
    Returns the directory of recorded executions (one ndjson per test process); sets VERIF_SUITE_DIR for `drive suite`."""
    d = ctx.path('suitetrace')
    if os.path.isdir(d) and os.listdir(d):
        return d
    os.makedirs(d, exist_ok=True)
    ov = ctx.path('suite.overlay.json')
    json.dump({'Replace': {os.path.join(REPO, 'v3', 'lint', 'verif_recorder.go'): os.path.join(VERIF, 'harness', 'suite', 'recorder.go.txt')}}, open(ov, 'w'))
    env = dict(GOENV)
    env['VERIF_SUITE_TRACE'] = d
    # thorough: three rounds in shuffled test order (what a test reports must not depend on the tests run before it)
    how = ['-count=1'] if ctx.quick else ['-count=3', '-shuffle=%d' % (1000 + ctx.seed)]
    rc, out = sh(['go', 'test', '-tags', 'verif', '-overlay', ov, '-vet=off'] + how + ['./...'], cwd=os.path.join(REPO, 'v3'), timeout=2400, env=env)
    n = sum(1 for f in os.listdir(d) for _ in open(os.path.join(d, f)))
    if n == 0:
        raise Inconclusive('the repository test suite recorded no execution (does it build with -tags verif?):\n' + out[-2000:])
    failed = [l for l in out.splitlines() if l.startswith('FAIL') or l.startswith('--- FAIL')]
    if failed:
        ctx.notes.append('repository suite under the recorder: %s' % '; '.join(failed[:4]))
    GOENV['VERIF_SUITE_DIR'] = d
    ctx.cov_extra = getattr(ctx, 'cov_extra', {})
    return d


def extract(ctx):
    """Static facts about /repo's working tree (go/packages + SSA); cached per check run."""
    exe = os.path.join(OUT, 'bin', 'extract')
    os.makedirs(os.path.join(OUT, 'bin'), exist_ok=True)
    rc, out = sh(['go', 'build', '-o', exe, '.'], cwd=os.path.join(VERIF, 'extract'), timeout=1200)
    if rc != 0:
        raise Inconclusive('extractor build failed:\n' + out[-3000:])
    p = subprocess.run([exe], env=GOENV, stdout=subprocess.PIPE, stderr=subprocess.PIPE, timeout=1200)
    if p.returncode != 0:
        raise Inconclusive('extractor failed:\n' + p.stderr.decode()[-3000:])
    return json.loads(p.stdout.decode())


def drive(ctx, exe, cmd, sub=None, extra=(), timeout=3000, env=None):
    t0 = time.time()
    try:
        return _drive(ctx, exe, cmd, sub, extra, timeout, env)
    finally:
        if os.environ.get('VERIF_TIMING'):
            print('TIMING drive %s %s %.1fs' % (cmd, sub or '', time.time() - t0), flush=True)


def _drive(ctx, exe, cmd, sub=None, extra=(), timeout=3000, env=None):
    d = ctx.path(sub or cmd, '.keep')
    d = os.path.dirname(d)
    e = dict(GOENV)
    if env:
        e.update(env)
    rc, out = sh([exe, cmd, '-out', d, '-tier', ctx.tier, '-seed', str(ctx.seed)] + list(extra), timeout=timeout, env=e)
    if rc == 3 and 'DRIVER-PANIC' in out and not os.path.exists(os.path.join(d, 'summary.json')):
        # the driver died half way: what it recorded is still judged; if that shows nothing the run is inconclusive (finish())
        ctx.driver_panics = getattr(ctx, 'driver_panics', []) + ['%s: %s' % (cmd, out[out.index('DRIVER-PANIC'):][:600])]
        json.dump({}, open(os.path.join(d, 'summary.json'), 'w'))
        raise Inconclusive('driver %s died:\n%s' % (cmd, out[-3000:]))
    if rc != 0:
        raise Inconclusive('driver %s failed (%d):\n%s' % (cmd, rc, out[-4000:]))
    return d


# ---------------------------------------------------------------- TLC
JTMP = os.path.join(OUT, 'jtmp.%d' % os.getpid())     # TLC leaves an empty tlc-<n> directory per run in java.io.tmpdir: ours, removed at the end


def _tlc_cmd(workers, heap='6g'):
    os.makedirs(JTMP, exist_ok=True)
    return ['java', '-Djava.io.tmpdir=' + JTMP, '-XX:+UseParallelGC', '-XX:ParallelGCThreads=%d' % max(2, min(8, workers)), '-XX:-UsePerfData', '-Xmx' + heap, '-Xss64m',
            '-cp', JAR, 'tlc2.TLC']


def _specdir(ctx, tag, extra_files=()):
    d = ctx.path('tlc', tag, '.keep')
    d = os.path.dirname(d)
    for f in os.listdir(SPEC):
        if f.endswith('.tla') or f.endswith('.cfg'):
            shutil.copy(os.path.join(SPEC, f), d)
    for f in extra_files:
        shutil.copy(f, d)
    return d


RE_STATES = re.compile(r'(\d+) states generated, (\d+) distinct states found')


def tlc_mc(ctx, module, cfg, workers=8, timeout=1800, extra_files=(), expect_violation=False, heap='12g', simulate=None, deadlock=False):
    """Exhaustive (or simulated) TLC run of a bounded configuration of the specification itself.
    A violated invariant here is a defect of the specification, never of zlint (exit 2)."""
    d = _specdir(ctx, module + '.' + cfg, extra_files)
    cmd = _tlc_cmd(workers, heap) + ['-workers', str(workers), '-metadir', os.path.join(d, 'md'), '-config', cfg + '.cfg']
    if simulate:
        cmd += ['-simulate', simulate]
    if deadlock is False and not simulate:
        pass
    cmd += [module + '.tla']
    t0 = time.time()
    try:
        rc, out = sh(cmd, cwd=d, timeout=timeout)
    except subprocess.TimeoutExpired:
        raise Inconclusive('TLC timed out on %s/%s' % (module, cfg))
    m = RE_STATES.findall(out)
    gen, dist = (int(m[-1][0]), int(m[-1][1])) if m else (0, 0)
    ok = 'Model checking completed. No error has been found.' in out or (simulate and 'Finished in' in out and 'Error:' not in out)
    violated = re.findall(r'Invariant (\S+) is violated', out) + re.findall(r'Action property (\S+) is violated', out) + (['Deadlock'] if 'Deadlock reached' in out else [])
    rec = dict(module=module, cfg=cfg, generated=gen, distinct=dist, ok=ok, violated=violated, wall_s=round(time.time() - t0, 1))
    ctx.mc_runs.append(rec)
    if expect_violation:
        if not violated:
            raise Inconclusive('counter-model %s/%s was expected to violate an invariant but did not' % (module, cfg))
    else:
        if not ok:
            raise Inconclusive('specification defect: TLC did not verify %s/%s (violated=%s)\n%s' % (module, cfg, violated, out[-3000:]))
        ctx.states += dist
        ctx.transitions += gen
    shutil.rmtree(os.path.join(d, 'md'), ignore_errors=True)
    return rec, out


def tlapm(ctx, module, timeout=900, expect_fail=False):
    """TLAPS: the theorems of a Proofs_*.tla module (unbounded statements about operators of the specification) are re-proved
    from scratch (no fingerprint cache).  The back-end provers work under time limits, so a run on a loaded machine can fail to
    discharge an obligation that it discharges in a second otherwise: the run is repeated with stretched limits.  An obligation
    that stays open is a defect of the specification's proofs, never a violation: thorough tier exit 2; quick tier a note in the
    evidence (the same proofs are checked in setup_cmd and decide nothing about zlint)."""
    rec, out, m, rc = None, '', None, 1
    for stretch in ('3', '10'):
        d = _specdir(ctx, 'tlapm.' + module)
        t0 = time.time()
        try:
            rc, out = sh(['tlapm', '--threads', '6', '--stretch', stretch, '--cleanfp', module + '.tla'], cwd=d, timeout=timeout)
        except subprocess.TimeoutExpired:
            rc, out = 1, 'timeout'
        m = re.search(r'All (\d+) obligations? proved', out)
        f = re.search(r'(\d+)/(\d+) obligations? failed', out)
        rec = dict(module=module, obligations=int(m.group(1)) if m else (int(f.group(2)) if f else 0),
                   discharged=int(m.group(1)) if m else (int(f.group(2)) - int(f.group(1)) if f else 0),
                   theorems=len(re.findall(r'^THEOREM', open(os.path.join(d, module + '.tla')).read(), re.M)), stretch=int(stretch), wall_s=round(time.time() - t0, 1))
        shutil.rmtree(d, ignore_errors=True)
        if expect_fail or (m and rc == 0):
            break
    if expect_fail:
        if m or rc == 0:
            raise Inconclusive('negative control %s: tlapm proved statements that are false' % module)
        return rec
    if not m or rc != 0:
        if ctx.quick:
            ctx.notes.append('tlapm left obligations of %s open in this run (%s of %s discharged; back-end time limits): the proofs are checked in setup_cmd' % (
                module, rec['discharged'], rec['obligations']))
            return rec
        raise Inconclusive('specification defect: tlapm did not prove %s\n%s' % (module, out[-3000:]))
    ctx.proofs = getattr(ctx, 'proofs', []) + [rec]
    return rec


def apalache(ctx, module, init, inv, length, cinit='ConstInit', expect_error=False, timeout=1200):
    """Apalache (symbolic): --init/--inv/--length on a typed module; used for inductive-invariant checks (Init => Inv at length 0,
    Inv /\\ Next => Inv' at length 1).  A counterexample is a defect of the specification (exit 2), never a violation."""
    d = _specdir(ctx, 'apalache.%s.%s.%s' % (module, init, inv))
    t0 = time.time()
    try:
        rc, out = sh(['apalache-mc', 'check', '--cinit=' + cinit, '--init=' + init, '--inv=' + inv, '--length=%d' % length, module + '.tla'], cwd=d, timeout=timeout)
    except subprocess.TimeoutExpired:
        raise Inconclusive('apalache timed out on %s %s/%s' % (module, init, inv))
    ok = 'The outcome is: NoError' in out
    err = 'The outcome is: Error' in out
    rec = dict(module=module, init=init, inv=inv, length=length, ok=ok, wall_s=round(time.time() - t0, 1))
    shutil.rmtree(d, ignore_errors=True)
    if expect_error:
        if not err:
            raise Inconclusive('negative control %s %s/%s: apalache found no counterexample' % (module, init, inv))
        return rec
    if not ok:
        raise Inconclusive('specification defect: apalache did not verify %s %s/%s\n%s' % (module, init, inv, out[-3000:]))
    ctx.symbolic = getattr(ctx, 'symbolic', []) + [rec]
    return rec


# ---- tiny parser for TLC-printed values
def parse_tla(s):
    pos = [0]

    def ws():
        while pos[0] < len(s) and s[pos[0]] in ' \t\r\n':
            pos[0] += 1

    def val():
        ws()
        c = s[pos[0]]
        if s.startswith('<<', pos[0]):
            pos[0] += 2
            items = []
            while True:
                ws()
                if s.startswith('>>', pos[0]):
                    pos[0] += 2
                    return items
                items.append(val())
                ws()
                if s[pos[0]] == ',':
                    pos[0] += 1
        if c == '{':
            pos[0] += 1
            items = []
            while True:
                ws()
                if s[pos[0]] == '}':
                    pos[0] += 1
                    return items
                items.append(val())
                ws()
                if s[pos[0]] == ',':
                    pos[0] += 1
        if c == '[':
            pos[0] += 1
            rec = {}
            while True:
                ws()
                if s[pos[0]] == ']':
                    pos[0] += 1
                    return rec
                m = re.compile(r'(\w+)\s*\|->').match(s, pos[0])
                pos[0] = m.end()
                rec[m.group(1)] = val()
                ws()
                if s[pos[0]] == ',':
                    pos[0] += 1
        if c == '"':
            j = pos[0] + 1
            buf = []
            while s[j] != '"':
                if s[j] == '\\':
                    j += 1
                buf.append(s[j])
                j += 1
            pos[0] = j + 1
            return ''.join(buf)
        m = re.compile(r'-?\d+|TRUE|FALSE|\w+').match(s, pos[0])
        pos[0] = m.end()
        t = m.group(0)
        if t == 'TRUE':
            return True
        if t == 'FALSE':
            return False
        try:
            return int(t)
        except ValueError:
            return t

    return val()


def _extract_tuples(out, tag):
    """All printed tuples whose first element is the string tag (possibly pretty-printed over several lines)."""
    res = []
    i = 0
    pat = re.compile(r'<<\s*"%s"' % tag)
    while True:
        m = pat.search(out, i)
        if not m:
            break
        j = m.start()
        depth = 0
        k = j
        instr = False
        while k < len(out):
            if instr:
                if out[k] == '\\':
                    k += 1
                elif out[k] == '"':
                    instr = False
            elif out[k] == '"':
                instr = True
            elif out.startswith('<<', k):
                depth += 1
                k += 1
            elif out.startswith('>>', k):
                depth -= 1
                k += 1
                if depth == 0:
                    break
            k += 1
        res.append(parse_tla(out[j:k + 1]))
        i = k + 1
    return res


def _one_trace(args):
    ctx, module, cfg, d, lines_header, shard_lines, shard_no, base_index, timeout, extra_files = args
    sd = os.path.join(d, 's%d' % shard_no)
    os.makedirs(sd, exist_ok=True)
    for f in os.listdir(SPEC):
        if f.endswith('.tla') or f.endswith('.cfg'):
            shutil.copy(os.path.join(SPEC, f), sd)
    for f in extra_files:
        shutil.copy(f, sd)
    with open(os.path.join(sd, 'trace.ndjson'), 'w') as fh:
        fh.writelines(lines_header)
        fh.writelines(shard_lines)
    n = len(lines_header) + len(shard_lines)
    cmd = _tlc_cmd(1, '3g') + ['-workers', '1', '-metadir', os.path.join(sd, 'md'), '-config', cfg + '.cfg', module + '.tla']
    try:
        rc, out = sh(cmd, cwd=sd, timeout=timeout)
    except subprocess.TimeoutExpired:
        return dict(error='timeout', shard=shard_no)
    done = _extract_tuples(out, 'DONE')
    if not done or done[0][1] != n:
        return dict(error='trace not consumed to the end (shard %d): %s' % (shard_no, out[-2500:]), shard=shard_no)
    rej = []
    for r in _extract_tuples(out, 'REJECT'):
        local = r[1]
        g = local if local <= len(lines_header) else base_index + (local - len(lines_header))
        rej.append((g, r[2:]))
    m = RE_STATES.findall(out)
    shutil.rmtree(sd, ignore_errors=True)
    return dict(rejects=rej, states=int(m[-1][1]) if m else 0, events=len(shard_lines), nrej=done[0][2])


def tlc_trace(ctx, module, tracefile, header=0, shards=8, timeout=1800, cfg=None, segment_key=None, extra_files=()):
    t0 = time.time()
    try:
        return _tlc_trace(ctx, module, tracefile, header, shards, timeout, cfg, segment_key, extra_files)
    finally:
        if os.environ.get('VERIF_TIMING'):
            print('TIMING trace %s %s %.1fs' % (module, os.path.basename(tracefile), time.time() - t0), flush=True)


def _tlc_trace(ctx, module, tracefile, header=0, shards=8, timeout=1800, cfg=None, segment_key=None, extra_files=()):
    """Trace validation: the recorded events are consumed one per step by the trace specification.
    Returns the list of rejected events as (1-based line number in tracefile, payload).
    The first `header` lines are replicated into every shard.  With segment_key the shards are cut
    only where the key (a function of the parsed event) changes, so memo segments stay whole."""
    cfg = cfg or module
    lines = open(tracefile).readlines()
    head, body = lines[:header], lines[header:]
    if not body:
        return [], lines
    # a shard is read into one JVM as a whole: no more than ~24 MB of events each, and at most 8 JVMs (3 GB heaps) at a time
    nbytes = sum(len(x) for x in body)
    shards = max(shards, -(-nbytes // (24 << 20)))
    shards = max(1, min(shards, len(body) // 50 or 1))
    cuts = [0]
    per = len(body) / shards
    for s in range(1, shards):
        c = int(s * per)
        if segment_key:
            while c < len(body) and not segment_key(body[c]):
                c += 1
        if c > cuts[-1] and c < len(body):
            cuts.append(c)
    cuts.append(len(body))
    d = os.path.dirname(ctx.path('tlc', module + '.' + os.path.basename(tracefile), '.keep'))
    jobs = []
    for s in range(len(cuts) - 1):
        jobs.append((ctx, module, cfg, d, head, body[cuts[s]:cuts[s + 1]], s, header + cuts[s], timeout, extra_files))
    t0 = time.time()
    with ThreadPoolExecutor(max_workers=min(16 if nbytes < (200 << 20) else 8, len(jobs))) as ex:
        results = list(ex.map(_one_trace, jobs))
    rejects = []
    for r in results:
        if 'error' in r:
            raise Inconclusive('trace validation failed to run: ' + str(r['error']))
        rejects += r['rejects']
        ctx.states += r['states']
        ctx.transitions += r['states']
    ctx.traces += 1
    rec = dict(module=module, trace=os.path.basename(tracefile), events=len(lines), rejected=len(rejects), shards=len(jobs),
               wall_s=round(time.time() - t0, 1))
    ctx.trace_runs.append(rec)
    shutil.rmtree(d, ignore_errors=True)
    return sorted(rejects), lines


# ---------------------------------------------------------------- known findings / verdicts
def known_findings(pid):
    p = os.path.join(VERIF, 'known_findings.json')
    if not os.path.exists(p):
        return {}
    ents = json.load(open(p)).get('findings', [])
    return {e['key']: e for e in ents if e['property'] == pid and e.get('status') == 'known'}


def report(ctx, key, what, replay_obj):
    """Register a confirmed violation (or a known finding if its key is listed)."""
    kf = known_findings(ctx.pid)
    if key in kf:
        if key not in [k['key'] for k in ctx.known_hits]:
            ctx.known_hits.append(dict(key=key, what=kf[key]['what']))
        return
    if key in [v['key'] for v in ctx.violations]:
        return
    os.makedirs(os.path.join(OUT, 'replays'), exist_ok=True)
    path = os.path.join(OUT, 'replays', '%s-%s.json' % (ctx.pid, hashlib.md5(key.encode()).hexdigest()[:10]))
    json.dump(dict(property=ctx.pid, key=key, what=what, replay=replay_obj), open(path, 'w'), indent=1)
    ctx.violations.append(dict(key=key, what=what, replay=path))


def finish(ctx, level, coverage, assumptions=()):
    cov = dict(coverage)
    cov.setdefault('states', ctx.states)
    cov.setdefault('transitions', ctx.transitions)
    cov.setdefault('traces_validated_against_impl', ctx.traces)
    cov['mc_runs'] = ctx.mc_runs
    cov['trace_runs'] = ctx.trace_runs
    if getattr(ctx, 'symbolic', None):
        cov['apalache_runs'] = ctx.symbolic
    if getattr(ctx, 'proofs', None):
        cov['tlaps_proofs'] = ctx.proofs
        cov['obligations'] = sum(p['obligations'] for p in ctx.proofs)
        cov['discharged'] = sum(p['discharged'] for p in ctx.proofs)
    cov['known_findings_hit'] = ctx.known_hits
    cov['fidelity_mismatches'] = ctx.drift[:20]
    cov['violations_found'] = [dict(key=v['key'], what=v['what']) for v in ctx.violations[:20]]
    if ctx.notes:
        cov['notes'] = ctx.notes
    evd = dict(property_id=ctx.pid, tier=ctx.tier, seed=ctx.seed, level=level, coverage=cov,
               assumptions=list(assumptions), wall_s=round(time.time() - ctx.t0, 1), violations=len(ctx.violations))
    os.makedirs(os.path.join(VERIF, 'evidence'), exist_ok=True)
    json.dump(evd, open(os.path.join(VERIF, 'evidence', ctx.pid + '.json'), 'w'), indent=1, sort_keys=True)
    for k in ctx.known_hits:
        print('KNOWN-FINDING: property=%s %s' % (ctx.pid, k['what']))
    for dmsg in ctx.drift[:10]:
        print('SPEC-DRIFT property=%s %s' % (ctx.pid, dmsg))
    for v in ctx.violations:
        print('VIOLATION property=%s replay=%s' % (ctx.pid, v['replay']))
        print('  ' + v['what'])
    print('%s %s tier=%s seed=%d states=%d traces=%d wall=%.1fs' % (
        ctx.pid, 'VIOLATED' if ctx.violations else 'ok', ctx.tier, ctx.seed, ctx.states, ctx.traces, time.time() - ctx.t0))
    return 1 if ctx.violations else 0

# sourced by every script: offline Go + no conda noise
export GOFLAGS=-mod=mod GOPROXY=off GOSUMDB=off GOTOOLCHAIN=local
export CARGO_NET_OFFLINE=true PIP_NO_INDEX=1

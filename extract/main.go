// extract: static facts about the zlint source tree, for the "programs"-quantified properties
// (C06 severity per return path, C12 census of registrations, C05 I/O freedom).
// go/packages + SSA (golang.org/x/tools v0.29.0). Output: one JSON document.
package main

import (
	"encoding/json"
	"fmt"
	"go/ast"
	"go/constant"
	"go/parser"
	"go/token"
	"go/types"
	"os"
	"path/filepath"
	"sort"
	"strconv"
	"strings"

	"golang.org/x/tools/go/packages"
	"golang.org/x/tools/go/ssa"
	"golang.org/x/tools/go/ssa/ssautil"
)

const mod = "github.com/zmap/zlint/v3"

type Reg struct {
	Name     string   `json:"name"`
	Kind     string   `json:"kind"`
	File     string   `json:"file"`
	Type     string   `json:"type"`
	Direct   []int    `json:"direct"`  // statuses stored by code only this lint (or lints of the same prefix) reaches
	Shared   []int    `json:"shared"`  // statuses stored in helpers shared with lints of another prefix
	Dynamic  bool     `json:"dynamic"` // a non-constant status flows into a result somewhere
	Approx   []int    `json:"approx"`  // LintStatus constants used in any non-comparison position in reachable code (over-approximation)
	Forbid   []string `json:"forbidden_calls"`
	MapRange int      `json:"map_range_sites"`
}

type Out struct {
	Registrations   []Reg    `json:"registrations"`
	LintDirs        []string `json:"lintDirs"`
	Imported        []string `json:"imported"`
	LintTypes       []string `json:"lintTypes"`
	RegisteredTypes []string `json:"registeredTypes"`
	Unresolved      []string `json:"unresolved"`
	FrameworkForbid []string `json:"framework_forbidden_calls"`
	SourceConstants []string `json:"sourceConstants"` // values of the LintSource constants declared in package lint
	RawNames        []string `json:"rawNames"`        // Name literals of every Register*Lint call in lints/**/*.go, read file by file whatever the build constraints
}

func main() {
	root := os.Getenv("VERIF_REPO")
	if root == "" {
		root = "/repo"
	}
	dir := filepath.Join(root, "v3")
	cfg := &packages.Config{Mode: packages.NeedName | packages.NeedFiles | packages.NeedSyntax | packages.NeedTypes | packages.NeedTypesInfo |
		packages.NeedDeps | packages.NeedImports | packages.NeedModule, Dir: dir, Tests: false,
		Env: append(os.Environ(), "GOFLAGS=-mod=mod", "GOPROXY=off", "GOSUMDB=off", "GOTOOLCHAIN=local")}
	pkgs, err := packages.Load(cfg, "./lints/...", "./util", "./lint", ".")
	if err != nil {
		fmt.Fprintln(os.Stderr, err)
		os.Exit(2)
	}
	if packages.PrintErrors(pkgs) > 0 {
		os.Exit(2)
	}
	prog, spkgs := ssautil.AllPackages(pkgs, ssa.InstantiateGenerics)
	prog.Build()
	_ = spkgs
	out := Out{}

	// ---- lint package directories vs blank imports of zlint.go
	ents, _ := os.ReadDir(filepath.Join(dir, "lints"))
	for _, e := range ents {
		if !e.IsDir() {
			continue
		}
		fs, _ := filepath.Glob(filepath.Join(dir, "lints", e.Name(), "*.go"))
		n := 0
		for _, f := range fs {
			if !strings.HasSuffix(f, "_test.go") {
				n++
			}
		}
		if n > 0 {
			out.LintDirs = append(out.LintDirs, e.Name())
		}
	}
	for _, p := range pkgs {
		if p.PkgPath == mod {
			for ip := range p.Imports {
				if strings.HasPrefix(ip, mod+"/lints/") {
					out.Imported = append(out.Imported, strings.TrimPrefix(ip, mod+"/lints/"))
				}
			}
		}
	}
	sort.Strings(out.Imported)

	for _, p := range pkgs {
		if p.PkgPath == mod+"/lint" {
			sc := p.Types.Scope()
			for _, n := range sc.Names() {
				if c, ok := sc.Lookup(n).(*types.Const); ok {
					if nt, ok := c.Type().(*types.Named); ok && nt.Obj().Name() == "LintSource" && c.Val().Kind() == constant.String {
						out.SourceConstants = append(out.SourceConstants, constant.StringVal(c.Val()))
					}
				}
			}
		}
	}
	sort.Strings(out.SourceConstants)

	// ---- lint-shaped types
	var lintPkgs []*packages.Package
	for _, p := range pkgs {
		if strings.HasPrefix(p.PkgPath, mod+"/lints/") {
			lintPkgs = append(lintPkgs, p)
		}
	}
	sort.Slice(lintPkgs, func(i, j int) bool { return lintPkgs[i].PkgPath < lintPkgs[j].PkgPath })
	for _, p := range lintPkgs {
		sc := p.Types.Scope()
		for _, n := range sc.Names() {
			tn, ok := sc.Lookup(n).(*types.TypeName)
			if !ok {
				continue
			}
			ms := types.NewMethodSet(types.NewPointer(tn.Type()))
			if ms.Lookup(p.Types, "CheckApplies") != nil && ms.Lookup(p.Types, "Execute") != nil {
				if _, isIface := tn.Type().Underlying().(*types.Interface); !isIface {
					out.LintTypes = append(out.LintTypes, p.Types.Name()+"."+n)
				}
			}
		}
	}

	// ---- the raw census: every non-test .go file under lints/, parsed one by one (build constraints and file-name suffixes
	//      do not hide a file from it), Register*Lint calls found syntactically, the Name literal read off the argument
	filepath.Walk(filepath.Join(dir, "lints"), func(path string, info os.FileInfo, err error) error {
		if err != nil || info.IsDir() || !strings.HasSuffix(path, ".go") || strings.HasSuffix(path, "_test.go") {
			return nil
		}
		f, perr := parser.ParseFile(token.NewFileSet(), path, nil, 0)
		if perr != nil {
			return nil
		}
		ast.Inspect(f, func(n ast.Node) bool {
			call, ok := n.(*ast.CallExpr)
			if !ok || len(call.Args) != 1 {
				return true
			}
			sel, ok := call.Fun.(*ast.SelectorExpr)
			if !ok || !strings.HasPrefix(sel.Sel.Name, "Register") || !strings.HasSuffix(sel.Sel.Name, "Lint") {
				return true
			}
			if x, ok := sel.X.(*ast.Ident); !ok || x.Name != "lint" {
				return true
			}
			found := ""
			ast.Inspect(call.Args[0], func(m ast.Node) bool {
				kv, ok := m.(*ast.KeyValueExpr)
				if !ok {
					return true
				}
				if k, ok := kv.Key.(*ast.Ident); ok && k.Name == "Name" && found == "" {
					if bl, ok := kv.Value.(*ast.BasicLit); ok && bl.Kind == token.STRING {
						found, _ = strconv.Unquote(bl.Value)
					}
				}
				return true
			})
			out.RawNames = append(out.RawNames, found)
			return true
		})
		return nil
	})
	sort.Strings(out.RawNames)

	// ---- registrations
	regFns := map[string]string{"RegisterLint": "cert", "RegisterCertificateLint": "cert", "RegisterRevocationListLint": "crl", "RegisterOcspResponseLint": "ocsp"}
	type regSite struct {
		reg  Reg
		ctor ast.Expr
		pkg  *packages.Package
	}
	var sites []regSite
	for _, p := range lintPkgs {
		for _, f := range p.Syntax {
			fname := p.Fset.Position(f.Pos()).Filename
			if strings.HasSuffix(fname, "_test.go") {
				continue
			}
			ast.Inspect(f, func(n ast.Node) bool {
				call, ok := n.(*ast.CallExpr)
				if !ok {
					return true
				}
				sel, ok := call.Fun.(*ast.SelectorExpr)
				if !ok {
					return true
				}
				kind, ok := regFns[sel.Sel.Name]
				if !ok {
					return true
				}
				if obj, ok := p.TypesInfo.Uses[sel.Sel].(*types.Func); !ok || obj.Pkg() == nil || obj.Pkg().Path() != mod+"/lint" {
					return true
				}
				r := Reg{Kind: kind, File: strings.TrimPrefix(fname, dir+"/")}
				var ctor ast.Expr
				if len(call.Args) == 1 {
					name, c := findNameAndCtor(p, call.Args[0])
					r.Name, ctor = name, c
				}
				sites = append(sites, regSite{r, ctor, p})
				return true
			})
		}
	}

	// resolve constructors to concrete types and Execute methods
	type lintFns struct {
		exec, applies, configure *ssa.Function
	}
	fnsOf := map[int]lintFns{}
	for i := range sites {
		s := &sites[i]
		var ctorFn *ssa.Function
		switch c := s.ctor.(type) {
		case *ast.Ident:
			if fo, ok := s.pkg.TypesInfo.Uses[c].(*types.Func); ok {
				ctorFn = prog.FuncValue(fo)
			}
		case *ast.FuncLit:
			// anonymous constructor: find by position among the package's init function's AnonFuncs
			sp := prog.Package(s.pkg.Types)
			for _, m := range sp.Members {
				if fn, ok := m.(*ssa.Function); ok {
					for _, an := range allAnon(fn) {
						if an.Pos() == c.Type.Func || (an.Syntax() != nil && an.Syntax().Pos() == c.Pos()) {
							ctorFn = an
						}
					}
				}
			}
		case *ast.SelectorExpr:
			if fo, ok := s.pkg.TypesInfo.Uses[c.Sel].(*types.Func); ok {
				ctorFn = prog.FuncValue(fo)
			}
		}
		if ctorFn == nil {
			out.Unresolved = append(out.Unresolved, s.reg.File+": constructor")
			continue
		}
		ct := concreteReturn(ctorFn)
		if ct == nil {
			out.Unresolved = append(out.Unresolved, s.reg.File+": concrete type")
			continue
		}
		s.reg.Type = typeName(ct)
		ms := prog.MethodSets.MethodSet(ct)
		lf := lintFns{}
		if m := ms.Lookup(s.pkg.Types, "Execute"); m != nil {
			lf.exec = prog.MethodValue(m)
		}
		if m := ms.Lookup(s.pkg.Types, "CheckApplies"); m != nil {
			lf.applies = prog.MethodValue(m)
		}
		if m := ms.Lookup(s.pkg.Types, "Configure"); m != nil {
			lf.configure = prog.MethodValue(m)
		}
		if lf.exec == nil {
			out.Unresolved = append(out.Unresolved, s.reg.File+": Execute method")
		}
		fnsOf[i] = lf
	}

	// reachability within the module (static callees + anonymous functions)
	inModule := func(f *ssa.Function) bool {
		return f.Pkg != nil && strings.HasPrefix(f.Pkg.Pkg.Path(), mod) || (f.Pkg == nil && f.Origin() != nil)
	}
	reachMemo := map[*ssa.Function][]*ssa.Function{}
	var reach func(root *ssa.Function) []*ssa.Function
	reach = func(root *ssa.Function) []*ssa.Function {
		if r, ok := reachMemo[root]; ok {
			return r
		}
		seen := map[*ssa.Function]bool{}
		var order []*ssa.Function
		var walk func(f *ssa.Function)
		walk = func(f *ssa.Function) {
			if f == nil || seen[f] {
				return
			}
			seen[f] = true
			order = append(order, f)
			for _, an := range f.AnonFuncs {
				walk(an)
			}
			for _, b := range f.Blocks {
				for _, ins := range b.Instrs {
					if c, ok := ins.(ssa.CallInstruction); ok {
						if callee := c.Common().StaticCallee(); callee != nil && inModule(callee) {
							walk(callee)
						}
					}
					// function values passed around (e.g. helpers taking callbacks)
					for _, op := range ins.Operands(nil) {
						if op == nil || *op == nil {
							continue
						}
						if fn, ok := (*op).(*ssa.Function); ok && inModule(fn) {
							walk(fn)
						}
						if mc, ok := (*op).(*ssa.MakeClosure); ok {
							if fn, ok := mc.Fn.(*ssa.Function); ok {
								walk(fn)
							}
						}
					}
				}
			}
		}
		walk(root)
		reachMemo[root] = order
		return order
	}
	prefixOf := func(name string) string {
		if len(name) > 2 && name[1] == '_' {
			return name[:1]
		}
		return "none"
	}
	// which prefixes reach each function (through Execute)
	users := map[*ssa.Function]map[string]bool{}
	for i, s := range sites {
		if lf, ok := fnsOf[i]; ok && lf.exec != nil {
			for _, f := range reach(lf.exec) {
				if users[f] == nil {
					users[f] = map[string]bool{}
				}
				users[f][prefixOf(s.reg.Name)] = true
			}
		}
	}
	statusType := func(t types.Type) bool {
		n, ok := t.(*types.Named)
		return ok && n.Obj().Name() == "LintStatus" && n.Obj().Pkg() != nil && n.Obj().Pkg().Path() == mod+"/lint"
	}
	// statuses stored into LintResult.Status inside a function
	storeMemo := map[*ssa.Function][2]interface{}{}
	storesOf := func(f *ssa.Function) (consts []int, dynamic bool) {
		if m, ok := storeMemo[f]; ok {
			return m[0].([]int), m[1].(bool)
		}
		set := map[int]bool{}
		var valueConsts func(v ssa.Value, depth int) bool
		valueConsts = func(v ssa.Value, depth int) bool {
			switch x := v.(type) {
			case *ssa.Const:
				if x.Value != nil && x.Value.Kind() == constant.Int {
					n, _ := constant.Int64Val(x.Value)
					set[int(n)] = true
					return true
				}
				if x.Value == nil {
					set[0] = true
					return true
				}
			case *ssa.Phi:
				if depth > 6 {
					return false
				}
				ok := true
				for _, e := range x.Edges {
					if !valueConsts(e, depth+1) {
						ok = false
					}
				}
				return ok
			case *ssa.ChangeType:
				return valueConsts(x.X, depth+1)
			case *ssa.Convert:
				return valueConsts(x.X, depth+1)
			}
			return false
		}
		for _, b := range f.Blocks {
			for _, ins := range b.Instrs {
				st, ok := ins.(*ssa.Store)
				if !ok {
					continue
				}
				fa, ok := st.Addr.(*ssa.FieldAddr)
				if !ok {
					continue
				}
				pt, ok := fa.X.Type().Underlying().(*types.Pointer)
				if !ok {
					continue
				}
				stt, ok := pt.Elem().Underlying().(*types.Struct)
				if !ok || !statusType(stt.Field(fa.Field).Type()) {
					continue
				}
				if named, ok := pt.Elem().(*types.Named); !ok || named.Obj().Name() != "LintResult" {
					continue
				}
				if !valueConsts(st.Val, 0) {
					dynamic = true
				}
			}
		}
		for s := range set {
			consts = append(consts, s)
		}
		sort.Ints(consts)
		storeMemo[f] = [2]interface{}{consts, dynamic}
		return
	}
	approxMemo := map[*ssa.Function][]int{}
	approxOf := func(f *ssa.Function) []int {
		if m, ok := approxMemo[f]; ok {
			return m
		}
		set := map[int]bool{}
		for _, b := range f.Blocks {
			for _, ins := range b.Instrs {
				if bo, ok := ins.(*ssa.BinOp); ok && (bo.Op == token.EQL || bo.Op == token.NEQ || bo.Op == token.LSS || bo.Op == token.GTR || bo.Op == token.LEQ || bo.Op == token.GEQ) {
					continue
				}
				for _, op := range ins.Operands(nil) {
					if op == nil || *op == nil {
						continue
					}
					if c, ok := (*op).(*ssa.Const); ok && statusType(c.Type()) && c.Value != nil {
						n, _ := constant.Int64Val(c.Value)
						set[int(n)] = true
					}
				}
			}
		}
		var o []int
		for k := range set {
			o = append(o, k)
		}
		sort.Ints(o)
		approxMemo[f] = o
		return o
	}
	forbiddenPkg := func(callee *ssa.Function) string {
		if callee.Pkg == nil {
			return ""
		}
		p := callee.Pkg.Pkg.Path()
		n := callee.Name()
		switch p {
		case "os/exec", "net/http", "syscall", "io/ioutil", "os/signal", "os/user", "plugin", "net/rpc", "net/smtp":
			return p + "." + n
		case "os":
			return p + "." + n
		case "net":
			for _, pre := range []string{"Dial", "Listen", "Lookup", "ResolveIPAddr", "ResolveTCPAddr", "ResolveUDPAddr", "Interface", "FileConn", "FileListener"} {
				if strings.HasPrefix(n, pre) {
					return p + "." + n
				}
			}
		case "time":
			if callee.Signature.Recv() != nil {
				return ""
			}
			if n == "Now" || n == "Sleep" || n == "After" || n == "Tick" || n == "NewTimer" || n == "NewTicker" || n == "Since" || n == "Until" {
				return p + "." + n
			}
		}
		return ""
	}
	forbidIn := func(fs []*ssa.Function) []string {
		set := map[string]bool{}
		for _, f := range fs {
			for _, b := range f.Blocks {
				for _, ins := range b.Instrs {
					if c, ok := ins.(ssa.CallInstruction); ok {
						if callee := c.Common().StaticCallee(); callee != nil {
							if s := forbiddenPkg(callee); s != "" {
								set[s+" in "+f.String()] = true
							}
						}
					}
				}
			}
		}
		var o []string
		for s := range set {
			o = append(o, s)
		}
		sort.Strings(o)
		return o
	}
	mapRanges := func(fs []*ssa.Function) int {
		n := 0
		for _, f := range fs {
			for _, b := range f.Blocks {
				for _, ins := range b.Instrs {
					if r, ok := ins.(*ssa.Range); ok {
						if _, isMap := r.X.Type().Underlying().(*types.Map); isMap {
							n++
						}
					}
				}
			}
		}
		return n
	}
	regTypes := map[string]bool{}
	for i := range sites {
		s := &sites[i]
		lf, ok := fnsOf[i]
		if ok && lf.exec != nil {
			direct, shared := map[int]bool{}, map[int]bool{}
			me := prefixOf(s.reg.Name)
			ap := map[int]bool{}
			for _, f := range reach(lf.exec) {
				for _, c := range approxOf(f) {
					ap[c] = true
				}
			}
			for c := range ap {
				s.reg.Approx = append(s.reg.Approx, c)
			}
			sort.Ints(s.reg.Approx)
			for _, f := range reach(lf.exec) {
				cs, dyn := storesOf(f)
				if dyn {
					s.reg.Dynamic = true
				}
				onlyMine := true
				for p := range users[f] {
					if p != me {
						onlyMine = false
					}
				}
				for _, c := range cs {
					if onlyMine {
						direct[c] = true
					} else {
						shared[c] = true
					}
				}
			}
			for c := range direct {
				s.reg.Direct = append(s.reg.Direct, c)
			}
			for c := range shared {
				if !direct[c] {
					s.reg.Shared = append(s.reg.Shared, c)
				}
			}
			sort.Ints(s.reg.Direct)
			sort.Ints(s.reg.Shared)
			var all []*ssa.Function
			all = append(all, reach(lf.exec)...)
			if lf.applies != nil {
				all = append(all, reach(lf.applies)...)
			}
			if lf.configure != nil {
				all = append(all, reach(lf.configure)...)
			}
			s.reg.Forbid = forbidIn(all)
			s.reg.MapRange = mapRanges(reach(lf.exec))
		}
		if s.reg.Direct == nil {
			s.reg.Direct = []int{}
		}
		if s.reg.Shared == nil {
			s.reg.Shared = []int{}
		}
		if s.reg.Approx == nil {
			s.reg.Approx = []int{}
		}
		if s.reg.Forbid == nil {
			s.reg.Forbid = []string{}
		}
		if s.reg.Type != "" {
			regTypes[s.reg.Type] = true
		}
		out.Registrations = append(out.Registrations, s.reg)
	}
	for t := range regTypes {
		out.RegisteredTypes = append(out.RegisteredTypes, t)
	}
	sort.Strings(out.RegisteredTypes)
	sort.Strings(out.LintTypes)
	sort.Slice(out.Registrations, func(i, j int) bool { return out.Registrations[i].Name < out.Registrations[j].Name })

	// ---- framework (root package + lint package) I/O: everything reachable from the Lint*Ex entry points
	var entry []*ssa.Function
	for _, p := range pkgs {
		if p.PkgPath == mod {
			sp := prog.Package(p.Types)
			for _, n := range []string{"LintCertificateEx", "LintRevocationListEx", "LintOcspResponseEx"} {
				if f := sp.Func(n); f != nil {
					entry = append(entry, reach(f)...)
				}
			}
		}
	}
	out.FrameworkForbid = forbidIn(entry)
	if out.FrameworkForbid == nil {
		out.FrameworkForbid = []string{}
	}
	if out.Unresolved == nil {
		out.Unresolved = []string{}
	}
	enc := json.NewEncoder(os.Stdout)
	enc.SetIndent("", " ")
	enc.Encode(out)
}

func allAnon(f *ssa.Function) []*ssa.Function {
	var o []*ssa.Function
	for _, a := range f.AnonFuncs {
		o = append(o, a)
		o = append(o, allAnon(a)...)
	}
	return o
}

// findNameAndCtor digs the Name string and the Lint constructor expression out of &lint.XLint{...}.
func findNameAndCtor(p *packages.Package, e ast.Expr) (string, ast.Expr) {
	name := ""
	var ctor ast.Expr
	ast.Inspect(e, func(n ast.Node) bool {
		kv, ok := n.(*ast.KeyValueExpr)
		if !ok {
			return true
		}
		k, ok := kv.Key.(*ast.Ident)
		if !ok {
			return true
		}
		switch k.Name {
		case "Name":
			if tv, ok := p.TypesInfo.Types[kv.Value]; ok && tv.Value != nil && tv.Value.Kind() == constant.String {
				if name == "" {
					name = constant.StringVal(tv.Value)
				}
			}
		case "Lint":
			if ctor == nil {
				ctor = kv.Value
			}
		}
		return true
	})
	return name, ctor
}

func concreteReturn(f *ssa.Function) types.Type { return concreteReturnD(f, 0) }

func concreteReturnD(f *ssa.Function, depth int) types.Type {
	for _, b := range f.Blocks {
		for _, ins := range b.Instrs {
			if r, ok := ins.(*ssa.Return); ok && len(r.Results) == 1 {
				v := r.Results[0]
				for {
					if ct, ok := v.(*ssa.ChangeInterface); ok {
						v = ct.X
						continue
					}
					break
				}
				if mi, ok := v.(*ssa.MakeInterface); ok {
					return mi.X.Type()
				}
				if c, ok := v.(*ssa.Call); ok && depth < 4 {
					if callee := c.Common().StaticCallee(); callee != nil {
						return concreteReturnD(callee, depth+1)
					}
				}
				if _, isIface := v.Type().Underlying().(*types.Interface); isIface {
					return nil
				}
				return v.Type()
			}
		}
	}
	return nil
}

func typeName(t types.Type) string {
	if p, ok := t.(*types.Pointer); ok {
		t = p.Elem()
	}
	if n, ok := t.(*types.Named); ok {
		return n.Obj().Pkg().Name() + "." + n.Obj().Name()
	}
	return t.String()
}

var _ = token.NoPos

package main

// cfgdoc: binding of ConfigDoc.tla.  Six mock lints whose option structs have the shapes of MC_ConfigDoc.tla (plain options,
// higher-scoped configurations by value / by pointer / nested / in an unexported field; certificate, CRL and OCSP kinds)
// are registered through the public API.  Every document exported by MC_ConfigDoc_export is rendered as TOML, loaded with
// lint.NewConfigFromString, set on the registry, and one object of each kind is linted; each mock reports what its
// freshly configured instance holds.  The generated example configuration is rendered, parsed back and used as well.
// The trace (Trace_ConfigDoc) recomputes ConfigDoc!Resolve for every observation.
import (
	"encoding/json"
	"fmt"
	"math/rand"
	"os"
	"reflect"
	"regexp"
	"sort"
	"strings"

	"github.com/pelletier/go-toml"
	"github.com/zmap/zcrypto/x509"
	zlint "github.com/zmap/zlint/v3"
	"github.com/zmap/zlint/v3/lint"
	"golang.org/x/crypto/ocsp"
	"verif/harness/internal/corpus"
	"verif/harness/internal/ev"
)

type cdPlain struct {
	Value int
	Flag  bool
	Text  string
}
type cdGVal struct {
	Value int
	G     lint.Global
	BR    lint.CABFBaselineRequirementsConfig
}
type cdGPtr struct {
	Value int
	G     *lint.Global
	R     *lint.RFC5280Config
}
type cdInner struct {
	Depth int
	G     *lint.Global
}
type cdNested struct {
	Value  int
	Inner  cdInner
	hidden *lint.RFC5280Config
}
type cdOne struct {
	Value int
	G     *lint.Global
}
type cdBare struct {
	Value int
}

func cls(isDefault, isNew bool) string {
	switch {
	case isDefault:
		return "def"
	case isNew:
		return "new"
	}
	return "other"
}
func clsInt(v int) string { return cls(v == 0, v == 7) }

// what a configured option struct holds: option classes and the pointer references that are set
func cdReport(o interface{}) (map[string]string, []string) {
	vals := map[string]string{}
	ptrs := []string{}
	switch x := o.(type) {
	case *cdPlain:
		vals["Value"], vals["Flag"], vals["Text"] = clsInt(x.Value), cls(!x.Flag, x.Flag), cls(x.Text == "", x.Text == "x")
	case *cdGVal:
		vals["Value"] = clsInt(x.Value)
	case *cdGPtr:
		vals["Value"] = clsInt(x.Value)
		if x.G != nil {
			ptrs = append(ptrs, "G")
		}
		if x.R != nil {
			ptrs = append(ptrs, "R")
		}
	case *cdNested:
		vals["Value"], vals["Inner.Depth"] = clsInt(x.Value), clsInt(x.Inner.Depth)
		if x.Inner.G != nil {
			ptrs = append(ptrs, "Inner.G")
		}
		if x.hidden != nil {
			ptrs = append(ptrs, "hidden")
		}
	case *cdOne:
		vals["Value"] = clsInt(x.Value)
		if x.G != nil {
			ptrs = append(ptrs, "G")
		}
	case *cdBare:
		vals["Value"] = clsInt(x.Value)
	}
	sort.Strings(ptrs)
	return vals, ptrs
}

type cdMock struct {
	opts interface{}
}

func (m *cdMock) Configure() interface{} { return m.opts }
func (m *cdMock) result() *lint.LintResult {
	vals, ptrs := cdReport(m.opts)
	b, _ := json.Marshal(map[string]interface{}{"vals": vals, "ptrs": ptrs})
	return &lint.LintResult{Status: lint.Pass, Details: string(b)}
}

type cdCert struct{ cdMock }

func (m *cdCert) CheckApplies(*x509.Certificate) bool        { return true }
func (m *cdCert) Execute(*x509.Certificate) *lint.LintResult { return m.result() }

type cdCRL struct{ cdMock }

func (m *cdCRL) CheckApplies(*x509.RevocationList) bool        { return true }
func (m *cdCRL) Execute(*x509.RevocationList) *lint.LintResult { return m.result() }

type cdOCSP struct{ cdMock }

func (m *cdOCSP) CheckApplies(*ocsp.Response) bool        { return true }
func (m *cdOCSP) Execute(*ocsp.Response) *lint.LintResult { return m.result() }

var cdKinds = map[string]string{"e_verif_cfg_plain": "cert", "e_verif_cfg_gval": "cert", "e_verif_cfg_gptr": "cert", "e_verif_cfg_nested": "cert",
	"e_verif_cfg_crl": "crl", "e_verif_cfg_ocsp": "ocsp"}

func cdRegister() {
	md := func(n string) lint.LintMetadata {
		return lint.LintMetadata{Name: n, Description: "verif configuration mock", Citation: "verif", Source: lint.Community}
	}
	cert := func(n string, mk func() interface{}) {
		lint.RegisterCertificateLint(&lint.CertificateLint{LintMetadata: md(n), Lint: func() lint.CertificateLintInterface { return &cdCert{cdMock{mk()}} }})
	}
	cert("e_verif_cfg_plain", func() interface{} { return &cdPlain{} })
	cert("e_verif_cfg_gval", func() interface{} { return &cdGVal{} })
	cert("e_verif_cfg_gptr", func() interface{} { return &cdGPtr{} })
	cert("e_verif_cfg_nested", func() interface{} { return &cdNested{} })
	lint.RegisterRevocationListLint(&lint.RevocationListLint{LintMetadata: md("e_verif_cfg_crl"), Lint: func() lint.RevocationListLintInterface { return &cdCRL{cdMock{&cdOne{}}} }})
	lint.RegisterOcspResponseLint(&lint.OcspResponseLint{LintMetadata: md("e_verif_cfg_ocsp"), Lint: func() lint.OcspResponseLintInterface { return &cdOCSP{cdMock{&cdBare{}}} }})
}

type cdSection struct {
	K  string          `json:"k"`
	KV json.RawMessage `json:"kv"`
}

func (s cdSection) kv() map[string]string {
	m := map[string]string{}
	json.Unmarshal(s.KV, &m) // an empty function is printed as []
	return m
}

var cdRender = map[string][3]string{ // option -> def, new, bad
	"Value":   {"Value = 0", "Value = 7", "Value = \"seven\""},
	"Flag":    {"Flag = false", "Flag = true", "Flag = 3"},
	"Text":    {"Text = \"\"", "Text = \"x\"", "Text = 5"},
	"X":       {"X = 1", "X = 1", "X = 1"},
	"Unknown": {"Unknown = 1", "Unknown = 1", "Unknown = 1"},
}

func cdToml(doc map[string]cdSection) string {
	keys := []string{}
	for k := range doc {
		keys = append(keys, k)
	}
	sort.Strings(keys)
	var top, tables []string
	for _, k := range keys {
		s := doc[k]
		switch s.K {
		case "scalar":
			top = append(top, k+" = 5")
		case "array":
			top = append(top, k+" = [1, 2]")
		case "table":
			lines := []string{"[" + k + "]"}
			kv := s.kv()
			ok := []string{}
			for o := range kv {
				ok = append(ok, o)
			}
			sort.Strings(ok)
			var nested []string
			for _, o := range ok {
				idx := map[string]int{"def": 0, "new": 1, "bad": 2}[kv[o]]
				if o == "Inner.Depth" {
					switch idx {
					case 0:
						nested = append(nested, "["+k+".Inner]", "Depth = 0")
					case 1:
						nested = append(nested, "["+k+".Inner]", "Depth = 7")
					default:
						lines = append(lines, "Inner = 5")
					}
					continue
				}
				lines = append(lines, cdRender[o][idx])
			}
			tables = append(tables, strings.Join(append(lines, nested...), "\n"))
		}
	}
	return strings.Join(append(top, tables...), "\n") + "\n"
}

func cmdCfgDoc(args []string) {
	parseFlags(args)
	rng := rand.New(rand.NewSource(seed))
	cdRegister()
	var docs []map[string]cdSection
	var raws []json.RawMessage
	readExport(os.Getenv("VERIF_EXPORT"), func(inner string) {
		var x struct {
			Doc json.RawMessage `json:"doc"`
		}
		if json.Unmarshal([]byte(inner), &x) != nil {
			return
		}
		d := map[string]cdSection{}
		if string(x.Doc) != "[]" {
			if json.Unmarshal(x.Doc, &d) != nil {
				return
			}
		}
		docs, raws = append(docs, d), append(raws, x.Doc)
	})
	if len(docs) == 0 {
		fmt.Fprintln(os.Stderr, "no documents in VERIF_EXPORT")
		os.Exit(2)
	}
	c := corpus.Load()
	g := lint.GlobalRegistry()
	only, err := g.Filter(lint.FilterOptions{NameFilter: mustRe("^e_verif_cfg_")})
	if err != nil {
		panic(err)
	}
	// a second registry, made before any configuration is set: it must keep seeing the empty configuration
	bystander, _ := g.Filter(lint.FilterOptions{NameFilter: mustRe("^e_verif_cfg_")})
	cert, crl, oc := fromObj(c.Certs[0]), fromObj(c.CRLs[0]), fromObj(c.OCSPs[0])
	w := ev.Create(out("cfgdoc.ndjson"))
	observe := func(reg lint.Registry) []ev.M {
		obs := []ev.M{}
		for _, t := range []*Target{cert, crl, oc} {
			var rs *zlint.ResultSet
			esc := ""
			func() {
				defer func() {
					if p := recover(); p != nil {
						esc = fmt.Sprint(p)
					}
				}()
				rs, _, _ = runSet(t, reg)
			}()
			for n, k := range cdKinds {
				if k != t.Kind {
					continue
				}
				o := ev.M{"lint": n, "st": -1, "cls": "", "vals": map[string]string{}, "ptrs": []string{}, "escaped": esc != "" || rs == nil}
				if rs != nil && rs.Results[n] != nil {
					r := rs.Results[n]
					o["st"], o["cls"] = int(r.Status), detailsClass(n, r.Details)
					if r.Status == lint.Pass {
						var rep struct {
							Vals map[string]string `json:"vals"`
							Ptrs []string          `json:"ptrs"`
						}
						if json.Unmarshal([]byte(r.Details), &rep) == nil {
							o["vals"], o["ptrs"], o["cls"] = rep.Vals, rep.Ptrs, ""
							if rep.Ptrs == nil {
								o["ptrs"] = []string{}
							}
						}
					}
				}
				obs = append(obs, o)
			}
		}
		sort.Slice(obs, func(i, j int) bool { return obs[i]["lint"].(string) < obs[j]["lint"].(string) })
		return obs
	}
	order := rng.Perm(len(docs))
	runs, errs := 0, 0
	for _, di := range order {
		text := cdToml(docs[di])
		cfg, err := lint.NewConfigFromString(text)
		if err != nil {
			w.Emit(ev.M{"ev": "Unloadable", "doc": raws[di], "toml": text, "err": err.Error()})
			continue
		}
		only.SetConfiguration(cfg)
		obs := observe(only)
		for _, o := range obs {
			if o["st"].(int) != 3 {
				errs++
			}
		}
		w.Emit(ev.M{"ev": "Run", "docIs": "given", "doc": raws[di], "obs": obs, "toml": text})
		runs++
		if runs%97 == 0 && bystander != nil {
			w.Emit(ev.M{"ev": "Run", "docIs": "empty", "doc": json.RawMessage("{}"), "obs": observe(bystander), "toml": "(a registry filtered off before any configuration was set)"})
		}
	}
	// ---- the generated example configuration
	only.SetConfiguration(lint.NewEmptyConfig())
	ex, exErr := g.DefaultConfiguration()
	e := ev.M{"ev": "Example", "rendered": exErr == nil, "valid": false, "tables": map[string][]string{}, "nontables": []string{}, "configurable": []string{}}
	conf := []string{}
	for n := range cdKinds {
		conf = append(conf, n)
	}
	for _, k := range []string{"cert", "crl", "ocsp"} {
		for _, l := range lintsOf(g, k) {
			if l.Cfgable && cdKinds[l.Name] == "" {
				conf = append(conf, l.Name)
			}
		}
	}
	sort.Strings(conf)
	e["configurable"] = conf
	if exErr == nil {
		if tree, err := toml.LoadBytes(ex); err == nil {
			e["valid"] = true
			tables, non := map[string][]string{}, []string{}
			for _, k := range tree.Keys() {
				if sub, ok := tree.Get(k).(*toml.Tree); ok {
					ks := []string{}
					for _, sk := range sub.Keys() {
						if s2, ok := sub.Get(sk).(*toml.Tree); ok {
							for _, sk2 := range s2.Keys() {
								ks = append(ks, sk+"."+sk2)
							}
						} else {
							ks = append(ks, sk)
						}
					}
					sort.Strings(ks)
					tables[k] = ks
				} else {
					non = append(non, k)
				}
			}
			e["tables"], e["nontables"] = tables, non
		}
		w.Emit(e)
		if cfg, err := lint.NewConfigFromString(string(ex)); err == nil {
			only.SetConfiguration(cfg)
			w.Emit(ev.M{"ev": "Run", "docIs": "example", "doc": json.RawMessage("{}"), "obs": observe(only), "toml": "(the generated example)"})
			runs++
		}
	} else {
		w.Emit(e)
	}
	// ---- every option of every configurable lint of the registry (the tree's own ones, of all three kinds): a section that sets the
	// option to another value of its type must reach the instance that is about to run - what the lint hands out through Configure()
	// holds the new value after MaybeConfigure.  (An option that never reaches the instance cannot change the lint's behaviour.)
	reach := 0
	if exErr == nil {
		if tree, err := toml.LoadBytes(ex); err == nil {
			for _, k := range []string{"cert", "crl", "ocsp"} {
				for _, l := range lintsOf(g, k) {
					sub, ok := tree.Get(l.Name).(*toml.Tree)
					if !l.Cfgable || !ok {
						continue
					}
					for _, opt := range sub.Keys() {
						var lit string
						var want interface{}
						switch v := sub.Get(opt).(type) {
						case bool:
							lit, want = fmt.Sprint(!v), !v
						case int64:
							lit, want = fmt.Sprint(v+3), v+3
						case uint64:
							lit, want = fmt.Sprint(v+3), int64(v+3)
						case string:
							lit, want = fmt.Sprintf("%q", v+"x"), v+"x"
						default:
							continue
						}
						cfg, err := lint.NewConfigFromString(fmt.Sprintf("[%s]\n%s = %s\n", l.Name, opt, lit))
						if err != nil {
							continue
						}
						var inst interface{}
						switch k {
						case "cert":
							inst = l.C.Lint()
						case "crl":
							inst = l.R.Lint()
						default:
							inst = l.O.Lint()
						}
						e := ev.M{"ev": "Reach", "lint": l.Name, "kind": k, "option": opt, "configured": false, "reached": false, "got": ""}
						if cerr := cfg.MaybeConfigure(inst, l.Name); cerr == nil {
							e["configured"] = true
							if c2, ok := inst.(lint.Configurable); ok {
								rv := reflect.Indirect(reflect.ValueOf(c2.Configure()))
								if rv.Kind() == reflect.Struct {
									if f := rv.FieldByName(opt); f.IsValid() && f.CanInterface() {
										got := f.Interface()
										e["got"] = fmt.Sprint(got)
										switch w2 := want.(type) {
										case bool:
											e["reached"] = got == w2
										case int64:
											e["reached"] = fmt.Sprint(got) == fmt.Sprint(w2)
										case string:
											e["reached"] = got == w2
										}
									} else {
										e["reached"] = true // the option lives somewhere this probe cannot look: nothing is claimed
										e["got"] = "(not a field of the value handed out by Configure)"
									}
								} else {
									e["reached"] = true
								}
							}
						}
						w.Emit(e)
						reach++
					}
				}
			}
		}
	}
	w.Close()
	ev.WriteJSON(out("summary.json"), ev.M{"documents": len(docs), "runs": runs, "options_probed": reach, "observations_not_pass": errs, "sample": ev.M{"toml": cdToml(docs[len(docs)/2])}})
}

func mustRe(p string) *regexp.Regexp { return regexp.MustCompile(p) }

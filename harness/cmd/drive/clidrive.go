package main

import (
	"bytes"
	"encoding/base64"
	"encoding/json"
	"encoding/pem"
	"fmt"
	"os"
	"os/exec"
	"path/filepath"
	"reflect"
	"regexp"
	"sort"
	"strconv"
	"strings"

	"github.com/zmap/zlint/v3/lint"
	"verif/harness/internal/corpus"
	"verif/harness/internal/ev"
)

type cliItem struct {
	Obj     string `json:"obj"`
	Enc     string `json:"enc"`
	Corrupt string `json:"corrupt"`
	Suffix  string `json:"suffix"`
}
type cliScn struct {
	Fmt    string    `json:"fmt"`
	Chan   string    `json:"chan"`
	Inputs []cliItem `json:"inputs"`
	Sel    string    `json:"sel"`
	Cfg    string    `json:"cfg"`
	Mode   string    `json:"mode"`
}

func encodeItem(it cliItem, der []byte) []byte {
	typ := "CERTIFICATE"
	if it.Obj == "crl" {
		typ = "X509 CRL"
	}
	if it.Corrupt == "empty" {
		return []byte{}
	}
	if it.Corrupt == "truncated" {
		der = der[:len(der)/2]
	}
	switch it.Enc {
	case "pem":
		if it.Corrupt == "wrongtype" {
			typ = "PRIVATE KEY"
		}
		b := pem.EncodeToMemory(&pem.Block{Type: typ, Bytes: der})
		if it.Corrupt == "badarmor" {
			b = bytes.Replace(b, []byte("-----BEGIN"), []byte("----BEGIN"), 1)
		}
		return b
	case "der":
		return der
	default:
		s := base64.StdEncoding.EncodeToString(der)
		if it.Corrupt == "badb64" {
			s = s[:len(s)/2] + "!*!" + s[len(s)/2:]
		}
		return []byte(s)
	}
}

var tableRow = regexp.MustCompile(`^\|\s*(info|warn|error|fatal)\s*\|\s*(\d+)\s*\|`)

// cmdCLI: C15. Every exported scenario of CLI.tla is concretised on corpus objects and run through the real binary.
func cmdCLI(args []string) {
	parseFlags(args)
	cli := os.Getenv("VERIF_CLI")
	var scns []cliScn
	readExport(os.Getenv("VERIF_EXPORT"), func(inner string) {
		var x struct {
			Scn cliScn `json:"scn"`
		}
		if json.Unmarshal([]byte(inner), &x) == nil {
			scns = append(scns, x.Scn)
		}
	})
	c := corpus.Load()
	work := out("work")
	os.MkdirAll(work, 0o755)
	okCfg := filepath.Join(work, "ok.toml")
	os.WriteFile(okCfg, []byte("[e_rsa_fermat_factorization]\nRounds = 0\n\n[e_subj_orgunit_in_ca_cert]\nCrossCert = true\n\n[e_crl_next_update_invalid]\nSubscriberCRL = false\n\n[verif_unrelated]\nx = 1\n"), 0o644)
	badCfg := filepath.Join(work, "bad.toml")
	os.WriteFile(badCfg, []byte("[[[ this is not toml\n"), 0o644)
	g := lint.GlobalRegistry()
	names := g.Names()
	reps := 1
	if tier == "thorough" {
		reps = 8
	}
	w := ev.Create(out("cli.ndjson"))
	classes := map[string]bool{}
	launches := 0
	// certificates whose encoding has an awkward edge: the DER ends in a byte that reads as white space in a text format
	var edge []*corpus.Obj
	for _, o := range c.Certs {
		if last := o.DER[len(o.DER)-1]; last == ' ' || (last >= 0x09 && last <= 0x0d) {
			edge = append(edge, o)
		}
	}
	hostile := hostileDetailObjs(c)
	// certificates on which the configuration file of the "ok" scenarios changes a verdict (found by linting both ways)
	var cfgSensitive []*corpus.Obj
	if okc, err := lint.NewConfigFromFile(okCfg); err == nil {
		for _, o := range c.Certs {
			g.SetConfiguration(lint.NewEmptyConfig())
			a, _, _ := runSet(fromObj(o), g)
			g.SetConfiguration(okc)
			b, _, _ := runSet(fromObj(o), g)
			g.SetConfiguration(lint.NewEmptyConfig())
			if a == nil || b == nil {
				continue
			}
			for n, r := range a.Results {
				if r2 := b.Results[n]; r2 != nil && r != nil && (r2.Status != r.Status || r2.Details != r.Details) {
					cfgSensitive = append(cfgSensitive, o)
					break
				}
			}
		}
	}
	for si, s := range scns {
		nrep := reps
		intact := len(edge) > 0
		for _, it := range s.Inputs {
			if it.Corrupt != "none" {
				intact = false
			}
		}
		if intact && s.Sel == "none" && s.Cfg == "none" {
			nrep++ // one more run of the reading scenarios, on an edge-shaped certificate
			if len(hostile) > 0 {
				nrep++ // and one on a certificate whose details carry awkward text (per-cent signs, quotes, mark-up, invalid UTF-8)
			}
		}
		for rep := 0; rep < nrep; rep++ {
			k := si*7 + rep*131 + int(seed)*17
			certObj, crlObj := c.Certs[k%len(c.Certs)], c.CRLs[k%len(c.CRLs)]
			if rep == reps {
				certObj = edge[k%len(edge)]
			}
			if rep == reps+1 {
				certObj = hostile[k%len(hostile)]
			}
			if s.Cfg == "ok" && len(cfgSensitive) > 0 {
				certObj = cfgSensitive[k%len(cfgSensitive)] // the configuration must be seen to matter
			}
			// ---- selection
			var flags []string
			var fo lint.FilterOptions
			n1, n2 := names[k%len(names)], names[(k*3+5)%len(names)]
			switch s.Sel {
			case "incSources":
				flags = append(flags, "-includeSources", "RFC5280, CABF_BR")
				fo.IncludeSources = lint.SourceList{lint.RFC5280, lint.CABFBaselineRequirements}
			case "excSources":
				flags = append(flags, "-excludeSources", "Community,Mozilla")
				fo.ExcludeSources = lint.SourceList{lint.Community, lint.MozillaRootStorePolicy}
			case "incNames":
				flags = append(flags, "-includeNames", n1+" , "+n2+",e_crl_has_next_update")
				fo.IncludeNames = []string{n1, n2, "e_crl_has_next_update"}
			case "excNames":
				flags = append(flags, "-excludeNames", " "+n1+","+n2)
				fo.ExcludeNames = []string{n1, n2}
			case "nameFilter":
				flags = append(flags, "-nameFilter", "^e_|crl")
				fo.NameFilter = regexp.MustCompile("^e_|crl")
			case "unknownName":
				flags = append(flags, "-includeNames", n1+",e_no_such_lint")
			case "unknownSource":
				flags = append(flags, "-excludeSources", "RFC5280,NoSuchSource")
			case "badRegexp":
				flags = append(flags, "-nameFilter", "e_(")
			case "filterAndNames":
				flags = append(flags, "-nameFilter", "^e_", "-excludeNames", n1)
			case "unknownProfile":
				flags = append(flags, "-profile", "no_such_profile")
			case "emptyName":
				flags = append(flags, "-includeNames", " , ")
			case "emptyNameAmongNames":
				flags = append(flags, "-excludeNames", n1+",")
			}
			cfg := lint.NewEmptyConfig()
			switch s.Cfg {
			case "ok":
				flags = append(flags, "-config", okCfg)
				cfg, _ = lint.NewConfigFromFile(okCfg)
			case "missing":
				flags = append(flags, "-config", filepath.Join(work, "does-not-exist.toml"))
			case "badtoml":
				flags = append(flags, "-config", badCfg)
			}
			switch s.Mode {
			case "pretty":
				flags = append(flags, "-pretty")
			case "summary":
				flags = append(flags, "-summary")
			case "longSummary":
				flags = append(flags, "-longSummary")
			case "bothSummaries":
				flags = append(flags, "-summary", "-longSummary")
			}
			flags = append(flags, "-format", s.Fmt)
			// ---- inputs
			var stdin []byte
			var ders [][]byte
			var kinds []string
			for ii, it := range s.Inputs {
				der := certObj.DER
				if it.Obj == "crl" {
					der = crlObj.DER
				}
				ders, kinds = append(ders, der), append(kinds, it.Obj)
				content := encodeItem(it, der)
				if s.Chan == "stdin" {
					stdin = content
				} else {
					ext := ".txt"
					if it.Suffix != "none" {
						ext = "." + it.Suffix
					}
					p := filepath.Join(work, fmt.Sprintf("in_%d_%d_%d%s", si, rep, ii, ext))
					os.WriteFile(p, content, 0o644)
					flags = append(flags, p)
				}
			}
			cmd := exec.Command(cli, flags...)
			if s.Chan == "stdin" {
				cmd.Stdin = bytes.NewReader(stdin)
			}
			var so, se bytes.Buffer
			cmd.Stdout, cmd.Stderr = &so, &se
			err := cmd.Run()
			launches++
			exit := 0
			if err != nil {
				exit = 1
				if ee, ok := err.(*exec.ExitError); ok {
					exit = ee.ExitCode()
				}
			}
			// ---- what the library computes with the same selection
			g.SetConfiguration(cfg)
			var libReg lint.Registry = g
			libOK := true
			if !fo.Empty() {
				r, e2 := g.Filter(fo)
				if e2 != nil {
					libOK = false
				} else {
					libReg = r
				}
			}
			var libSets []map[string]interface{}
			var libCounts []map[string]int
			var libNames []map[string][]string
			var libStatuses [][]int // per input: the status ordinals of the library's results (empty when there is no result set)
			for ii := range ders {
				t := &Target{Kind: kinds[ii], DER: ders[ii]}
				ok := false
				if kinds[ii] == "cert" {
					t.Cert, ok, _ = corpus.ParseCert(ders[ii])
				} else {
					t.CRL, ok, _ = corpus.ParseCRL(ders[ii])
				}
				if !ok || !libOK {
					libSets, libCounts, libNames = append(libSets, nil), append(libCounts, nil), append(libNames, nil)
					libStatuses = append(libStatuses, []int{})
					continue
				}
				rs, _, _ := runSet(t, libReg)
				b, _ := json.Marshal(rs.Results)
				var dec map[string]interface{}
				json.Unmarshal(b, &dec)
				libSets = append(libSets, dec)
				cnt := map[string]int{"info": 0, "warn": 0, "error": 0, "fatal": 0}
				nm := map[string][]string{}
				for name, r := range rs.Results {
					if _, ok := cnt[r.Status.String()]; ok {
						cnt[r.Status.String()]++
						nm[r.Status.String()] = append(nm[r.Status.String()], name)
					}
				}
				libCounts, libNames = append(libCounts, cnt), append(libNames, nm)
				sts := []int{}
				for _, r := range rs.Results {
					sts = append(sts, int(r.Status))
				}
				sort.Ints(sts)
				libStatuses = append(libStatuses, sts)
			}
			g.SetConfiguration(lint.NewEmptyConfig())
			// ---- observed output
			printed, match, junk := 0, true, false
			tablesEv := []ev.M{} // the parsed tables with the input they belong to: judged by Summary!TableReasons in the trace
			if s.Mode == "json" || s.Mode == "pretty" {
				dec := json.NewDecoder(bytes.NewReader(so.Bytes()))
				for {
					var v map[string]interface{}
					if e3 := dec.Decode(&v); e3 != nil {
						if e3.Error() != "EOF" {
							junk = true
						}
						break
					}
					if printed < len(libSets) && !reflect.DeepEqual(v, libSets[printed]) {
						match = false
					}
					printed++
				}
			} else {
				// tables: one per input (two with both summary flags); each must have exactly the four level rows, in order, with the
				// library's counts, and - in the long form - exactly the names of the lints that reported that level
				per := 1
				if s.Mode == "bothSummaries" {
					per = 2
				}
				tables := parseTables(so.String())
				printed = len(tables) / per
				if len(tables)%per != 0 {
					junk = true
				}
				for ti, tb := range tables {
					ii := ti / per
					if ii >= len(libCounts) || libCounts[ii] == nil {
						match = false // a table for an input that has no result set
						continue
					}
					nl := make([]int, len(tb.names))
					for k := range tb.names {
						nl[k] = len(tb.names[k])
					}
					lv, cn := tb.levels, tb.counts
					if lv == nil {
						lv, cn = []string{}, []int{}
					}
					tablesEv = append(tablesEv, ev.M{"input": ii + 1, "long": tb.long, "levels": lv, "counts": cn, "nlines": nl, "namesOK": tb.namesOK(libNames[ii])})
				}
			}
			if printed > len(libSets) {
				match = false
			}
			libSts := [][]int{}
			for ii := range libStatuses {
				libSts = append(libSts, libStatuses[ii])
			}
			e := ev.M{"ev": "CLI", "scn": s, "exitObs": exit, "printedObs": printed, "match": match, "junk": junk, "tables": tablesEv, "libSts": libSts,
				"stderr": firstLine(se.String()), "objects": []string{certObj.ID, crlObj.ID}}
			w.Emit(e)
			outcome := "ok"
			if exit != 0 {
				outcome = "fail"
			}
			classes[fmt.Sprintf("%s|%s|%s|%s|%s|%d", s.Fmt, s.Chan, s.Sel, s.Cfg, s.Mode, len(s.Inputs))+"|"+outcome] = true
		}
	}
	// ---- PEM input holding several blocks (a leaf followed by its issuer, a certificate followed by a CRL): the first block is
	// a parseable certificate, so its results must be what the tool reports first - through a file, through standard input,
	// as a result object and as a summary.  (Whether more is printed for the further blocks is not promised: fidelity.)
	nb := 6
	if tier == "thorough" {
		nb = 40
	}
	for k := 0; k < nb; k++ {
		a, b := c.Certs[(k*53+int(seed)*7)%len(c.Certs)], c.Certs[(k*101+int(seed)*11+1)%len(c.Certs)]
		second, secondKind := pemEncode("CERTIFICATE", b.DER), "cert"
		if k%3 == 2 {
			second, secondKind = pemEncode("X509 CRL", c.CRLs[k%len(c.CRLs)].DER), "crl"
		}
		bundle := append(append([]byte{}, pemEncode("CERTIFICATE", a.DER)...), second...)
		g.SetConfiguration(lint.NewEmptyConfig())
		rs, _, _ := runSet(fromObj(a), g)
		if rs == nil {
			continue
		}
		lb, _ := json.Marshal(rs.Results)
		var want map[string]interface{}
		json.Unmarshal(lb, &want)
		sts := []int{}
		for _, r := range rs.Results {
			sts = append(sts, int(r.Status))
		}
		sort.Ints(sts)
		for _, how := range []string{"file", "stdin", "file-summary"} {
			args := []string{"-format", "pem"}
			var stdin []byte
			if how == "stdin" {
				stdin = bundle
			} else {
				p := filepath.Join(work, fmt.Sprintf("bundle_%d.pem", k))
				os.WriteFile(p, bundle, 0o644)
				if how == "file-summary" {
					args = append(args, "-summary")
				}
				args = append(args, p)
			}
			cmd := exec.Command(cli, args...)
			if stdin != nil {
				cmd.Stdin = bytes.NewReader(stdin)
			}
			var so, se bytes.Buffer
			cmd.Stdout, cmd.Stderr = &so, &se
			err := cmd.Run()
			launches++
			e := ev.M{"ev": "CLIBundle", "how": how, "second": secondKind, "exitObs": 0, "printedObs": 0, "firstMatches": false, "tables": []ev.M{}, "libSts": [][]int{sts},
				"objects": []string{a.ID, b.ID}, "stderr": firstLine(se.String())}
			if err != nil {
				e["exitObs"] = 1
			}
			if how == "file-summary" {
				tbs := parseTables(so.String())
				e["printedObs"] = len(tbs)
				if len(tbs) > 0 {
					tb := tbs[0]
					nl := make([]int, len(tb.names))
					lv, cn := tb.levels, tb.counts
					if lv == nil {
						lv, cn = []string{}, []int{}
					}
					e["tables"] = []ev.M{{"input": 1, "long": false, "levels": lv, "counts": cn, "nlines": nl, "namesOK": true}}
					e["firstMatches"] = true // judged through the table
				}
			} else {
				dec := json.NewDecoder(bytes.NewReader(so.Bytes()))
				n := 0
				for {
					var v map[string]interface{}
					if dec.Decode(&v) != nil {
						break
					}
					if n == 0 {
						e["firstMatches"] = reflect.DeepEqual(v, want)
					}
					n++
				}
				e["printedObs"] = n
			}
			w.Emit(e)
			classes["bundle|"+how+"|"+secondKind] = true
		}
	}
	w.Close()
	os.RemoveAll(work)
	ev.WriteJSON(out("summary.json"), ev.M{"scenarios": len(scns), "launches": launches, "classes": len(classes), "sample": scns[len(scns)/2]})
}

type cliTable struct {
	long   bool
	levels []string
	counts []int
	names  [][]string
}

var tableCont = regexp.MustCompile(`^\|\s*\|\s*\|\s*(\S+)\s*\|`)
var tableRowLong = regexp.MustCompile(`^\|\s*(info|warn|error|fatal)\s*\|\s*(\d+)\s*\|\s*(\S+)\s*\|`)

func parseTables(out string) []*cliTable {
	var tables []*cliTable
	var cur *cliTable
	for _, ln := range strings.Split(out, "\n") {
		if strings.HasPrefix(ln, "| LEVEL") {
			cur = &cliTable{long: strings.Contains(ln, "DETAILS")}
			tables = append(tables, cur)
			continue
		}
		if cur == nil {
			continue
		}
		if m := tableRowLong.FindStringSubmatch(ln); m != nil && cur.long {
			n, _ := strconv.Atoi(m[2])
			cur.levels, cur.counts = append(cur.levels, m[1]), append(cur.counts, n)
			if m[3] == "-" {
				cur.names = append(cur.names, nil)
			} else {
				cur.names = append(cur.names, []string{m[3]})
			}
		} else if m := tableRow.FindStringSubmatch(ln); m != nil {
			n, _ := strconv.Atoi(m[2])
			cur.levels, cur.counts, cur.names = append(cur.levels, m[1]), append(cur.counts, n), append(cur.names, nil)
		} else if m := tableCont.FindStringSubmatch(ln); m != nil && cur.long && len(cur.names) > 0 {
			cur.names[len(cur.names)-1] = append(cur.names[len(cur.names)-1], m[1])
		}
	}
	return tables
}

// namesOK: every detail line of the long form names - possibly cut to the column width - a lint that has that level.
// (A fact about strings; levels, counts and line numbers are judged by Summary.tla.)
func (t *cliTable) namesOK(names map[string][]string) bool {
	for i, lv := range t.levels {
		if i >= len(t.names) {
			break
		}
		for _, shown := range t.names[i] {
			found := false
			for _, full := range names[lv] {
				if strings.HasPrefix(full, shown) {
					found = true
				}
			}
			if !found {
				return false
			}
		}
	}
	return true
}

func firstLine(s string) string {
	if i := strings.IndexByte(s, '\n'); i >= 0 {
		s = s[:i]
	}
	if len(s) > 200 {
		s = s[:200]
	}
	return s
}

package main

import (
	"bytes"
	"encoding/json"
	"fmt"
	"github.com/zmap/zlint/v3/formattedoutput"
	"math/rand"
	"os"
	"os/exec"
	"reflect"
	"regexp"
	"strings"

	zlint "github.com/zmap/zlint/v3"
	"github.com/zmap/zlint/v3/lint"
	"verif/harness/internal/corpus"
	"verif/harness/internal/ev"
)

// repair is what JSON does to bytes that are not valid UTF-8: one U+FFFD per offending byte.
func repair(s string) string { return string([]rune(s)) }

func roundTrip(id string, rs *zlint.ResultSet) ev.M {
	m := ev.M{"ev": "RoundTrip", "id": id, "marshalOK": false, "unmarshalOK": false, "sameKeys": false, "sameStatus": false,
		"sameDetails": false, "sameFlags": false, "stable": false, "lints": len(rs.Results), "nonASCII": 0, "distinctStatuses": 0}
	b, err := json.Marshal(rs)
	if err != nil {
		return m
	}
	m["marshalOK"] = true
	var back zlint.ResultSet
	if err := json.Unmarshal(b, &back); err != nil {
		m["err"] = err.Error()
		return m
	}
	m["unmarshalOK"] = true
	sameKeys, sameStatus, sameDetails := len(back.Results) == len(rs.Results), true, true
	nonASCII := 0
	distinct := map[lint.LintStatus]bool{}
	for k, r := range rs.Results {
		distinct[r.Status] = true
		if r.Details != repair(r.Details) || strings.IndexFunc(r.Details, func(c rune) bool { return c > 127 }) >= 0 {
			nonASCII++
		}
		br, ok := back.Results[k]
		if !ok || br == nil {
			sameKeys = false
			continue
		}
		if br.Status != r.Status {
			sameStatus = false
		}
		if br.Details != repair(r.Details) {
			sameDetails = false
		}
	}
	m["sameKeys"], m["sameStatus"], m["sameDetails"] = sameKeys, sameStatus, sameDetails
	m["sameFlags"] = back.NoticesPresent == rs.NoticesPresent && back.WarningsPresent == rs.WarningsPresent &&
		back.ErrorsPresent == rs.ErrorsPresent && back.FatalsPresent == rs.FatalsPresent && back.Version == rs.Version && back.Timestamp == rs.Timestamp
	b2, err := json.Marshal(&back)
	var back2 zlint.ResultSet
	m["stable"] = err == nil && json.Unmarshal(b2, &back2) == nil && reflect.DeepEqual(back, back2)
	m["nonASCII"], m["distinctStatuses"] = nonASCII, len(distinct)
	return m
}

func listing(id string, r lint.Registry) ev.M {
	var buf bytes.Buffer
	r.WriteJSON(&buf)
	return listingOf(id, r, buf.Bytes())
}

// listingOf judges a listing (from WriteJSON, or printed by the tool's -list-lints-json) against the registry it describes.
func listingOf(id string, r lint.Registry, text []byte) ev.M {
	buf := bytes.NewBuffer(text)
	// what is expected: one line per registered lint of every kind - as a multiset of (name, description, citation, source),
	// because a name need only be unique within its kind
	want := map[string]int{}
	registered := 0
	for _, k := range []string{"cert", "crl", "ocsp"} {
		for _, l := range lintsOf(r, k) {
			want[l.Name+"\x00"+l.Meta.Description+"\x00"+l.Meta.Citation+"\x00"+string(l.Meta.Source)]++
			registered++
		}
	}
	lines, matched := 0, 0
	allDecode, allMatch, allKnown := true, true, true
	for _, ln := range bytes.Split(buf.Bytes(), []byte("\n")) {
		if len(bytes.TrimSpace(ln)) == 0 {
			continue
		}
		lines++
		var raw map[string]json.RawMessage
		if err := json.Unmarshal(ln, &raw); err != nil {
			allDecode = false
			continue
		}
		var name, desc, cit string
		json.Unmarshal(raw["name"], &name)
		json.Unmarshal(raw["description"], &desc)
		json.Unmarshal(raw["citation"], &cit)
		var src lint.LintSource
		if err := json.Unmarshal(raw["source"], &src); err != nil {
			allKnown = false
		}
		key := name + "\x00" + desc + "\x00" + cit + "\x00" + string(src)
		if want[key] > 0 {
			want[key]--
			matched++
		} else {
			allMatch = false // a line that is no registered lint's (or one lint listed once too often)
		}
	}
	return ev.M{"ev": "Listing", "id": id, "lines": lines, "registered": registered, "allDecode": allDecode, "allMatch": allMatch,
		"allSourcesKnown": allKnown, "distinctNames": matched}
}

// failingWriter accepts `left` bytes and then fails (or, with short, reports a short write without an error).
type failingWriter struct {
	left  int
	short bool
}

func (f *failingWriter) Write(p []byte) (int, error) {
	if len(p) <= f.left {
		f.left -= len(p)
		return len(p), nil
	}
	n := f.left
	f.left = 0
	if f.short {
		return n, nil
	}
	return n, fmt.Errorf("write: broken pipe")
}

// cmdCodec: C14.
func cmdCodec(args []string) {
	parseFlags(args)
	rng := rand.New(rand.NewSource(seed))
	w := ev.Create(out("codec.ndjson"))
	// a process that prints summaries (the code behind -summary / -longSummary) before it encodes and decodes
	if devnull, err := os.OpenFile(os.DevNull, os.O_WRONLY, 0); err == nil {
		saved := os.Stdout
		os.Stdout = devnull
		func() {
			defer func() { recover() }()
			rs := &zlint.ResultSet{Version: 3, Results: map[string]*lint.LintResult{"e_x": {Status: lint.Error}, "w_y": {Status: lint.Warn}, "n_z": {Status: lint.Notice}, "e_p": {Status: lint.Pass}, "e_f": {Status: lint.Fatal}}}
			formattedoutput.OutputSummary(rs, false)
			formattedoutput.OutputSummary(rs, true)
		}()
		os.Stdout = saved
		devnull.Close()
	}
	for s := -1; s <= 9; s++ {
		st := lint.LintStatus(s)
		b, err := json.Marshal(st)
		var js string
		json.Unmarshal(b, &js)
		w.Emit(ev.M{"ev": "Label", "status": s, "label": st.String(), "marshalOK": err == nil, "json": js})
	}
	tokens := []string{"reserved", "NA", "NE", "pass", "info", "warn", "error", "fatal",
		"Reserved", "na", "ne", "Pass", "PASS", "INFO", "notice", "Notice", "warning", "Warn", "WARN", "err", "Error", "ERROR", "Fatal", "FATAL",
		"", " ", " warn", "warn ", "warn\n", "w", "warnx", "xwarn", "pass,fail", "fail", "failure", "ok", "true", "false", "null", "nil",
		"0", "1", "3", "7", "8", "-1", "NaN", "N/A", "N.A.", "not applicable", "not effective", "passed", "errors", "fatals", "érror", "ｗarn"}
	for _, t := range tokens {
		jb, _ := json.Marshal(t)
		var st lint.LintStatus = -5
		err := json.Unmarshal(jb, &st)
		w.Emit(ev.M{"ev": "Decode", "token": t, "form": "string", "accepted": err == nil, "value": int(st)})
		// inside a result object, as a consumer would meet it
		var lr lint.LintResult
		err = json.Unmarshal([]byte(`{"result":`+string(jb)+`}`), &lr)
		w.Emit(ev.M{"ev": "Decode", "token": t, "form": "in-result", "accepted": err == nil, "value": int(lr.Status)})
	}
	// ---- result sets: corpus, plus hostile details through a mock lint
	c := corpus.Load()
	objs := loadTargets(c)
	g := lint.GlobalRegistry()
	registerMock(mockSpec{Name: "e_verif_cert_details", Kind: "cert", Source: lint.Community})
	registerMock(mockSpec{Name: "w_verif_cert_details2", Kind: "cert", Source: lint.Community})
	hostile := []string{"\xff", "abc\xc3", "\xc3\x28", "\xe2\x82", "café ☃ \U0001F600", "tab\tnewline\nquote\"backslash\\", "\x00\x01\x1f", "<script>&amp;</script>",
		"\xed\xa0\x80", "\xf0\x28\x8c\x28", strings.Repeat("\xff\xfe", 50), "  ", "plain"}
	nontriv := 0
	stride := 3
	if tier == "thorough" {
		stride = 1
	}
	regs := []lint.Registry{g}
	r2, _ := g.Filter(lint.FilterOptions{NameFilter: regexp.MustCompile("verif|dns|crl|ocsp")})
	if r2 != nil {
		regs = append(regs, r2)
	} else {
		regs = append(regs, g)
	}
	n := 0
	for i, t := range objs {
		if i%stride != int(seed)%stride && t.Kind == "cert" {
			continue
		}
		var plan *mockPlan
		if t.Kind == "cert" {
			cp := *t.Cert
			t = &Target{Kind: "cert", ID: t.ID, DER: t.DER, Cert: &cp}
			plan = &mockPlan{Outcome: map[string]int{"e_verif_cert_details": 6, "w_verif_cert_details2": 5},
				Details: map[string]string{"e_verif_cert_details": hostile[rng.Intn(len(hostile))], "w_verif_cert_details2": hostile[i%len(hostile)]}}
			mockPlans.Store(t.Cert, plan)
		}
		rs, esc, _ := runSet(t, regs[i%2])
		if rs == nil || esc != "" {
			continue
		}
		e := roundTrip(t.ID, rs)
		if e["nonASCII"].(int) > 0 || e["distinctStatuses"].(int) >= 3 {
			nontriv++
		}
		w.Emit(e)
		n++
	}
	// a result set holding every status value a lint could store
	all := &zlint.ResultSet{Version: 3, Results: map[string]*lint.LintResult{}}
	for s := 0; s <= 7; s++ {
		all.Results[fmt.Sprintf("e_status_%d", s)] = &lint.LintResult{Status: lint.LintStatus(s), Details: hostile[s]}
	}
	all.NoticesPresent, all.WarningsPresent, all.ErrorsPresent, all.FatalsPresent = true, true, true, true
	w.Emit(roundTrip("all-statuses", all))
	// ---- listings
	w.Emit(listing("global", g))
	// a registry that has been listed and then grows: the next listing has a line for every lint again, of every kind
	for _, ms := range []mockSpec{{Name: "e_verif_late_crl", Kind: "crl", Source: lint.RFC5280}, {Name: "e_verif_late_ocsp", Kind: "ocsp", Source: lint.RFC6960},
		{Name: "e_verif_late_cert", Kind: "cert", Source: lint.RFC5280}} {
		registerMock(ms)
		w.Emit(listing("global-after-registering-"+ms.Name, g))
	}
	for i, o := range []lint.FilterOptions{{IncludeSources: lint.SourceList{lint.RFC5280}}, {NameFilter: regexp.MustCompile("crl|ocsp")},
		{ExcludeSources: lint.SourceList{lint.CABFBaselineRequirements}}, {IncludeSources: lint.SourceList{lint.RFC6960}}} {
		if r, err := g.Filter(o); err == nil {
			w.Emit(listing(fmt.Sprintf("filtered%d", i), r))
		}
	}
	// a listing that was cut off (a writer that fails or writes short, as a closed pipe does) must not leak into the next one
	for round, cut := range []int{300, 1, 4097, 70000, 300} {
		for _, short := range []bool{false, true} {
			func() {
				defer func() { recover() }()
				g.WriteJSON(&failingWriter{left: cut, short: short})
			}()
			w.Emit(listing(fmt.Sprintf("global-after-a-listing-cut-at-%d-short=%v-round%d", cut, short, round), g))
			if r2 != nil {
				w.Emit(listing(fmt.Sprintf("filtered-after-a-listing-cut-at-%d-short=%v-round%d", cut, short, round), r2))
			}
		}
	}
	// ---- the tool's own JSON: what it prints for an object must decode to what the library computed (details with awkward
	// text included), and its -list-lints-json must be the listing of the registry.  The driver registered mock lints above, which
	// the tool does not have, so the tool's listing is compared with a registry filtered back to the tool's lints.
	cliRuns, cliAwkward := 0, 0
	if cli := os.Getenv("VERIF_CLI"); cli != "" {
		work := out("cliwork")
		os.MkdirAll(work, 0o755)
		hows := []string{"der-file", "der-stdin", "pem-file"}
		var toolReg lint.Registry = g
		if own, err2 := g.Filter(lint.FilterOptions{NameFilter: regexp.MustCompile("^[ewn]_(verif_|status_)")}); err2 == nil && len(own.Names()) > 0 {
			if tr, err3 := g.Filter(lint.FilterOptions{ExcludeNames: own.Names()}); err3 == nil {
				toolReg = tr
			}
		}
		hs := hostileDetailObjs(c)
		k := 0
		for _, o := range hs {
			for _, how := range hows {
				if e := cliJSON(cli, work, toolReg, fromObj(o), how, k); e != nil {
					w.Emit(ev.M(e))
					cliRuns++
					cliAwkward += e["awkward"].(int)
				}
				k++
			}
		}
		step := 40
		if tier == "thorough" {
			step = 6
		}
		for i := int(seed) % step; i < len(objs); i += step {
			if objs[i].Kind == "ocsp" {
				continue
			}
			how := hows[(i/step)%3]
			if objs[i].Kind == "crl" {
				how = "pem-file"
			}
			if e := cliJSON(cli, work, toolReg, objs[i], how, k); e != nil {
				w.Emit(ev.M(e))
				cliRuns++
			}
			k++
		}
		if outb, err := exec.Command(cli, "-list-lints-json").Output(); err == nil {
			// (the listing is taken after the driver registered its late mock lints: filter them out again)
			tool := toolReg
			if own, err2 := g.Filter(lint.FilterOptions{NameFilter: regexp.MustCompile("^[ewn]_(verif_|status_)")}); err2 == nil && len(own.Names()) > 0 {
				if tr, err3 := g.Filter(lint.FilterOptions{ExcludeNames: own.Names()}); err3 == nil {
					tool = tr
				}
			}
			w.Emit(listingOf("tool -list-lints-json", tool, outb))
		}
		os.RemoveAll(work)
	}
	// last of all (it makes the registry one that Filter can no longer copy): one name in two kinds - the registry only asks for
	// names to be unique within a kind - and each of the two lints still has its own line
	for _, ms := range []mockSpec{{Name: "e_verif_late_cert", Kind: "crl", Source: lint.Community}, {Name: "e_verif_cert_details", Kind: "ocsp", Source: lint.RFC6960}} {
		registerMock(ms)
		w.Emit(listing("global-with-the-name-"+ms.Name+"-in-two-kinds", g))
	}
	total := w.N
	w.Close()
	_ = reflect.DeepEqual
	ev.WriteJSON(out("summary.json"), ev.M{"events": total, "roundtrips": n + 1, "nontrivial": nontriv, "tokens": len(tokens), "cli_runs": cliRuns, "cli_awkward_details": cliAwkward,
		"sample": ev.M{"ev": "Decode", "token": "warning", "form": "string"}})
}

package main

import (
	"encoding/base64"
	"flag"
	"fmt"
	"os"
	"path/filepath"
	"reflect"
	"runtime"
	"sort"
	"strings"
	"sync"
	"time"

	"github.com/zmap/zcrypto/x509"
	"github.com/zmap/zlint/v3/lint"
	"golang.org/x/crypto/ocsp"
	"verif/harness/internal/corpus"
	"verif/harness/internal/ev"
	"verif/harness/internal/spy"
)

var (
	outDir string
	tier   string
	seed   int64
	replay string
	only   string
)

func parseFlags(args []string) {
	fs := flag.NewFlagSet("drive", flag.ExitOnError)
	fs.StringVar(&outDir, "out", "", "output directory")
	fs.StringVar(&tier, "tier", "quick", "quick|thorough")
	fs.Int64Var(&seed, "seed", 1, "seed")
	fs.StringVar(&replay, "replay", "", "replay file")
	fs.StringVar(&only, "only", "", "restrict to the object with this id")
	fs.Parse(args)
	if outDir == "" {
		fmt.Fprintln(os.Stderr, "need -out")
		os.Exit(2)
	}
	os.MkdirAll(outDir, 0o755)
}

func out(name string) string { return filepath.Join(outDir, name) }

// LintRec is one registered lint of any kind, with its runtime metadata.
type LintRec struct {
	Name, Kind, Source string
	Meta               lint.LintMetadata
	Cfgable            bool
	C                  *lint.CertificateLint
	R                  *lint.RevocationListLint
	O                  *lint.OcspResponseLint
}

func lintsOf(reg lint.Registry, kind string) []LintRec {
	var out []LintRec
	switch kind {
	case "cert":
		for _, l := range reg.CertificateLints().Lints() {
			_, c := l.Lint().(lint.Configurable)
			out = append(out, LintRec{Name: l.Name, Kind: kind, Source: string(l.Source), Meta: l.LintMetadata, Cfgable: c, C: l})
		}
	case "crl":
		for _, l := range reg.RevocationListLints().Lints() {
			_, c := l.Lint().(lint.Configurable)
			out = append(out, LintRec{Name: l.Name, Kind: kind, Source: string(l.Source), Meta: l.LintMetadata, Cfgable: c, R: l})
		}
	case "ocsp":
		for _, l := range reg.OcspResponseLints().Lints() {
			_, c := l.Lint().(lint.Configurable)
			out = append(out, LintRec{Name: l.Name, Kind: kind, Source: string(l.Source), Meta: l.LintMetadata, Cfgable: c, O: l})
		}
	}
	return out
}

func metaEvent(kind string, ls []LintRec) ev.M {
	names, src, eff, ineff, cfgable := []string{}, []string{}, [][]int64{}, [][]int64{}, []bool{}
	for _, l := range ls {
		names = append(names, l.Name)
		src = append(src, l.Source)
		eff = append(eff, ev.Inst(l.Meta.EffectiveDate))
		ineff = append(ineff, ev.Inst(l.Meta.IneffectiveDate))
		cfgable = append(cfgable, l.Cfgable)
	}
	return ev.M{"ev": "Meta", "kind": kind, "names": names, "src": src, "eff": eff, "ineff": ineff, "cfgable": cfgable}
}

// Facts are raw parsed fields relevant to the scope indications. Never computed with zlint helpers.
type Facts struct {
	Ekus  []int
	Unk   int
	Pols  []string
	Email bool
}

const oidSmtpUTF8Mailbox = "1.3.6.1.5.5.7.8.9"

func certFacts(c *x509.Certificate) Facts {
	f := Facts{Ekus: []int{}, Pols: []string{}}
	seen := map[int]bool{}
	for _, e := range c.ExtKeyUsage {
		// symbolic encoding (zcrypto's enum values are generated): 0 any, 1 serverAuth, 2 clientAuth,
		// 3 codeSigning, 4 emailProtection, 1000+v for every other known usage
		v := 1000 + int(e)
		switch e {
		case x509.ExtKeyUsageAny:
			v = 0
		case x509.ExtKeyUsageServerAuth:
			v = 1
		case x509.ExtKeyUsageClientAuth:
			v = 2
		case x509.ExtKeyUsageCodeSigning:
			v = 3
		case x509.ExtKeyUsageEmailProtection:
			v = 4
		}
		if !seen[v] {
			seen[v] = true
			f.Ekus = append(f.Ekus, v)
		}
	}
	sort.Ints(f.Ekus)
	f.Unk = len(c.UnknownExtKeyUsage)
	sp := map[string]bool{}
	for _, p := range c.PolicyIdentifiers {
		if !sp[p.String()] {
			sp[p.String()] = true
			f.Pols = append(f.Pols, p.String())
		}
	}
	sort.Strings(f.Pols)
	for _, e := range c.EmailAddresses {
		if e != "" {
			f.Email = true
		}
	}
	for _, o := range c.OtherNames {
		if o.TypeID.String() == oidSmtpUTF8Mailbox && len(o.Value.Bytes) != 0 {
			f.Email = true
		}
	}
	return f
}

// Target is one parsed object of any kind.
type Target struct {
	Kind string
	ID   string
	DER  []byte
	Cert *x509.Certificate
	CRL  *x509.RevocationList
	OCSP *ocsp.Response
}

func fromObj(o *corpus.Obj) *Target {
	return &Target{Kind: o.Kind, ID: o.ID, DER: o.DER, Cert: o.Cert, CRL: o.CRL, OCSP: o.OCSP}
}

func (t *Target) windowDate() time.Time {
	switch t.Kind {
	case "cert":
		return t.Cert.NotBefore
	case "crl":
		return t.CRL.ThisUpdate
	}
	return t.OCSP.NextUpdate
}

// ExecRec is the raw observation of one lint execution under the real framework.
type ExecRec struct {
	Cfg       string // none | ok | err
	Applies   int    // 1 / 0 from a direct call on a fresh configured instance; -1 if that call panicked
	Body      int    // status returned by a direct body call on that instance; -1 panic; -3 nil; -9 not run
	BodyDg    string
	Called    []int // 1 construct 2 configure 3 applies 4 execute
	Instances int
	Obs       int // framework result status; -1 escaped panic; -3 nil
	ObsDg     string
	ObsCls    string // "" | panicmsg | cfgmsg | other
	SpyBody   int    // what the body returned inside the framework run (-9 not run, -1 panic, -3 nil)
	SpyDg     string
	PanicMsg  string
	Details   string
}

var callCode = map[string]int{"construct": 1, "configure": 2, "applies": 3, "execute": 4}

func detailsClass(name, d string) string {
	switch {
	case d == "":
		return ""
	case strings.HasPrefix(d, "'"+name+"' panicked. Error: "):
		return "panicmsg"
	case strings.HasPrefix(d, "A fatal error occurred while attempting to configure "+name+"."):
		return "cfgmsg"
	}
	return "other"
}

func execOne(l *LintRec, t *Target, cfg lint.Configuration) (r ExecRec) {
	r.Applies, r.Body, r.SpyBody = 0, -9, -9
	// --- direct calls on a fresh, freshly configured instance
	func() {
		defer func() {
			if p := recover(); p != nil {
				if r.Applies == 1 {
					r.Body = -1
				} else {
					r.Applies = -1
				}
				r.PanicMsg = fmt.Sprint(p)
			}
		}()
		var inst interface{}
		switch l.Kind {
		case "cert":
			inst = l.C.Lint()
		case "crl":
			inst = l.R.Lint()
		default:
			inst = l.O.Lint()
		}
		if _, ok := inst.(lint.Configurable); ok {
			r.Cfg = "ok"
			if err := cfg.MaybeConfigure(inst, l.Name); err != nil {
				r.Cfg = "err"
				return
			}
		} else {
			r.Cfg = "none"
		}
		var res *lint.LintResult
		switch l.Kind {
		case "cert":
			if inst.(lint.CertificateLintInterface).CheckApplies(t.Cert) {
				r.Applies = 1
				res = inst.(lint.CertificateLintInterface).Execute(t.Cert)
			} else {
				return
			}
		case "crl":
			if inst.(lint.RevocationListLintInterface).CheckApplies(t.CRL) {
				r.Applies = 1
				res = inst.(lint.RevocationListLintInterface).Execute(t.CRL)
			} else {
				return
			}
		default:
			if inst.(lint.OcspResponseLintInterface).CheckApplies(t.OCSP) {
				r.Applies = 1
				res = inst.(lint.OcspResponseLintInterface).Execute(t.OCSP)
			} else {
				return
			}
		}
		if res == nil {
			r.Body = -3
		} else {
			r.Body = int(res.Status)
			r.BodyDg = ev.Dg(res.Details)
		}
	}()
	// --- the same lint under the real framework, spied
	var log spy.Log
	var res *lint.LintResult
	func() {
		defer func() {
			if p := recover(); p != nil {
				r.Obs = -1
				r.PanicMsg = fmt.Sprint(p)
			}
		}()
		switch l.Kind {
		case "cert":
			res = spy.Cert(l.C, &log).Execute(t.Cert, cfg)
		case "crl":
			res = spy.CRL(l.R, &log).Execute(t.CRL, cfg)
		default:
			res = spy.OCSP(l.O, &log).Execute(t.OCSP, cfg)
		}
		if res == nil {
			r.Obs = -3
		} else {
			r.Obs = int(res.Status)
			r.ObsDg = ev.Dg(res.Details)
			r.ObsCls = detailsClass(l.Name, res.Details)
			r.Details = res.Details
		}
	}()
	r.Called = []int{}
	for _, c := range log.Calls {
		r.Called = append(r.Called, callCode[c])
	}
	r.Instances = log.Instances
	switch {
	case log.BodyPanic != "":
		r.SpyBody = -1
		if r.PanicMsg == "" {
			r.PanicMsg = log.BodyPanic
		}
	case log.BodyNil:
		r.SpyBody = -3
	case log.BodyRet != nil:
		r.SpyBody = int(log.BodyRet.Status)
		r.SpyDg = ev.Dg(log.BodyRet.Details)
	}
	return r
}

// execEvent runs the given lints (indices into ls) on t and builds one vector event.
func execEvent(ls []LintRec, idx []int, t *Target, cfg lint.Configuration) (ev.M, []ExecRec) {
	m := ev.M{"ev": "Exec", "kind": t.Kind, "id": t.ID, "t": ev.Inst(t.windowDate())}
	if t.Kind == "cert" {
		f := certFacts(t.Cert)
		m["ekus"], m["unk"], m["pols"], m["email"] = f.Ekus, f.Unk, f.Pols, f.Email
	} else {
		m["ekus"], m["unk"], m["pols"], m["email"] = []int{}, 0, []string{}, false
	}
	n := len(idx)
	ix, cfgs, app, body, bdg, called, inst, obs, odg, ocl, sb, sdg := make([]int, n), make([]string, n), make([]int, n), make([]int, n), make([]string, n), make([][]int, n), make([]int, n), make([]int, n), make([]string, n), make([]string, n), make([]int, n), make([]string, n)
	recs := make([]ExecRec, n)
	for k, i := range idx {
		r := execOne(&ls[i], t, cfg)
		recs[k] = r
		ix[k], cfgs[k], app[k], body[k], bdg[k], called[k], inst[k], obs[k], odg[k], ocl[k], sb[k], sdg[k] = i+1, r.Cfg, r.Applies, r.Body, r.BodyDg, r.Called, r.Instances, r.Obs, r.ObsDg, r.ObsCls, r.SpyBody, r.SpyDg
	}
	// the same lints through the deprecated lookup (Registry.ByName -> *lint.Lint): certificate lints of the global registry only
	dep := make([]int, n)
	for k, i := range idx {
		dep[k] = -9
		if t.Kind == "cert" && ls[i].C != nil {
			func() {
				defer func() {
					if recover() != nil {
						dep[k] = -1
					}
				}()
				if dl := lint.GlobalRegistry().ByName(ls[i].Name); dl != nil && dl.Name == ls[i].Name {
					if r := dl.Execute(t.Cert, cfg); r != nil {
						dep[k] = int(r.Status)
					} else {
						dep[k] = -3
					}
				}
			}()
		}
	}
	m["depSt"] = dep
	m["idx"], m["cfg"], m["applies"], m["body"], m["bodyDg"], m["called"], m["inst"], m["obs"], m["obsDg"], m["obsCls"], m["spyBody"], m["spyDg"] = ix, cfgs, app, body, bdg, called, inst, obs, odg, ocl, sb, sdg
	return m, recs
}

func allIdx(n int) []int {
	r := make([]int, n)
	for i := range r {
		r[i] = i
	}
	return r
}

// parallel runs f(i) for i in [0,n) on all cores, preserving nothing about order.
func parallel(n int, f func(i int)) {
	var wg sync.WaitGroup
	ch := make(chan int, 256)
	w := runtime.NumCPU()
	for k := 0; k < w; k++ {
		wg.Add(1)
		go func() {
			defer wg.Done()
			for i := range ch {
				f(i)
			}
		}()
	}
	for i := 0; i < n; i++ {
		ch <- i
	}
	close(ch)
	wg.Wait()
}

func b64(b []byte) string { return base64.StdEncoding.EncodeToString(b) }

func metaEqual(a, b lint.LintMetadata) bool { return reflect.DeepEqual(a, b) }

package main

// C10: goroutines over shared registries.
//
// Two modes, one trace format (validated by Trace_Concurrent.tla, which steps Concurrent.tla):
//
//	gated  schedules exported by TLC from Sched_Concurrent are enforced on real goroutines: the
//	       verif-tagged gate hook parks a goroutine at lock-free points (operation start, run.lint,
//	       filter.register) until the scheduler lets it through; between two gates a goroutine runs
//	       alone.  Events: Start, Yield (a gate at which the goroutine was parked), End (the reply).
//	free   free-running goroutines (binary built with -race, no hook installed, no synchronisation
//	       added by the harness except the deliberate hand-over of filtered registries); per-goroutine
//	       event lists are merged afterwards by program order and publish-before-use order only.
//
// In both modes the concurrent phase comes FIRST in the process (lazily built tables must meet
// concurrency at first use) and the "same call made alone" baseline is computed afterwards.
import (
	"bufio"
	"bytes"
	"encoding/json"
	"fmt"
	"math/rand"
	"os"
	"reflect"
	"regexp"
	"runtime"
	"runtime/debug"
	"sort"
	"strconv"
	"strings"
	"sync"
	"sync/atomic"
	"time"

	zlint "github.com/zmap/zlint/v3"
	"github.com/zmap/zlint/v3/lint"
	"verif/harness/internal/corpus"
	"verif/harness/internal/ev"
)

type cOp struct {
	Op   string   `json:"op"` // Lint | Names | Read | Filter
	O    int      `json:"o"`  // object number (Lint), 1-based into the segment's object list
	K    string   `json:"k"`  // kind (Lint)
	R    int      `json:"r"`  // slot of the registry used
	What string   `json:"what"`
	Ks   []string `json:"ks"`
	N    int      `json:"n"` // name rank (ByName)
	Src  string   `json:"src"`
	F    int      `json:"f"` // 1-based index into the header's filter list
	Into int      `json:"into"`
	Reps int      `json:"reps"` // hot mode: the operation is made this many times in a row (0/1 = once)
	Bar  int      `json:"bar"`  // free mode: before this operation the goroutine waits at barrier number Bar (>0) for all the others
}

type cFilter struct {
	opts lint.FilterOptions
	desc ev.M
}

type cUniverse struct {
	base    lint.Registry
	names   []string
	rank    map[string]int
	kind    []string
	src     []string
	order   map[string][]int
	filters []cFilter
}

func (u *cUniverse) ranks(names []string) []int {
	out := make([]int, len(names))
	for i, n := range names {
		out[i] = u.rank[n] // 0 = a name the base registry does not have
	}
	return out
}

func newUniverse(base lint.Registry, rng *rand.Rand) *cUniverse {
	u := &cUniverse{base: base, rank: map[string]int{}, order: map[string][]int{}}
	u.names = append([]string{}, base.Names()...)
	sort.Strings(u.names)
	for i, n := range u.names {
		u.rank[n] = i + 1
	}
	u.kind = make([]string, len(u.names))
	u.src = make([]string, len(u.names))
	for _, k := range []string{"cert", "crl", "ocsp"} {
		u.order[k] = []int{}
		for _, l := range lintsOf(base, k) {
			r := u.rank[l.Name]
			u.kind[r-1], u.src[r-1] = k, l.Source
			u.order[k] = append(u.order[k], r)
		}
	}
	// ---- the filter catalogue: by source, by regexp (match set computed by Go's regexp), by name lists
	srcs := map[string]bool{}
	for _, s := range u.src {
		srcs[s] = true
	}
	var sl []string
	for s := range srcs {
		sl = append(sl, s)
	}
	sort.Strings(sl)
	add := func(o lint.FilterOptions, xs, is []string, nf bool, re *regexp.Regexp, xx, ix []string) {
		m := []int{}
		if re != nil {
			for _, n := range u.names {
				if re.MatchString(n) {
					m = append(m, u.rank[n])
				}
			}
		}
		u.filters = append(u.filters, cFilter{opts: o, desc: ev.M{"xs": xs, "is": is, "nf": nf, "nfMatch": m, "xx": u.ranks(xx), "ix": u.ranks(ix)}})
	}
	for _, s := range sl {
		add(lint.FilterOptions{IncludeSources: lint.SourceList{lint.LintSource(s)}}, []string{}, []string{s}, false, nil, nil, nil)
	}
	for _, s := range sl {
		add(lint.FilterOptions{ExcludeSources: lint.SourceList{lint.LintSource(s)}}, []string{s}, []string{}, false, nil, nil, nil)
	}
	for _, p := range []string{"^e_", "^w_", "^n_", "dnsname|san|ian", "crl|ocsp", "subject|issuer", "rsa|ec|dsa", "_a|_e|_i"} {
		re := regexp.MustCompile(p)
		add(lint.FilterOptions{NameFilter: re}, []string{}, []string{}, true, re, nil, nil)
	}
	for i := 0; i < 6; i++ {
		n := 1 + rng.Intn(len(u.names))
		pick := []string{}
		for _, j := range rng.Perm(len(u.names))[:n] {
			pick = append(pick, u.names[j])
		}
		if i%2 == 0 {
			add(lint.FilterOptions{IncludeNames: pick}, []string{}, []string{}, false, nil, nil, pick)
		} else {
			add(lint.FilterOptions{ExcludeNames: pick}, []string{}, []string{}, false, nil, pick, nil)
		}
	}
	return u
}

func (u *cUniverse) header() ev.M {
	fl := []ev.M{}
	for _, f := range u.filters {
		fl = append(fl, f.desc)
	}
	return ev.M{"ev": "Hdr", "names": u.names, "kind": u.kind, "src": u.src, "order": u.order, "filters": fl}
}

// ---------------------------------------------------------------- executing one operation on the real code

type cReply struct {
	// Lint
	Names, St []int
	Dg        []string
	Flags     []bool
	// Names / Read / Filter (Filter: Names = all names of the new registry, Kinds = per-kind Lints() order)
	Seq   []int
	Set   []string
	Kinds map[string][]int
	Err   string
	// Lint: the result set encoded and decoded again by the same goroutine differs from the result set ("" = it does not)
	JSONBad string
}

func jsonDiffers(rs *zlint.ResultSet) string {
	b, err := json.Marshal(rs)
	if err != nil {
		return "not encodable: " + err.Error()
	}
	var back struct {
		Results map[string]struct {
			Result  string `json:"result"`
			Details string `json:"details"`
		} `json:"lints"`
	}
	if err := json.Unmarshal(b, &back); err != nil {
		return "not decodable: " + err.Error()
	}
	if len(back.Results) != len(rs.Results) {
		return "number of results"
	}
	for n, r := range rs.Results {
		if r == nil {
			continue
		}
		if br, ok := back.Results[n]; !ok || br.Result != r.Status.String() || br.Details != string([]rune(r.Details)) {
			return fmt.Sprintf("%s: %s %q encoded as %s %q", n, r.Status.String(), r.Details, br.Result, br.Details)
		}
	}
	return ""
}

func lookupNames(reg lint.Registry, k string) []string {
	switch k {
	case "cert":
		return reg.CertificateLints().Names()
	case "crl":
		return reg.RevocationListLints().Names()
	}
	return reg.OcspResponseLints().Names()
}

// ownCopies parses every object again: the property is about goroutines linting DISTINCT parsed objects (the parsed
// certificate caches derived data on itself), so every goroutine gets objects of its own with the same content.
func ownCopies(objs []*Target) []*Target {
	out := make([]*Target, len(objs))
	for i, t := range objs {
		cp := &Target{Kind: t.Kind, ID: t.ID, DER: t.DER}
		switch t.Kind {
		case "cert":
			cp.Cert, _, _ = corpus.ParseCert(t.DER)
		case "crl":
			cp.CRL, _, _ = corpus.ParseCRL(t.DER)
		default:
			cp.OCSP, _, _ = corpus.ParseOCSP(t.DER)
		}
		if cp.Cert == nil && cp.CRL == nil && cp.OCSP == nil {
			cp = t
		}
		out[i] = cp
	}
	return out
}

func (u *cUniverse) exec(c cOp, reg lint.Registry, objs []*Target) (rep cReply, made lint.Registry) {
	switch c.Op {
	case "Lint":
		t := objs[c.O-1]
		var rs *zlint.ResultSet
		switch t.Kind {
		case "cert":
			rs = zlint.LintCertificateEx(t.Cert, reg)
		case "crl":
			rs = zlint.LintRevocationListEx(t.CRL, reg)
		default:
			rs = zlint.LintOcspResponseEx(t.OCSP, reg)
		}
		type row struct {
			r, st int
			dg    string
		}
		rows := []row{}
		for n, r := range rs.Results {
			st := -3
			dg := ""
			if r != nil {
				st, dg = int(r.Status), ev.Dg(r.Details)
			}
			rows = append(rows, row{u.rank[n], st, dg})
		}
		sort.Slice(rows, func(i, j int) bool { return rows[i].r < rows[j].r })
		for _, r := range rows {
			rep.Names, rep.St, rep.Dg = append(rep.Names, r.r), append(rep.St, r.st), append(rep.Dg, r.dg)
		}
		rep.Flags = []bool{rs.NoticesPresent, rs.WarningsPresent, rs.ErrorsPresent, rs.FatalsPresent}
		// a bulk pipeline encodes what it computed: the JSON made by this goroutine must say what its result set says
		rep.JSONBad = jsonDiffers(rs)
	case "Names":
		rep.Seq = u.ranks(reg.Names())
	case "Read":
		k := c.Ks[0]
		switch c.What {
		case "KNames":
			rep.Seq = u.ranks(lookupNames(reg, k))
		case "ByName":
			name := u.names[c.N-1]
			found := false
			switch k {
			case "cert":
				l := reg.CertificateLints().ByName(name)
				found = l != nil && l.Name == name
			case "crl":
				l := reg.RevocationListLints().ByName(name)
				found = l != nil && l.Name == name
			default:
				l := reg.OcspResponseLints().ByName(name)
				found = l != nil && l.Name == name
			}
			rep.Seq = []int{}
			if found {
				rep.Seq = []int{c.N}
			}
		case "BySource":
			ns := []string{}
			switch k {
			case "cert":
				for _, l := range reg.CertificateLints().BySource(lint.LintSource(c.Src)) {
					ns = append(ns, l.Name)
				}
			case "crl":
				for _, l := range reg.RevocationListLints().BySource(lint.LintSource(c.Src)) {
					ns = append(ns, l.Name)
				}
			default:
				for _, l := range reg.OcspResponseLints().BySource(lint.LintSource(c.Src)) {
					ns = append(ns, l.Name)
				}
			}
			rep.Seq = u.ranks(ns)
		case "Lints":
			ns := []string{}
			for _, l := range lintsOfPlain(reg, k) {
				ns = append(ns, l)
			}
			rep.Seq = u.ranks(ns)
		case "Sources":
			rep.Set = []string{}
			for _, s := range reg.Sources() {
				rep.Set = append(rep.Set, string(s))
			}
			sort.Strings(rep.Set)
		case "Listing":
			var buf bytes.Buffer
			reg.WriteJSON(&slowWriter{w: &buf}) // a writer that takes its time, as a network connection or a terminal would
			ns := []string{}
			sc := bufio.NewScanner(&buf)
			sc.Buffer(make([]byte, 1<<20), 1<<20)
			for sc.Scan() {
				var m struct {
					Name string `json:"name"`
				}
				if json.Unmarshal(sc.Bytes(), &m) == nil {
					ns = append(ns, m.Name)
				} else {
					ns = append(ns, "?")
				}
			}
			rep.Seq = u.ranks(ns)
		}
	case "Filter":
		nr, err := reg.Filter(u.filters[c.F-1].opts)
		if err != nil {
			rep.Err = err.Error()
			return rep, nil
		}
		made = nr // the reply is read off the new registry by filterReply, after it has been handed out
	}
	return rep, made
}

// filterReply observes a registry made by Filter. It runs after the registry has been handed out, so that the
// observation does not warm anything up before other goroutines get to use the registry.
func (u *cUniverse) filterReply(rep *cReply, nr lint.Registry) {
	rep.Seq = u.ranks(nr.Names())
	rep.Kinds = map[string][]int{}
	for _, k := range []string{"cert", "crl", "ocsp"} {
		rep.Kinds[k] = u.ranks(lintsOfPlain(nr, k))
	}
}

// slowWriter yields the processor before consuming what it is given.
type slowWriter struct{ w *bytes.Buffer }

func (s *slowWriter) Write(p []byte) (int, error) {
	runtime.Gosched()
	n := 0
	for len(p) > 0 {
		k := len(p)
		if k > 4096 {
			k = 4096
		}
		s.w.Write(p[:k])
		p = p[k:]
		n += k
		runtime.Gosched()
	}
	return n, nil
}

// lintsOfPlain lists the names of a lookup's Lints() without constructing lint instances.
func lintsOfPlain(reg lint.Registry, k string) []string {
	out := []string{}
	switch k {
	case "cert":
		for _, l := range reg.CertificateLints().Lints() {
			out = append(out, l.Name)
		}
	case "crl":
		for _, l := range reg.RevocationListLints().Lints() {
			out = append(out, l.Name)
		}
	default:
		for _, l := range reg.OcspResponseLints().Lints() {
			out = append(out, l.Name)
		}
	}
	return out
}

func nz(a []int) []int {
	if a == nil {
		return []int{}
	}
	return a
}

func (r cReply) event(m ev.M) ev.M {
	m["names"], m["st"], m["seq"] = nz(r.Names), nz(r.St), nz(r.Seq)
	m["dg"] = r.Dg
	if r.Dg == nil {
		m["dg"] = []string{}
	}
	m["flags"] = r.Flags
	if r.Flags == nil {
		m["flags"] = []bool{}
	}
	m["set"] = r.Set
	if r.Set == nil {
		m["set"] = []string{}
	}
	k := r.Kinds
	if k == nil {
		k = map[string][]int{"cert": {}, "crl": {}, "ocsp": {}}
	}
	m["kinds"] = k
	m["err"] = r.Err
	m["jsonBad"] = r.JSONBad
	return m
}

// ---------------------------------------------------------------- programs

// slotKey: the chain of filters that made a slot ("0", "0/5", "0/5/2"): two registries with the same key are "the same call made alone".
func slotKeys(progs [][]cOp) map[int]string {
	keys := map[int]string{0: "0"}
	for changed := true; changed; {
		changed = false
		for _, p := range progs {
			for _, c := range p {
				if c.Op == "Filter" {
					if pk, ok := keys[c.R]; ok {
						if _, done := keys[c.Into]; !done {
							keys[c.Into] = pk + "/" + strconv.Itoa(c.F)
							changed = true
						}
					}
				}
			}
		}
	}
	return keys
}

func goid() int64 {
	var buf [64]byte
	n := runtime.Stack(buf[:], false)
	f := strings.Fields(string(buf[:n]))
	id, _ := strconv.ParseInt(f[1], 10, 64)
	return id
}

type cSegment struct {
	mode  string
	progs [][]cOp
	objs  []*Target
	evs   []ev.M // Start/Yield/End/Panic/Hang in an order consistent with program order and publish-before-use
	info  ev.M
}

func opEvent(kind string, g, i int, c cOp, keys map[int]string) ev.M {
	return ev.M{"ev": kind, "g": g, "i": i, "op": c.Op, "o": c.O, "rkey": keys[c.R]}
}

// ---------------------------------------------------------------- gated execution of one schedule

type gatedRun struct {
	u      *cUniverse
	seg    *cSegment
	sched  []int
	every  bool // yield at every gate (exact mode) or at the chosen indices only
	rng    *rand.Rand
	mu     sync.RWMutex
	byGoid map[int64]int
	gs     []*gatedG
	report chan gRep
	slots  []lint.Registry
	log    []ev.M
	mine   [][]*Target // per goroutine: its own parsed copies of the segment's objects
}

type gatedG struct {
	turn    chan struct{}
	i       int // current operation (0-based)
	ran     []int
	cons    []int
	regd    []int
	locked  int
	yieldAt map[int]bool // gate ordinal (1-based, run.lint or filter.register) at which to park
}

type gRep struct {
	g     int
	what  string // park | done | panic
	panic string
}

func (gr *gatedRun) hook(point, name string) {
	gr.mu.RLock()
	g, ok := gr.byGoid[goid()]
	gr.mu.RUnlock()
	if !ok {
		return
	}
	s := gr.gs[g]
	switch point {
	case "run.lint":
		s.ran = append(s.ran, gr.u.rank[name])
		if gr.every || s.yieldAt[len(s.ran)] {
			gr.yield(g, point, name)
		}
	case "lint.constructed":
		s.cons = append(s.cons, gr.u.rank[name])
	case "filter.register":
		s.regd = append(s.regd, gr.u.rank[name])
		if gr.every || s.yieldAt[len(s.regd)] {
			gr.yield(g, point, name)
		}
	case "lookup.locked":
		s.locked++
	}
}

func (gr *gatedRun) yield(g int, point, name string) {
	gr.log = append(gr.log, ev.M{"ev": "Yield", "g": g + 1, "i": gr.gs[g].i + 1, "point": point, "rank": gr.u.rank[name]})
	gr.report <- gRep{g: g, what: "park"}
	<-gr.gs[g].turn
}

func (gr *gatedRun) worker(g int, wg *sync.WaitGroup) {
	gr.mu.Lock()
	gr.byGoid[goid()] = g
	gr.mu.Unlock()
	wg.Done()
	s := gr.gs[g]
	<-s.turn
	defer func() {
		if p := recover(); p != nil {
			gr.log = append(gr.log, ev.M{"ev": "Panic", "g": g + 1, "i": s.i + 1, "msg": fmt.Sprint(p), "stack": trimStack(debug.Stack())})
			gr.report <- gRep{g: g, what: "panic"}
		}
	}()
	prog := gr.seg.progs[g]
	keys := slotKeys(gr.seg.progs)
	mine := gr.mine[g]
	for i, c := range prog {
		s.i = i
		if i > 0 {
			gr.report <- gRep{g: g, what: "park"} // parked at the start of the next operation
			<-s.turn
		}
		s.ran, s.cons, s.regd, s.locked = nil, nil, nil, 0
		s.yieldAt = map[int]bool{}
		if !gr.every {
			for k := 0; k < 2; k++ {
				s.yieldAt[1+gr.rng.Intn(len(gr.u.names))] = true
			}
		}
		gr.log = append(gr.log, opEvent("Start", g+1, i+1, c, keys))
		rep, made := gr.u.exec(c, gr.slots[c.R], mine)
		if c.Op == "Filter" && made != nil {
			gr.slots[c.Into] = made
			gr.u.filterReply(&rep, made)
		}
		e := rep.event(opEvent("End", g+1, i+1, c, keys))
		e["ran"], e["cons"], e["regd"], e["locked"], e["gated"] = nz(s.ran), nz(s.cons), nz(s.regd), s.locked, true
		gr.log = append(gr.log, e)
	}
	s.i = len(prog)
	gr.report <- gRep{g: g, what: "done"}
}

func trimStack(b []byte) string {
	s := string(b)
	if len(s) > 1500 {
		s = s[:1500]
	}
	return s
}

// runGated enforces one schedule; returns false if the run hung.
func runGated(u *cUniverse, seg *cSegment, sched []int, every bool, rng *rand.Rand, nslots int) bool {
	gr := &gatedRun{u: u, seg: seg, sched: sched, every: every, rng: rng, byGoid: map[int64]int{}, report: make(chan gRep), slots: make([]lint.Registry, nslots+1)}
	gr.slots[0] = u.base
	n := len(seg.progs)
	var wg sync.WaitGroup
	for g := 0; g < n; g++ {
		gr.gs = append(gr.gs, &gatedG{turn: make(chan struct{})})
		gr.mine = append(gr.mine, ownCopies(seg.objs))
	}
	lint.VerifGate = gr.hook
	defer func() { lint.VerifGate = nil }()
	wg.Add(n)
	for g := 0; g < n; g++ {
		go gr.worker(g, &wg)
	}
	wg.Wait()
	done := make([]bool, n)
	left := 0
	for g := 0; g < n; g++ {
		if len(seg.progs[g]) == 0 {
			done[g] = true
		} else {
			left++
		}
	}
	blocked := func(g int) bool {
		// parked before the start of an operation whose registry has not been handed out yet
		s := gr.gs[g]
		if s.i < len(seg.progs[g]) && gr.pendingStart(g) {
			return gr.slots[seg.progs[g][s.i].R] == nil
		}
		return false
	}
	step := func(g int) bool {
		gr.gs[g].turn <- struct{}{}
		select {
		case r := <-gr.report:
			if r.what == "done" || r.what == "panic" {
				done[r.g] = true
				left--
			}
			return true
		case <-time.After(30 * time.Second):
			gr.log = append(gr.log, ev.M{"ev": "Hang", "g": g + 1, "i": gr.gs[g].i + 1, "stacks": allStacks()})
			return false
		}
	}
	ok := true
	pos := 0
	for left > 0 && ok {
		var g int
		if pos < len(sched) {
			g = sched[pos] - 1
			pos++
			if g >= n || done[g] || blocked(g) {
				continue
			}
		} else {
			g = -1
			for k := 0; k < n; k++ {
				if !done[k] && !blocked(k) {
					g = k
					break
				}
			}
			if g < 0 {
				gr.log = append(gr.log, ev.M{"ev": "Stuck", "g": 0, "i": 0})
				ok = false
				break
			}
		}
		ok = step(g)
	}
	seg.evs = gr.log
	return ok
}

// pendingStart: goroutine g is parked before the Start of its current operation (its last logged event is not a Start/Yield of that operation).
func (gr *gatedRun) pendingStart(g int) bool {
	for k := len(gr.log) - 1; k >= 0; k-- {
		e := gr.log[k]
		if e["g"] == g+1 {
			return e["ev"] == "End"
		}
	}
	return true
}

func allStacks() string {
	buf := make([]byte, 1<<16)
	n := runtime.Stack(buf, true)
	return string(buf[:n])
}

// ---------------------------------------------------------------- free-running execution

type freeRec struct {
	evs []ev.M
}

func runFree(u *cUniverse, seg *cSegment, nslots int, timeout time.Duration) bool {
	n := len(seg.progs)
	keys := slotKeys(seg.progs)
	slots := make([]atomic.Pointer[lint.Registry], nslots+1)
	slots[0].Store(&u.base)
	recs := make([]freeRec, n)
	mine := make([][]*Target, n)
	for g := 0; g < n; g++ {
		mine[g] = ownCopies(seg.objs) // parsed before the goroutines start: parsing is not what is under test
	}
	var wg sync.WaitGroup
	start := make(chan struct{})
	var live atomic.Int32
	nbar := 0
	for _, p := range seg.progs {
		for _, c := range p {
			if c.Bar > nbar {
				nbar = c.Bar
			}
		}
	}
	barCnt := make([]atomic.Int32, nbar+1)
	barCh := make([]chan struct{}, nbar+1)
	for k := range barCh {
		barCh[k] = make(chan struct{})
	}
	for g := 0; g < n; g++ {
		wg.Add(1)
		go func(g int) {
			defer wg.Done()
			rec := &recs[g]
			cur := 0
			defer func() {
				if p := recover(); p != nil {
					rec.evs = append(rec.evs, ev.M{"ev": "Panic", "g": g + 1, "i": cur + 1, "msg": fmt.Sprint(p), "stack": trimStack(debug.Stack())})
				}
			}()
			<-start
			for i, c := range seg.progs[g] {
				cur = i
				var reg lint.Registry
				for spins := 0; ; spins++ {
					if p := slots[c.R].Load(); p != nil {
						reg = *p
						break
					}
					if spins > 2000000 {
						rec.evs = append(rec.evs, ev.M{"ev": "Starved", "g": g + 1, "i": i + 1})
						return
					}
					runtime.Gosched()
				}
				if c.Bar > 0 {
					if int(barCnt[c.Bar].Add(1)) == n {
						close(barCh[c.Bar])
					} else {
						select {
						case <-barCh[c.Bar]:
						case <-time.After(20 * time.Second): // a goroutine died on the way: go on alone
						}
					}
				}
				rec.evs = append(rec.evs, opEvent("Start", g+1, i+1, c, keys))
				rep, made := u.exec(c, reg, mine[g])
				// repetitions of the same call (hot mode): every reply that differs from the first is recorded too
				var others []cReply
				for k := 1; k < c.Reps; k++ {
					r2, _ := u.exec(c, reg, mine[g])
					if len(others) < 3 && !reflect.DeepEqual(r2, rep) {
						others = append(others, r2)
					}
				}
				if c.Op == "Filter" && made != nil {
					slots[c.Into].Store(&made) // handed out cold: the first uses by this and by other goroutines are concurrent
					u.filterReply(&rep, made)
				}
				e := rep.event(opEvent("End", g+1, i+1, c, keys))
				e["ran"], e["cons"], e["regd"], e["locked"], e["gated"] = []int{}, []int{}, []int{}, 0, false
				rec.evs = append(rec.evs, e)
				for _, r2 := range others {
					e2 := r2.event(opEvent("Rep", g+1, i+1, c, keys))
					e2["ran"], e2["cons"], e2["regd"], e2["locked"], e2["gated"] = []int{}, []int{}, []int{}, 0, false
					rec.evs = append(rec.evs, e2)
				}
			}
		}(g)
	}
	live.Store(int32(n))
	close(start)
	fin := make(chan struct{})
	go func() { wg.Wait(); close(fin) }()
	hung := false
	select {
	case <-fin:
	case <-time.After(timeout):
		hung = true
	}
	if hung {
		seg.evs = []ev.M{{"ev": "Hang", "g": 0, "i": 0, "stacks": allStacks()}}
		return false
	}
	// merge: program order per goroutine, a slot's Filter End before any Start that uses the slot
	pub := map[int]bool{0: true}
	idx := make([]int, n)
	for {
		progress := false
		remaining := false
		for g := 0; g < n; g++ {
			for idx[g] < len(recs[g].evs) {
				e := recs[g].evs[idx[g]]
				if e["ev"] == "Start" {
					c := seg.progs[g][e["i"].(int)-1]
					if !pub[c.R] {
						break
					}
				}
				seg.evs = append(seg.evs, e)
				if e["ev"] == "End" {
					c := seg.progs[g][e["i"].(int)-1]
					if c.Op == "Filter" && e["err"] == "" {
						pub[c.Into] = true
					}
				}
				idx[g]++
				progress = true
			}
			if idx[g] < len(recs[g].evs) {
				remaining = true
			}
		}
		if !remaining {
			break
		}
		if !progress {
			seg.evs = append(seg.evs, ev.M{"ev": "Stuck", "g": 0, "i": 0})
			break
		}
	}
	return true
}

// ---------------------------------------------------------------- the baseline: every call made alone, afterwards

func aloneEvents(u *cUniverse, seg *cSegment) []ev.M {
	keys := slotKeys(seg.progs)
	// rebuild every slot alone, in dependency order
	regs := map[int]lint.Registry{0: u.base}
	for changed := true; changed; {
		changed = false
		for _, p := range seg.progs {
			for _, c := range p {
				if c.Op == "Filter" && regs[c.R] != nil && regs[c.Into] == nil {
					if nr, err := regs[c.R].Filter(u.filters[c.F-1].opts); err == nil {
						regs[c.Into] = nr
						changed = true
					}
				}
			}
		}
	}
	seen := map[string]bool{}
	out := []ev.M{}
	for _, p := range seg.progs {
		for _, c := range p {
			if c.Op != "Lint" || regs[c.R] == nil {
				continue
			}
			k := fmt.Sprintf("%d|%s", c.O, keys[c.R])
			if seen[k] {
				continue
			}
			seen[k] = true
			rep, _ := u.exec(c, regs[c.R], seg.objs)
			e := rep.event(ev.M{"ev": "Alone", "g": 0, "i": 0, "op": "Lint", "o": c.O, "rkey": keys[c.R]})
			out = append(out, e)
		}
	}
	return out
}

// ---------------------------------------------------------------- program generation

func readOp(rng *rand.Rand, u *cUniverse, r int) cOp {
	kinds := []string{"cert", "crl", "ocsp"}
	k := kinds[rng.Intn(3)]
	switch rng.Intn(6) {
	case 0:
		return cOp{Op: "Read", What: "KNames", R: r, Ks: []string{k}}
	case 1:
		return cOp{Op: "Read", What: "ByName", R: r, Ks: []string{k}, N: 1 + rng.Intn(len(u.names))}
	case 2:
		return cOp{Op: "Read", What: "BySource", R: r, Ks: []string{k}, Src: u.src[rng.Intn(len(u.src))]}
	case 3:
		return cOp{Op: "Read", What: "Lints", R: r, Ks: []string{k}}
	case 4:
		return cOp{Op: "Read", What: "Sources", R: r, Ks: []string{"cert", "crl", "ocsp"}}
	}
	return cOp{Op: "Read", What: "Listing", R: r, Ks: []string{"cert", "ocsp", "crl"}}
}

// freePrograms: ng goroutines; goroutine g may use slot 0, its own slots and the slots of lower-numbered goroutines.
func freePrograms(rng *rand.Rand, u *cUniverse, ng, nops int, objs []*Target) ([][]cOp, int) {
	progs := make([][]cOp, ng)
	nslots := 0
	avail := []int{0}
	for g := 0; g < ng; g++ {
		mine := append([]int{}, avail...)
		for i := 0; i < nops; i++ {
			r := mine[rng.Intn(len(mine))]
			x := rng.Intn(10)
			if g >= ng-2 && ng > 3 && i > 0 && x < 7 {
				// the last two goroutines are "listers": they write the listing of whatever registries are around, again and again
				progs[g] = append(progs[g], cOp{Op: "Read", What: "Listing", R: r, Ks: []string{"cert", "ocsp", "crl"}})
				continue
			}
			switch {
			case i == 0 || x < 6:
				o := 1 + rng.Intn(len(objs))
				progs[g] = append(progs[g], cOp{Op: "Lint", O: o, K: objs[o-1].Kind, R: r})
			case x == 6:
				progs[g] = append(progs[g], cOp{Op: "Names", R: r})
			case x == 7:
				progs[g] = append(progs[g], readOp(rng, u, r))
			default:
				nslots++
				f := 1 + rng.Intn(len(u.filters))
				for r != 0 && (len(u.filters[f-1].desc["xx"].([]int)) > 0 || len(u.filters[f-1].desc["ix"].([]int)) > 0) {
					f = 1 + rng.Intn(len(u.filters)) // name lists may name lints a filtered registry no longer has (an error, no registry): slot 0 only
				}
				progs[g] = append(progs[g], cOp{Op: "Filter", R: r, F: f, Into: nslots})
				mine = append(mine, nslots)
				if rng.Intn(2) == 0 {
					avail = append(avail, nslots)
				}
			}
		}
	}
	return progs, nslots
}

func fillOps(progs [][]cOp) [][]cOp {
	for g := range progs {
		if progs[g] == nil {
			progs[g] = []cOp{}
		}
		for i := range progs[g] {
			if progs[g][i].Ks == nil {
				progs[g][i].Ks = []string{}
			}
		}
	}
	return progs
}

// modelPrograms: the five program sets of MC_Concurrent.tla, concretised: object numbers stay, filters are the
// catalogue entries given in fmap, names/sources are taken from the universe.
func modelPrograms(id int, u *cUniverse, fmap map[string]int, crlRank int, srcS2 string) [][]cOp {
	lintOp := func(o int, k string, r int) cOp { return cOp{Op: "Lint", O: o, K: k, R: r} }
	flt := func(r int, f string, into int) cOp { return cOp{Op: "Filter", R: r, F: fmap[f], Into: into} }
	rd := func(what string, r int, ks []string, n int, src string) cOp {
		return cOp{Op: "Read", What: what, R: r, Ks: ks, N: n, Src: src}
	}
	switch id {
	case 1:
		return [][]cOp{{lintOp(1, "cert", 0), {Op: "Names", R: 0}}, {flt(0, "S1", 1), lintOp(2, "cert", 1)}, {}}
	case 2:
		return [][]cOp{{flt(0, "cert", 1), rd("KNames", 1, []string{"cert"}, 0, "")}, {lintOp(2, "cert", 1), rd("ByName", 0, []string{"crl"}, crlRank, "")}, {}}
	case 3:
		return [][]cOp{{flt(0, "not1", 1), flt(1, "S1", 2)}, {lintOp(1, "crl", 2), {Op: "Names", R: 1}}, {}}
	case 4:
		return [][]cOp{{lintOp(1, "cert", 0)}, {flt(0, "cert", 1), lintOp(2, "cert", 1)}, {{Op: "Names", R: 0}, lintOp(3, "cert", 1)}}
	}
	return [][]cOp{{flt(0, "S1", 1), rd("Listing", 2, []string{"cert", "ocsp", "crl"}, 0, "")},
		{flt(0, "not1", 2), rd("Sources", 1, []string{"cert", "crl", "ocsp"}, 0, "")},
		{lintOp(1, "crl", 1), lintOp(2, "ocsp", 2), rd("BySource", 0, []string{"cert"}, 0, srcS2)}}
}

// ---------------------------------------------------------------- command

type schedRec struct {
	Prog  int   `json:"prog"`
	Sched []int `json:"sched"`
	NPre  int   `json:"npre"`
}

func loadSchedules(path string) []schedRec {
	var out []schedRec
	data, err := os.ReadFile(path)
	if err != nil {
		return nil
	}
	for _, ln := range strings.Split(string(data), "\n") {
		i := strings.Index(ln, `<<"SCHED", "`)
		if i < 0 {
			continue
		}
		s := ln[i+len(`<<"SCHED", `):]
		j := strings.LastIndex(s, `">>`)
		if j < 0 {
			continue
		}
		var js string
		if json.Unmarshal([]byte(s[:j+1]), &js) != nil {
			continue
		}
		var r schedRec
		if json.Unmarshal([]byte(js), &r) == nil {
			out = append(out, r)
		}
	}
	return out
}

func pickObjects(rng *rand.Rand, c *corpus.Corpus, n int) []*Target {
	objs := []*Target{}
	for _, i := range rng.Perm(len(c.Certs))[:n] {
		objs = append(objs, fromObj(c.Certs[i]))
	}
	return objs
}

func cmdConcurrent(args []string) {
	parseFlags(args)
	mode := os.Getenv("VERIF_MODE") // gated | free
	rng := rand.New(rand.NewSource(seed))
	c := corpus.Load()
	w := ev.Create(out("concurrent.ndjson"))
	defer w.Close()
	sum := ev.M{"mode": mode, "segments": 0, "ops": 0, "lint_ops": 0, "schedules": 0, "hung": 0, "gomaxprocs": runtime.GOMAXPROCS(0)}
	emit := func(u *cUniverse, seg *cSegment, nslots int, alone []ev.M) {
		w.Emit(ev.M{"ev": "Begin", "g": 0, "i": 0, "mode": seg.mode, "progs": fillOps(seg.progs), "nslots": nslots, "info": seg.info})
		for _, e := range alone {
			w.Emit(e)
		}
		for _, e := range seg.evs {
			w.Emit(e)
			if e["ev"] == "End" {
				sum["ops"] = sum["ops"].(int) + 1
				if e["op"] == "Lint" {
					sum["lint_ops"] = sum["lint_ops"].(int) + 1
				}
			}
		}
		sum["segments"] = sum["segments"].(int) + 1
	}
	switch mode {
	case "free":
		u := newUniverse(lint.GlobalRegistry(), rng)
		w.Emit(u.header())
		ng, nops, rounds := 8, 10, 3
		if tier == "thorough" {
			ng, nops, rounds = 16, 16, 6
		}
		if v := os.Getenv("VERIF_GOROUTINES"); v != "" {
			ng, _ = strconv.Atoi(v)
		}
		// objects: the cover set (VERIF_COVER: every lint judges on one of them; computed by another process, this one is cold),
		// certificates of every family, all CRLs and OCSP responses
		var objs []*Target
		ncover := 0
		if p := os.Getenv("VERIF_COVER"); p != "" {
			var ids []string
			if b, err := os.ReadFile(p); err == nil && json.Unmarshal(b, &ids) == nil {
				byID := map[string]*corpus.Obj{}
				for _, o := range c.Certs {
					byID[o.ID] = o
				}
				for _, id := range ids {
					if o := byID[id]; o != nil {
						objs = append(objs, fromObj(o))
					}
				}
			}
			// (with one or two processors the cold round is slow and interleaves little: the first sixty cover objects there)
			if gmp := runtime.GOMAXPROCS(0); gmp < 4 && len(objs) > 60 {
				objs = objs[:60]
			}
			ncover = len(objs)
		}
		objs = append(objs, pickObjects(rng, c, 40)...)
		for _, o := range c.CRLs {
			objs = append(objs, fromObj(o))
		}
		for _, o := range c.OCSPs {
			objs = append(objs, fromObj(o))
		}
		var segs []*cSegment
		var slotsOf []int
		for r := 0; r < rounds; r++ {
			progs, nslots := freePrograms(rng, u, ng, nops, objs)
			if r == 0 && ncover > 0 {
				// the very first thing this process does: every goroutine lints cover objects on the global registry, each object by
				// two goroutines, in different orders
				// - all in the same order, each on its own parsed copy, leaving a barrier together before each object: whatever is built
				// lazily on first use is then asked for by all goroutines at the same instant
				for g := 0; g < ng; g++ {
					var first []cOp
					for k := 0; k < ncover; k++ {
						first = append(first, cOp{Op: "Lint", O: 1 + k, K: "cert", R: 0, Bar: k + 1})
					}
					progs[g] = append(first, progs[g]...)
				}
			}
			seg := &cSegment{mode: "free", progs: progs, objs: objs, info: ev.M{"round": r, "gomaxprocs": runtime.GOMAXPROCS(0)}}
			if !runFree(u, seg, nslots, 120*time.Second) {
				sum["hung"] = sum["hung"].(int) + 1
			}
			segs = append(segs, seg)
			slotsOf = append(slotsOf, nslots)
		}
		// the baseline comes last: nothing was linted in this process before the goroutines started
		for i, seg := range segs {
			emit(u, seg, slotsOf[i], aloneEvents(u, seg))
		}
		ids := []string{}
		for _, o := range objs {
			ids = append(ids, o.ID)
		}
		sum["objects"] = ids
	case "hot":
		// Tight loops: all goroutines lint, again and again, a few objects that DIFFER in what a small block of lints says about
		// them, through one narrow registry (a block of 12 lint names) handed out cold by goroutine 1.  A helper shared by the
		// lints of the block (a memo, a scratch value) is then hit by several goroutines at nearly the same instant with
		// different inputs - the interleavings a run of the whole registry is too coarse to reach.  Replies are compared with the
		// same call made alone, by the trace specification, like in free mode.
		u := newUniverse(lint.GlobalRegistry(), rng)
		block, ng, reps, nobj := 12, 8, 120, 6
		if tier == "thorough" {
			ng, reps, nobj = 16, 400, 8
		}
		if v, err := strconv.Atoi(os.Getenv("VERIF_HOT_BLOCK")); err == nil && v > 0 {
			block = v
		}
		if v, err := strconv.Atoi(os.Getenv("VERIF_HOT_REPS")); err == nil && v > 0 {
			reps = v
		}
		var chunkF []int
		var chunkNames [][]string
		for _, k := range []string{"cert", "crl"} {
			var ns []string
			for _, r := range u.order[k] {
				ns = append(ns, u.names[r-1])
			}
			sort.Strings(ns)
			for i := 0; i < len(ns); i += block {
				j := i + block
				if j > len(ns) {
					j = len(ns)
				}
				pick := append([]string{}, ns[i:j]...)
				u.filters = append(u.filters, cFilter{opts: lint.FilterOptions{IncludeNames: pick},
					desc: ev.M{"xs": []string{}, "is": []string{}, "nf": false, "nfMatch": []int{}, "xx": []int{}, "ix": u.ranks(pick)}})
				chunkF = append(chunkF, len(u.filters))
				chunkNames = append(chunkNames, pick)
			}
		}
		w.Emit(u.header())
		// one sequential pass of the whole registry over the corpus: which objects differ on which block
		all := []*Target{}
		for _, o := range c.Certs {
			all = append(all, fromObj(o))
		}
		for _, o := range c.CRLs {
			all = append(all, fromObj(o))
		}
		vec := make([]map[string]string, len(all))
		for i, t := range all {
			vec[i] = map[string]string{}
			if rs, esc, hung := runSet(t, u.base); rs != nil && esc == "" && !hung {
				for n, r := range rs.Results {
					if r != nil {
						vec[i][n] = fmt.Sprintf("%d.%s", int(r.Status), ev.Dg(r.Details))
					}
				}
			}
		}
		perm := rng.Perm(len(all))
		var segs []*cSegment
		for ci, f := range chunkF {
			kind := u.kind[u.rank[chunkNames[ci][0]]-1]
			type cand struct {
				i, judged int
			}
			byKey := map[string]cand{}
			for _, i := range perm {
				if all[i].Kind != kind {
					continue
				}
				key, judged := "", 0
				for _, n := range chunkNames[ci] {
					v := vec[i][n]
					key += v + "|"
					if !strings.HasPrefix(v, "1.") && !strings.HasPrefix(v, "2.") && v != "" {
						judged++
					}
				}
				if _, ok := byKey[key]; !ok {
					byKey[key] = cand{i, judged}
				}
			}
			var cands []cand
			for _, cd := range byKey {
				cands = append(cands, cd)
			}
			sort.Slice(cands, func(a, b int) bool {
				if cands[a].judged != cands[b].judged {
					return cands[a].judged > cands[b].judged
				}
				return cands[a].i < cands[b].i
			})
			if len(cands) < 2 {
				continue // every object gets the same answers from this block: nothing to mix up
			}
			// first, for every lint of the block, objects on which THAT lint answers differently (up to three answers per lint,
			// judged ones first): a helper private to one lint is then fed different inputs at the same instant whatever the
			// other lints of the block say; then the objects that differ on the block as a whole
			picked := map[int]bool{}
			var order []int
			for _, n := range chunkNames[ci] {
				seenV := map[string]bool{}
				var judgedFirst, rest []int
				for _, i := range perm {
					if all[i].Kind != kind {
						continue
					}
					v := vec[i][n]
					if v == "" || seenV[v] {
						continue
					}
					seenV[v] = true
					if strings.HasPrefix(v, "1.") || strings.HasPrefix(v, "2.") {
						rest = append(rest, i)
					} else {
						judgedFirst = append(judgedFirst, i)
					}
				}
				take := append(judgedFirst, rest...)
				if len(take) > 3 {
					take = take[:3]
				}
				for _, i := range take {
					if !picked[i] && len(order) < nobj+len(chunkNames[ci]) {
						picked[i] = true
						order = append(order, i)
					}
				}
			}
			for _, cd := range cands {
				if !picked[cd.i] && len(order) < nobj+3 {
					picked[cd.i] = true
					order = append(order, cd.i)
				}
			}
			objs := []*Target{}
			for _, i := range order {
				objs = append(objs, all[i])
			}
			if len(objs) < 2 {
				continue
			}
			progs := make([][]cOp, ng)
			for g := 0; g < ng; g++ {
				if g == 0 {
					progs[g] = append(progs[g], cOp{Op: "Filter", R: 0, F: f, Into: 1})
				}
				for k := range objs {
					o := 1 + (k+g)%len(objs)
					progs[g] = append(progs[g], cOp{Op: "Lint", O: o, K: kind, R: 1, Reps: reps})
				}
			}
			seg := &cSegment{mode: "hot", progs: progs, objs: objs, info: ev.M{"block": chunkNames[ci][0] + " .. " + chunkNames[ci][len(chunkNames[ci])-1], "objects": len(objs), "reps": reps, "gomaxprocs": runtime.GOMAXPROCS(0)}}
			if !runFree(u, seg, 1, 120*time.Second) {
				sum["hung"] = sum["hung"].(int) + 1
			}
			segs = append(segs, seg)
		}
		calls := 0
		for _, seg := range segs {
			emit(u, seg, 1, aloneEvents(u, seg))
			calls += len(seg.objs) * len(seg.progs) * reps
		}
		sum["hot_calls"], sum["hot_blocks"] = calls, len(segs)
	case "gated":
		scheds := loadSchedules(os.Getenv("VERIF_EXPORT"))
		if len(scheds) == 0 {
			fmt.Fprintln(os.Stderr, "no schedules in VERIF_EXPORT")
			os.Exit(2)
		}
		exact := os.Getenv("VERIF_EXACT") == "1"
		var u *cUniverse
		g := lint.GlobalRegistry()
		if exact {
			// a 4-lint universe shaped like MC_Concurrent: two certificate lints of two sources, a CRL lint, the OCSP lint
			pick := []string{}
			cl := lintsOf(g, "cert")
			a := cl[rng.Intn(len(cl))]
			var b LintRec
			for _, j := range rng.Perm(len(cl)) {
				if cl[j].Source != a.Source {
					b = cl[j]
					break
				}
			}
			rl := lintsOf(g, "crl")
			ol := lintsOf(g, "ocsp")
			pick = append(pick, a.Name, b.Name, rl[rng.Intn(len(rl))].Name, ol[rng.Intn(len(ol))].Name)
			base, err := g.Filter(lint.FilterOptions{IncludeNames: pick})
			if err != nil {
				panic(err)
			}
			u = newUniverse(base, rng)
		} else {
			u = newUniverse(g, rng)
		}
		w.Emit(u.header())
		// catalogue entries standing for the model's three filters
		fmap := map[string]int{}
		certRe := -1
		for i, f := range u.filters {
			d := f.desc
			if is := d["is"].([]string); len(is) == 1 && fmap["S1"] == 0 {
				fmap["S1"] = i + 1
			}
			if d["nf"].(bool) && certRe < 0 {
				certRe = i + 1
			}
			if xx := d["xx"].([]int); len(xx) > 0 && fmap["not1"] == 0 {
				fmap["not1"] = i + 1
			}
		}
		fmap["cert"] = certRe
		crlRank := u.order["crl"][0]
		srcS2 := u.src[u.order["cert"][len(u.order["cert"])-1]-1]
		limit := len(scheds)
		if v := os.Getenv("VERIF_MAXSCHED"); v != "" {
			limit, _ = strconv.Atoi(v)
		}
		perm := rng.Perm(len(scheds))
		type done struct {
			seg    *cSegment
			nslots int
		}
		var all []done
		for k := 0; k < limit && k < len(scheds); k++ {
			s := scheds[perm[k]]
			// objects: certificates for the certificate Lint operations, a CRL and an OCSP response where the model lints those kinds
			objs := pickObjects(rng, c, 3)
			progs := modelPrograms(s.Prog, u, fmap, crlRank, srcS2)
			for g := range progs {
				for i := range progs[g] {
					if progs[g][i].Op == "Lint" && progs[g][i].K != "cert" {
						// give the operation an object of its kind
						var t *Target
						if progs[g][i].K == "crl" {
							t = fromObj(c.CRLs[rng.Intn(len(c.CRLs))])
						} else {
							t = fromObj(c.OCSPs[rng.Intn(len(c.OCSPs))])
						}
						objs = append(objs, t)
						progs[g][i].O = len(objs)
					}
				}
			}
			seg := &cSegment{mode: "gated", progs: progs, objs: objs, info: ev.M{"prog": s.Prog, "sched": s.Sched, "npre": s.NPre, "exact": exact}}
			if !runGated(u, seg, s.Sched, exact, rng, 2) {
				sum["hung"] = sum["hung"].(int) + 1
				all = append(all, done{seg, 2})
				break // goroutines of a hung run cannot be reclaimed: stop here, the Hang event is in the trace
			}
			all = append(all, done{seg, 2})
			sum["schedules"] = sum["schedules"].(int) + 1
		}
		for _, d := range all {
			emit(u, d.seg, d.nslots, aloneEvents(u, d.seg))
		}
	default:
		fmt.Fprintln(os.Stderr, "VERIF_MODE must be gated, free or hot")
		os.Exit(2)
	}
	sum["events"] = w.N
	ev.WriteJSON(out("summary.json"), sum)
}

package main

import (
	"math/rand"

	"github.com/zmap/zlint/v3/lint"
	"verif/harness/internal/corpus"
	"verif/harness/internal/ev"
)

// extraTargets: forged objects added to the corpus for history-type checks (filled in by the forging plans).
func extraTargets(rng *rand.Rand) []*Target { return forgedMultiOffenders(rng) }

// cmdCover: a small set of corpus objects on which every lint that judges anything at all judges at least once (greedy set
// cover over one sequential pass of the full registry).  Written as cover.json (object ids) for drivers that must start COLD -
// the free-running concurrent driver lints these objects first, from several goroutines, in a process in which nothing has
// been linted before, so that whatever a lint or helper builds lazily on first use is built under concurrency.
func cmdCover(args []string) {
	parseFlags(args)
	c := corpus.Load()
	g := lint.GlobalRegistry()
	objs := loadTargets(c)
	judged := make([]map[string]bool, len(objs))
	all := map[string]bool{}
	for i, t := range objs {
		judged[i] = map[string]bool{}
		rs, esc, hung := runSet(t, g)
		if rs == nil || esc != "" || hung {
			continue
		}
		for n, r := range rs.Results {
			if r != nil && r.Status != lint.NA && r.Status != lint.NE {
				judged[i][n] = true
				all[n] = true
			}
		}
	}
	covered := map[string]bool{}
	var ids []string
	for len(covered) < len(all) && len(ids) < 150 {
		best, gain := -1, 0
		for i := range objs {
			n := 0
			for k := range judged[i] {
				if !covered[k] {
					n++
				}
			}
			if n > gain {
				best, gain = i, n
			}
		}
		if best < 0 {
			break
		}
		for k := range judged[best] {
			covered[k] = true
		}
		ids = append(ids, objs[best].ID)
	}
	ev.WriteJSON(out("cover.json"), ids)
	ev.WriteJSON(out("summary.json"), ev.M{"objects": len(ids), "lints_judging": len(all), "covered": len(covered)})
}

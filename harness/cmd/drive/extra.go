package main

import "math/rand"

// extraTargets: forged objects added to the corpus for history-type checks (filled in by the forging plans).
func extraTargets(rng *rand.Rand) []*Target { return forgedMultiOffenders(rng) }

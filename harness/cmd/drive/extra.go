package main

import (
	"bytes"
	"encoding/json"
	"fmt"
	"math/rand"
	"os"
	"os/exec"
	"path/filepath"
	"regexp"
	"sort"

	"github.com/zmap/zlint/v3/lint"
	"verif/harness/internal/corpus"
	"verif/harness/internal/ev"
)

// extraTargets: forged objects added to the corpus for history-type checks (filled in by the forging plans).
func extraTargets(rng *rand.Rand) []*Target { return forgedMultiOffenders(rng) }

// cmdCover: a small set of corpus objects on which every (lint, verdict) pair seen on the corpus is seen at least once (greedy set
// cover over one sequential pass of the full registry).  Written as cover.json (object ids) for drivers that must start COLD -
// the free-running concurrent driver lints these objects first, from several goroutines, in a process in which nothing has
// been linted before, so that whatever a lint or helper builds lazily on first use is built under concurrency.
func cmdCover(args []string) {
	parseFlags(args)
	c := corpus.Load()
	g := lint.GlobalRegistry()
	objs := loadTargets(c)
	judged := make([]map[string]bool, len(objs))
	all := map[string]bool{}
	for i, t := range objs {
		judged[i] = map[string]bool{}
		rs, esc, hung := runSet(t, g)
		if rs == nil || esc != "" || hung {
			continue
		}
		for n, r := range rs.Results {
			if r != nil && r.Status != lint.NA && r.Status != lint.NE {
				// covered = every (lint, verdict) pair: the object on which a rule warns usually goes down another path of the rule
				// (another encoding, another branch of a helper) than the one on which it passes
				k := fmt.Sprintf("%s|%d", n, r.Status)
				judged[i][k] = true
				all[k] = true
			}
		}
	}
	covered := map[string]bool{}
	var ids []string
	for len(covered) < len(all) && len(ids) < 400 {
		best, gain := -1, 0
		for i := range objs {
			n := 0
			for k := range judged[i] {
				if !covered[k] {
					n++
				}
			}
			if n > gain {
				best, gain = i, n
			}
		}
		if best < 0 {
			break
		}
		for k := range judged[best] {
			covered[k] = true
		}
		ids = append(ids, objs[best].ID)
	}
	ev.WriteJSON(out("cover.json"), ids)
	ev.WriteJSON(out("summary.json"), ev.M{"objects": len(ids), "lints_judging": len(all), "covered": len(covered)})
}

// cmdFlagCensus: what the tool reports under switches this framework does not know.  The boolean flags of `zlint -h` that are
// not among the known ones are switched on, one at a time, for a sample of corpus certificates; every (lint, status) pair
// the tool then prints joins the status stream of C06 (a lint's name and what it reports must agree whatever mode the tool
// is in).  Output: statuses.json.
func cmdFlagCensus(args []string) {
	parseFlags(args)
	cli := os.Getenv("VERIF_CLI")
	known := map[string]bool{"config": true, "exampleConfig": true, "excludeNames": true, "excludeSources": true, "format": true, "includeNames": true,
		"includeSources": true, "list-lints-json": true, "list-lints-source": true, "list-profiles": true, "longSummary": true, "nameFilter": true,
		"pretty": true, "profile": true, "summary": true, "version": true, "h": true, "help": true}
	var hb bytes.Buffer
	hc := exec.Command(cli, "-h")
	hc.Stdout, hc.Stderr = &hb, &hb
	hc.Run()
	var unknownBool, unknownValue []string
	re := regexp.MustCompile(`(?m)^\s+-([A-Za-z][A-Za-z0-9_-]*)( \S+)?\s*$`)
	for _, m := range re.FindAllStringSubmatch(hb.String(), -1) {
		if !known[m[1]] && m[2] == "" {
			unknownBool = append(unknownBool, m[1])
		} else if !known[m[1]] {
			unknownValue = append(unknownValue, m[1]) // a switch that takes a value: nothing here knows what to feed it (reported as drift)
		}
	}
	statuses := map[string]bool{}
	runs := 0
	if len(unknownBool) > 0 {
		c := corpus.Load()
		work := out("work")
		os.MkdirAll(work, 0o755)
		label := map[string]int{"NA": 1, "NE": 2, "pass": 3, "info": 4, "warn": 5, "error": 6, "fatal": 7}
		step := 9
		if tier == "thorough" {
			step = 1
		}
		for _, fl := range unknownBool {
			for i := int(seed) % step; i < len(c.Certs); i += step {
				p := filepath.Join(work, "c.pem")
				os.WriteFile(p, pemEncode("CERTIFICATE", c.Certs[i].DER), 0o644)
				outb, err := exec.Command(cli, "-"+fl, p).Output()
				runs++
				if err != nil {
					continue
				}
				var res map[string]struct {
					Result string `json:"result"`
				}
				if json.Unmarshal(bytes.TrimSpace(outb), &res) != nil {
					continue
				}
				for name, r := range res {
					if st, ok := label[r.Result]; ok {
						statuses[fmt.Sprintf("%s|%d", name, st)] = true
					}
				}
			}
		}
		os.RemoveAll(work)
	}
	var sl []string
	for s := range statuses {
		sl = append(sl, s)
	}
	sort.Strings(sl)
	ev.WriteJSON(out("statuses.json"), sl)
	ev.WriteJSON(out("summary.json"), ev.M{"unknown_boolean_flags": unknownBool, "unknown_value_flags": unknownValue, "runs": runs})
}

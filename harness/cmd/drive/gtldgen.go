package main

// gtldgen: C18, "all future regenerations of the table". The real generator (cmd/zlint-gtld-update, built with an overlaid
// transport that serves the registry documents from files) is run on synthetic registry data; whatever table it writes is
// read back from the AST and judged by TLD!EntryWellFormed.  A generator may refuse bad registry data (non-zero exit,
// nothing written) - it must not write a table that breaks the invariants.
import (
	"encoding/json"
	"fmt"
	"os"
	"os/exec"
	"path/filepath"
	"sort"
	"strings"

	"verif/harness/internal/ev"
)

type genEntry struct {
	G string  `json:"gTLD"`
	D *string `json:"delegationDate"`
	R *string `json:"removalDate"`
}

func sp(s string) *string { return &s }

func cmdGtldGen(args []string) {
	parseFlags(args)
	exe := os.Getenv("VERIF_GTLDUPD")
	work := out("work")
	os.MkdirAll(work, 0o755)
	clean := []genEntry{{"aaa", sp("2015-08-20"), nil}, {"bbb", sp("2016-01-02"), sp("2020-01-01")}, {"neverdelegated", nil, nil}, {"ccc", sp("2014-06-01"), sp("2014-06-01")}}
	with := func(e ...genEntry) []genEntry { return append(append([]genEntry{}, clean...), e...) }
	tldsClean := "# Version 2024092900, Last Updated Sun Sep 29 07:07:01 2024 UTC\nAAA\nCOM\nUK\nXN--P1AI\n"
	scenarios := []struct {
		name  string
		gtlds []genEntry
		tlds  string
		class string // clean | bad-date | order | case
	}{
		{"clean", clean, tldsClean, "clean"},
		{"clean-empty-removal-string", with(genEntry{"ddd", sp("2017-03-04"), sp("")}), tldsClean, "clean"},
		{"delegation-leading-blank", with(genEntry{"padded", sp(" 2016-01-02"), nil}), tldsClean, "bad-date"},
		{"delegation-trailing-blank", with(genEntry{"padded", sp("2016-01-02 "), nil}), tldsClean, "bad-date"},
		{"removal-leading-blank", with(genEntry{"padded", sp("2016-01-02"), sp(" 2023-06-05")}), tldsClean, "bad-date"},
		{"removal-trailing-newline", with(genEntry{"padded", sp("2016-01-02"), sp("2023-06-05\n")}), tldsClean, "bad-date"},
		{"delegation-not-a-date", with(genEntry{"odd", sp("2016-13-45"), nil}), tldsClean, "bad-date"},
		{"delegation-other-format", with(genEntry{"odd", sp("02/01/2016"), nil}), tldsClean, "bad-date"},
		{"delegation-with-time", with(genEntry{"odd", sp("2016-01-02T00:00:00Z"), nil}), tldsClean, "bad-date"},
		{"removal-not-a-date", with(genEntry{"odd", sp("2016-01-02"), sp("soon")}), tldsClean, "bad-date"},
		{"removal-feb-30", with(genEntry{"odd", sp("2016-01-02"), sp("2019-02-30")}), tldsClean, "bad-date"},
		{"removal-before-delegation", with(genEntry{"back", sp("2016-01-02"), sp("2015-12-31")}), tldsClean, "order"},
		{"upper-case-name", with(genEntry{"UPPER", sp("2016-01-02"), nil}), tldsClean, "case"},
		{"mixed-case-name", with(genEntry{"MiXed", sp("2016-01-02"), nil}), tldsClean, "case"},
		{"tld-list-with-blank-lines-and-crlf", clean, "# Version\r\nAAA\r\n\r\nCOM\r\n", "clean"},
		{"listed-twice-closed-then-open", with(genEntry{"twice", sp("2014-03-01"), sp("2016-06-30")}, genEntry{"twice", sp("2020-02-02"), nil}), tldsClean, "dup"},
		{"listed-twice-open-then-closed", with(genEntry{"twice", sp("2020-02-02"), nil}, genEntry{"twice", sp("2014-03-01"), sp("2016-06-30")}), tldsClean, "dup"},
		{"listed-twice-and-in-tld-list", with(genEntry{"aaa", sp("2019-01-01"), sp("2019-06-01")}), tldsClean, "dup"},
		{"never-delegated-but-in-tld-list", with(genEntry{"uk", nil, nil}), tldsClean, "clean"},
	}
	w := ev.Create(out("gtldgen.ndjson"))
	for si, sc := range scenarios {
		gj := filepath.Join(work, fmt.Sprintf("g%d.json", si))
		tl := filepath.Join(work, fmt.Sprintf("t%d.txt", si))
		of := filepath.Join(work, fmt.Sprintf("out%d.go", si))
		b, _ := json.Marshal(map[string]interface{}{"gTLDs": sc.gtlds, "version": 2})
		os.WriteFile(gj, b, 0o644)
		os.WriteFile(tl, []byte(sc.tlds), 0o644)
		cmd := exec.Command(exe, of)
		cmd.Env = append(os.Environ(), "VERIF_GTLD_JSON="+gj, "VERIF_TLDS="+tl)
		outb, err := cmd.CombinedOutput()
		exit := 0
		if err != nil {
			exit = 1
		}
		var tbl []tldEntry
		wrote := false
		if st, e2 := os.Stat(of); e2 == nil && st.Size() > 0 {
			wrote = true
			func() {
				defer func() {
					if recover() != nil {
						tbl = nil
					}
				}()
				tbl = readTLDTableFrom(of)
			}()
		}
		sort.Slice(tbl, func(i, j int) bool { return tbl[i].Key < tbl[j].Key })
		keys, lower, gt := []string{}, []string{}, []string{}
		del, rem := [][]int{}, [][]int{}
		for _, e := range tbl {
			keys, lower, gt = append(keys, e.Key), append(lower, strings.ToLower(e.Key)), append(gt, e.GTLD)
			del, rem = append(del, dateTuple(e.Deleg)), append(rem, dateTuple(e.Removal))
		}
		w.Emit(ev.M{"ev": "Gen", "scenario": sc.name, "class": sc.class, "exit": exit, "wrote": wrote, "parsedBack": wrote && tbl != nil,
			"keys": keys, "keysLower": lower, "gtld": gt, "deleg": del, "removal": rem, "stderr": firstLine(string(outb))})
	}
	n := w.N
	w.Close()
	os.RemoveAll(work)
	ev.WriteJSON(out("summary.json"), ev.M{"scenarios": n})
}

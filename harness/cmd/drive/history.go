package main

import (
	"bytes"
	"encoding/json"
	"fmt"
	"hash/fnv"
	"math/big"
	"math/rand"
	"os"
	"reflect"
	"regexp"
	"sort"
	"strings"
	"time"

	toml "github.com/pelletier/go-toml"
	"github.com/zmap/zcrypto/x509"
	"github.com/zmap/zcrypto/x509/pkix"
	zlint "github.com/zmap/zlint/v3"
	"github.com/zmap/zlint/v3/lint"
	"verif/harness/internal/corpus"
	"verif/harness/internal/ev"
)

// ---------------------------------------------------------------- configurations

type cfgEntry struct {
	id      string
	toml    string
	cfg     lint.Configuration
	classes map[string]string // configurable lint name -> what this configuration says to it (known by construction)
}

type cfgCatalog struct {
	byID         map[string]*cfgEntry
	ids          []string
	configurable []string
	defaultsOK   ev.M
	defTree      *toml.Tree
}

// identifierConfig renders a configuration in which every string / list-of-strings option of every configurable lint holds the
// given identifiers of one object (finger prints, serial number...): what an allow-list keyed by the object would hold.
// Registered under id; nil when no lint has such an option.
func (cat *cfgCatalog) identifierConfig(id string, idents []string) *cfgEntry {
	if cat.defTree == nil {
		return nil
	}
	q := make([]string, len(idents))
	for i, sv := range idents {
		q[i] = fmt.Sprintf("%q", sv)
	}
	var text strings.Builder
	classes := map[string]string{}
	for _, n := range cat.configurable {
		sub, ok := cat.defTree.Get(n).(*toml.Tree)
		if !ok {
			continue
		}
		var lines []string
		for _, key := range sub.Keys() {
			switch x := sub.Get(key).(type) {
			case string:
				lines = append(lines, key+" = "+q[0])
			case []interface{}:
				allStr := true
				for _, e := range x {
					if _, isStr := e.(string); !isStr {
						allStr = false
					}
				}
				if allStr {
					lines = append(lines, key+" = ["+strings.Join(q, ", ")+"]")
				}
			}
		}
		if len(lines) > 0 {
			fmt.Fprintf(&text, "[%s]\n%s\n\n", n, strings.Join(lines, "\n"))
			classes[n] = "val:identifiers-of-the-object"
		}
	}
	if len(classes) == 0 {
		return nil
	}
	c, err := lint.NewConfigFromString(text.String())
	if err != nil {
		return nil
	}
	full := map[string]string{}
	for _, n := range cat.configurable {
		full[n] = "absent"
	}
	for k, v := range classes {
		full[k] = v
	}
	e := &cfgEntry{id: id, toml: text.String(), cfg: c, classes: full}
	cat.byID[id] = e
	return e
}

func tomlScalar(v interface{}) string {
	switch x := v.(type) {
	case bool:
		return fmt.Sprint(x)
	case int64:
		return fmt.Sprint(x)
	case float64:
		return fmt.Sprint(x)
	case string:
		return fmt.Sprintf("%q", x)
	}
	return ""
}

// buildCatalog renders, for every configurable lint, configurations of every shape from the example configuration.
func buildCatalog(g lint.Registry) *cfgCatalog {
	cat := &cfgCatalog{byID: map[string]*cfgEntry{}}
	for _, k := range []string{"cert", "crl", "ocsp"} {
		for _, l := range lintsOf(g, k) {
			if l.Cfgable {
				cat.configurable = append(cat.configurable, l.Name)
			}
		}
	}
	sort.Strings(cat.configurable)
	add := func(id, text string, classes map[string]string) {
		c, err := lint.NewConfigFromString(text)
		if err != nil {
			panic(fmt.Sprintf("catalog %s: %v\n%s", id, err, text))
		}
		full := map[string]string{}
		for _, n := range cat.configurable {
			full[n] = "absent"
		}
		for k, v := range classes {
			full[k] = v
		}
		cat.byID[id] = &cfgEntry{id: id, toml: text, cfg: c, classes: full}
		cat.ids = append(cat.ids, id)
	}
	add("empty", "", nil)
	add("unrelated", "[verif_unrelated]\nx = 1\ny = \"z\"\n\n[some.nested.section]\nflag = true\n\n[e_no_such_lint]\nRounds = 5\n", nil)
	// the generated example configuration
	def, err := g.DefaultConfiguration()
	info := ev.M{"ev": "DefaultCfg", "configurable": cat.configurable, "validToml": false, "sections": []string{}}
	var defTree *toml.Tree
	if err == nil {
		if t, err2 := toml.LoadBytes(def); err2 == nil {
			defTree = t
			cat.defTree = t
			info["validToml"] = true
			info["sections"] = t.Keys()
			cls := map[string]string{}
			for _, n := range cat.configurable {
				if t.Has(n) {
					cls[n] = "default"
				}
			}
			if _, err3 := lint.NewConfigFromString(string(def)); err3 == nil {
				add("defaults", string(def), cls)
			} else {
				info["validToml"] = false
			}
		}
	}
	cat.defaultsOK = info
	for _, n := range cat.configurable {
		add("scalar:"+n, n+" = 5\n", map[string]string{n: "scalar"})
		add("array:"+n, n+" = [1, 2]\n", map[string]string{n: "array"})
		add("emptysec:"+n, "["+n+"]\n", map[string]string{n: "default"})
		add("unknownkey:"+n, "["+n+"]\nNoSuchOption = 7\n", map[string]string{n: "unknownkey"})
		if defTree == nil || !defTree.Has(n) {
			continue
		}
		sub, ok := defTree.Get(n).(*toml.Tree)
		if !ok {
			continue
		}
		for _, key := range sub.Keys() {
			v := sub.Get(key)
			var flipped []string
			var ill string
			switch x := v.(type) {
			case bool:
				flipped = []string{fmt.Sprint(!x)}
				ill = "\"yes\""
			case int64:
				flipped = []string{"0", "1", "100", "10000"}
				ill = "\"many\""
			case string:
				flipped = []string{"\"verif\""}
				ill = "17"
			case []interface{}:
				// a list of strings: shorter lists, the empty list - and, when every default names a field of one of the
				// certificate's structures, every other field of that structure (as well-typed a value as the defaults are)
				var strs []string
				for _, e := range x {
					if sv, ok := e.(string); ok {
						strs = append(strs, sv)
					}
				}
				if len(strs) != len(x) {
					continue
				}
				lit := func(l []string) string {
					q := make([]string, len(l))
					for i, sv := range l {
						q[i] = fmt.Sprintf("%q", sv)
					}
					return "[" + strings.Join(q, ", ") + "]"
				}
				flipped = []string{"[]", lit([]string{"verif"})}
				if len(strs) > 1 {
					flipped = append(flipped, lit(strs[:1]), lit(strs[len(strs)-1:]))
				}
				for _, other := range fieldDictionary(strs) {
					flipped = append(flipped, lit([]string{other}))
					if len(strs) > 0 {
						flipped = append(flipped, lit([]string{strs[0], other}))
					}
				}
				ill = "17"
			default:
				continue
			}
			for _, f := range flipped {
				if f == tomlScalar(v) {
					add("same:"+n+":"+key, "["+n+"]\n"+key+" = "+f+"\n", map[string]string{n: "default"})
					continue
				}
				add("val:"+n+":"+key+"="+f, "["+n+"]\n"+key+" = "+f+"\n\n[verif_unrelated]\nx = 2\n", map[string]string{n: "val:" + key + "=" + f})
			}
			add("ill:"+n+":"+key, "["+n+"]\n"+key+" = "+ill+"\n", map[string]string{n: "ill"})
		}
	}
	return cat
}

// fieldDictionary: when every word names an exported field of one structure of a parsed object (the certificate, a
// distinguished name, a revocation list...), the names of that structure's other exported fields.
func fieldDictionary(words []string) []string {
	if len(words) == 0 {
		return nil
	}
	for _, ty := range []reflect.Type{reflect.TypeOf(pkix.Name{}), reflect.TypeOf(x509.Certificate{}), reflect.TypeOf(x509.RevocationList{}), reflect.TypeOf(pkix.Extension{})} {
		has := map[string]bool{}
		for i := 0; i < ty.NumField(); i++ {
			if ty.Field(i).PkgPath == "" {
				has[ty.Field(i).Name] = true
			}
		}
		all := true
		for _, w := range words {
			if !has[w] {
				all = false
			}
		}
		if !all {
			continue
		}
		var others []string
		for i := 0; i < ty.NumField() && len(others) < 40; i++ {
			if f := ty.Field(i); f.PkgPath == "" {
				mine := false
				for _, w := range words {
					mine = mine || w == f.Name
				}
				if !mine {
					others = append(others, f.Name)
				}
			}
		}
		return others
	}
	return nil
}

// ---------------------------------------------------------------- object snapshot (read-only check)

func snapHash(v interface{}) string {
	h := fnv.New64a()
	seen := map[uintptr]bool{}
	var walk func(rv reflect.Value, depth int)
	walk = func(rv reflect.Value, depth int) {
		if depth > 12 || !rv.IsValid() {
			return
		}
		switch rv.Kind() {
		case reflect.Ptr:
			if rv.IsNil() {
				h.Write([]byte{0})
				return
			}
			if rv.Type() == reflect.TypeOf(&big.Int{}) {
				h.Write(rv.Interface().(*big.Int).Bytes())
				return
			}
			if seen[rv.Pointer()] {
				return
			}
			seen[rv.Pointer()] = true
			walk(rv.Elem(), depth+1)
		case reflect.Interface:
			if !rv.IsNil() {
				h.Write([]byte(rv.Elem().Type().String()))
				walk(rv.Elem(), depth+1)
			}
		case reflect.Struct:
			if rv.Type() == reflect.TypeOf(time.Time{}) {
				t := rv.Interface().(time.Time)
				fmt.Fprintf(h, "%d/%s", t.UnixNano(), t.Location())
				return
			}
			for i := 0; i < rv.NumField(); i++ {
				if rv.Type().Field(i).PkgPath != "" {
					continue // unexported
				}
				h.Write([]byte(rv.Type().Field(i).Name))
				walk(rv.Field(i), depth+1)
			}
		case reflect.Slice, reflect.Array:
			fmt.Fprintf(h, "[%d", rv.Len())
			if rv.Kind() == reflect.Slice && rv.Type().Elem().Kind() == reflect.Uint8 {
				h.Write(rv.Bytes())
				return
			}
			for i := 0; i < rv.Len(); i++ {
				walk(rv.Index(i), depth+1)
			}
		case reflect.Map:
			keys := rv.MapKeys()
			ks := make([]string, len(keys))
			for i, k := range keys {
				ks[i] = fmt.Sprint(k.Interface())
			}
			sort.Strings(ks)
			fmt.Fprintf(h, "{%v", ks)
		case reflect.String:
			h.Write([]byte(rv.String()))
			h.Write([]byte{1})
		case reflect.Bool:
			fmt.Fprint(h, rv.Bool())
		case reflect.Int, reflect.Int8, reflect.Int16, reflect.Int32, reflect.Int64:
			fmt.Fprint(h, rv.Int())
		case reflect.Uint, reflect.Uint8, reflect.Uint16, reflect.Uint32, reflect.Uint64, reflect.Uintptr:
			fmt.Fprint(h, rv.Uint())
		case reflect.Float32, reflect.Float64:
			fmt.Fprint(h, rv.Float())
		}
	}
	walk(reflect.ValueOf(v), 0)
	return fmt.Sprintf("%016x", h.Sum64())
}

func (t *Target) snapshot() string {
	switch t.Kind {
	case "cert":
		return snapHash(t.Cert)
	case "crl":
		return snapHash(t.CRL)
	}
	return snapHash(t.OCSP)
}

// ---------------------------------------------------------------- the history

type hreg struct {
	reg   lint.Registry
	cfg   string // id of the configuration currently set
	class string
}

type obsRec struct {
	obj            int   // memo segment
	facts          Facts // of the object actually linted (a variant of the segment's base has its own)
	st             []int8
	dg             []string // interned
	sel            []int    // shared between observations with the same selection
	flags          []bool
	cfgIdx         []int
	cfgSec, cfgCls []string
	escaped        bool
	tag            string
	panicMsg       string
}

type history struct {
	g      lint.Registry
	cat    *cfgCatalog
	byKind map[string][]LintRec
	index  map[string]map[string]int
	objs   []*Target
	regs   []*hreg
	obs    []obsRec
	snaps  []ev.M
	nLint  int
	// statusOnly: details digests are blanked when writing (properties that speak about status alone)
	statusOnly bool
	// fresh: every run lints a freshly parsed copy of the object, so that a run cannot hand a modified object to the next one
	// (C07: what other lints did to the object must show as a difference between registries, not be shared by both)
	fresh bool
	strs  map[string]string
	sels  map[string][]int
}

func newHistory(objs []*Target) *history {
	h := &history{g: lint.GlobalRegistry(), objs: objs, byKind: map[string][]LintRec{}, index: map[string]map[string]int{}}
	for _, k := range []string{"cert", "crl", "ocsp"} {
		h.byKind[k] = lintsOf(h.g, k)
		h.index[k] = map[string]int{}
		for i, l := range h.byKind[k] {
			h.index[k][l.Name] = i + 1
		}
	}
	h.cat = buildCatalog(h.g)
	h.g.SetConfiguration(h.cat.byID["empty"].cfg)
	h.regs = []*hreg{{reg: h.g, cfg: "empty", class: "full"}}
	return h
}

// intern / shareSel keep one copy of the strings and selections that nearly every observation repeats
func (h *history) intern(sv string) string {
	if h.strs == nil {
		h.strs = map[string]string{}
	}
	if x, ok := h.strs[sv]; ok {
		return x
	}
	h.strs[sv] = sv
	return sv
}

func (h *history) shareSel(sel []int) []int {
	if h.sels == nil {
		h.sels = map[string][]int{}
	}
	k := fmt.Sprint(sel)
	if x, ok := h.sels[k]; ok {
		return x
	}
	h.sels[k] = sel
	return sel
}

func (h *history) filter(parent int, class string, o lint.FilterOptions) int {
	r, err := h.regs[parent].reg.Filter(o)
	if err != nil {
		return -1
	}
	if r == h.regs[parent].reg && o.Empty() {
		return parent // documented: no options, the registry itself
	}
	// with options the result is a registry of its own (Registry.tla): it is tracked as one even if the code hands back the
	// parent, so that configuration set on it later must not show in the parent
	h.regs = append(h.regs, &hreg{reg: r, cfg: h.regs[parent].cfg, class: class})
	return len(h.regs) - 1
}

func (h *history) setCfg(r int, id string) {
	h.regs[r].reg.SetConfiguration(h.cat.byID[id].cfg)
	h.regs[r].cfg = id
}

func (h *history) lint(oi, ri int, tag string, snap bool) {
	h.lintTarget(oi, h.objs[oi], ri, tag, snap)
}

// lintTarget lints t (which may be a variant of the segment's base object) and files the observation under memo segment oi.
func (h *history) lintTarget(oi int, t *Target, ri int, tag string, snap bool) {
	hr := h.regs[ri]
	ls := h.byKind[t.Kind]
	var before string
	if snap {
		before = t.snapshot()
	}
	if h.fresh && t.DER != nil {
		switch t.Kind {
		case "cert":
			if c, ok, _ := corpus.ParseCert(t.DER); ok {
				t = &Target{Kind: t.Kind, ID: t.ID, DER: t.DER, Cert: c}
			}
		case "crl":
			if c, ok, _ := corpus.ParseCRL(t.DER); ok {
				t = &Target{Kind: t.Kind, ID: t.ID, DER: t.DER, CRL: c}
			}
		default:
			if c, ok, _ := corpus.ParseOCSP(t.DER); ok {
				t = &Target{Kind: t.Kind, ID: t.ID, DER: t.DER, OCSP: c}
			}
		}
	}
	rs, esc, hung := runSet(t, hr.reg)
	h.nLint++
	o := obsRec{obj: oi, facts: Facts{Ekus: []int{}, Pols: []string{}}, st: make([]int8, len(ls)), dg: make([]string, len(ls)), sel: []int{}, flags: []bool{false, false, false, false},
		cfgIdx: []int{}, cfgSec: []string{}, cfgCls: []string{}, escaped: esc != "" || hung, panicMsg: esc,
		tag: fmt.Sprintf("%s|reg=%s#%d|cfg=%s", tag, hr.class, ri, hr.cfg)}
	for i := range o.st {
		o.st[i] = -9
	}
	for _, l := range lintsOf(hr.reg, t.Kind) {
		if ix, ok := h.index[t.Kind][l.Name]; ok {
			o.sel = append(o.sel, ix)
		}
	}
	if t.Kind == "cert" {
		o.facts = certFacts(t.Cert)
	}
	o.sel = h.shareSel(o.sel)
	classes := h.cat.byID[hr.cfg].classes
	if rs != nil {
		for name, r := range rs.Results {
			ix, ok := h.index[t.Kind][name]
			if !ok {
				continue
			}
			if r == nil {
				o.st[ix-1] = -3
				continue
			}
			o.st[ix-1], o.dg[ix-1] = int8(r.Status), h.intern(ev.Dg(r.Details))
			if c, isCfg := classes[name]; isCfg {
				o.cfgIdx, o.cfgSec, o.cfgCls = append(o.cfgIdx, ix), append(o.cfgSec, c), append(o.cfgCls, detailsClass(name, r.Details))
			}
		}
		o.flags = []bool{rs.NoticesPresent, rs.WarningsPresent, rs.ErrorsPresent, rs.FatalsPresent}
	} else if o.escaped {
		// the run did not return: record what the configuration said, so the rejection can be explained
		for name, c := range classes {
			if ix, ok := h.index[t.Kind][name]; ok && c != "absent" {
				o.cfgIdx, o.cfgSec, o.cfgCls = append(o.cfgIdx, ix), append(o.cfgSec, c), append(o.cfgCls, "")
			}
		}
	}
	h.obs = append(h.obs, o)
	if snap {
		h.snaps = append(h.snaps, ev.M{"ev": "Snapshot", "objIx": oi, "obj": t.ID, "before": before, "after": t.snapshot(), "what": tag})
	}
}

// write emits the observations grouped by object (one memo segment per object).
func (h *history) write(path string) int {
	w := ev.Create(path)
	for _, k := range []string{"cert", "crl", "ocsp"} {
		w.Emit(metaEvent(k, h.byKind[k]))
	}
	w.Emit(h.cat.defaultsOK)
	per := map[int][]int{}
	for i, o := range h.obs {
		per[o.obj] = append(per[o.obj], i)
	}
	snapsPer := map[int][]ev.M{}
	for _, s := range h.snaps {
		snapsPer[s["objIx"].(int)] = append(snapsPer[s["objIx"].(int)], s)
	}
	for oi, t := range h.objs {
		if len(per[oi]) == 0 {
			continue
		}
		w.Emit(ev.M{"ev": "Reset", "obj": t.ID, "kind": t.Kind})
		for _, i := range per[oi] {
			o := h.obs[i]
			f := o.facts
			if h.statusOnly {
				for k := range o.dg {
					o.dg[k] = ""
				}
			}
			w.Emit(ev.M{"ev": "Lint", "obj": t.ID, "kind": t.Kind, "ekus": f.Ekus, "unk": f.Unk, "pols": f.Pols, "email": f.Email, "st": o.st, "dg": o.dg, "sel": o.sel, "flags": o.flags,
				"cfgIdx": o.cfgIdx, "cfgSec": o.cfgSec, "cfgCls": o.cfgCls, "escaped": o.escaped, "tag": o.tag, "panicMsg": o.panicMsg})
		}
		for _, s := range snapsPer[oi] {
			delete(s, "objIx")
			w.Emit(s)
		}
	}
	n := w.N
	w.Close()
	return n
}

func loadTargets(c *corpus.Corpus) []*Target {
	var ts []*Target
	for _, o := range c.Certs {
		ts = append(ts, fromObj(o))
	}
	for _, o := range c.CRLs {
		ts = append(ts, fromObj(o))
	}
	for _, o := range c.OCSPs {
		ts = append(ts, fromObj(o))
	}
	return ts
}

// cmdHistory: phases selected by VERIF_PHASES (comma list of: filter, repeat, config, model).
func cmdHistory(args []string) {
	parseFlags(args)
	rng := rand.New(rand.NewSource(seed))
	phases := map[string]bool{}
	for _, p := range strings.Split(os.Getenv("VERIF_PHASES"), ",") {
		phases[p] = true
	}
	objs := loadTargets(corpus.Load())
	objs = append(objs, extraTargets(rng)...)
	if only != "" {
		var keep []*Target
		for _, t := range objs {
			if t.ID == only {
				keep = append(keep, t)
			}
		}
		objs = keep
	}
	h := newHistory(objs)
	thorough := tier == "thorough"
	sum := ev.M{}
	// objects on which a configurable lint reports a finding (probe run in another process): always part of configured rounds
	matterIDs := map[string]bool{}
	if p := os.Getenv("VERIF_USE_IDS"); p != "" {
		var ids []string
		if b, err := os.ReadFile(p); err == nil && json.Unmarshal(b, &ids) == nil {
			for _, id := range ids {
				matterIDs[id] = true
			}
		}
	}

	if phases["filter"] {
		// ---- C07: filtered registries vs the full one, in both orders, every run on a freshly parsed copy
		h.fresh = true
		var fam []int
		srcs := h.g.Sources()
		sort.Sort(srcs)
		for _, s := range srcs {
			fam = append(fam, h.filter(0, "inc:"+string(s), lint.FilterOptions{IncludeSources: lint.SourceList{s}}))
			fam = append(fam, h.filter(0, "exc:"+string(s), lint.FilterOptions{ExcludeSources: lint.SourceList{s}}))
		}
		for _, re := range []string{"^e_", "^[wn]_", "dns|san|ian", "rsa|ec|key", "crl|ocsp", "^e_(sub|ext)_"} {
			fam = append(fam, h.filter(0, "re:"+re, lint.FilterOptions{NameFilter: regexp.MustCompile(re)}))
		}
		names := h.g.Names()
		nsub := 10
		if thorough {
			nsub = 60
		}
		for k := 0; k < nsub; k++ {
			var pick []string
			for j := 0; j < 1+rng.Intn(120); j++ {
				pick = append(pick, names[rng.Intn(len(names))])
			}
			if k%2 == 0 {
				fam = append(fam, h.filter(0, fmt.Sprintf("incnames%d", k), lint.FilterOptions{IncludeNames: pick}))
			} else {
				fam = append(fam, h.filter(0, fmt.Sprintf("excnames%d", k), lint.FilterOptions{ExcludeNames: pick}))
			}
		}
		// singleton registries, every lint
		single := map[string][]int{}
		for _, k := range []string{"cert", "crl", "ocsp"} {
			for _, l := range h.byKind[k] {
				single[k] = append(single[k], h.filter(0, "single:"+l.Name, lint.FilterOptions{IncludeNames: []string{l.Name}}))
			}
		}
		// a filter of a filter
		ff := h.filter(fam[1], "exc-then-re", lint.FilterOptions{NameFilter: regexp.MustCompile("^e_")})
		fam = append(fam, ff)
		perObj := 6
		nsingle := 25
		if thorough {
			perObj, nsingle = len(fam), 120
			if perObj > 48 {
				perObj = 48 // (observations are kept in memory until they are written: 10^6 runs of 377 results is the limit)
			}
		}
		for oi, t := range objs {
			po, ns := perObj, nsingle
			if strings.HasPrefix(t.ID, "forged:") {
				po, ns = 6, 25 // forged inputs are many: the quick proportions, in both tiers
			}
			order := rng.Perm(len(fam))[:po]
			sg := single[t.Kind]
			var picks []int
			for j := 0; j < ns && j < len(sg); j++ {
				picks = append(picks, sg[rng.Intn(len(sg))])
			}
			if oi%2 == 0 {
				h.lint(oi, 0, "full-first", false)
			}
			for _, fi := range order {
				h.lint(oi, fam[fi], "filtered", false)
			}
			for _, si := range picks {
				h.lint(oi, si, "single", false)
			}
			if oi%2 == 1 {
				h.lint(oi, 0, "full-last", false)
			}
		}
		// the same under non-default configurations: a filtered registry inherits the configuration of the registry it was
		// made from, so full and filtered runs still agree (the memo key holds what the configuration says to the lint)
		seenLint := map[string]bool{}
		for _, id := range h.cat.ids {
			// one option-changing configuration and one unapplicable section (that lint answers fatal: the others must not notice) per configurable lint
			if !strings.HasPrefix(id, "val:") && !strings.HasPrefix(id, "scalar:") {
				continue
			}
			name := strings.Split(id, ":")[1]
			if seenLint[strings.Split(id, ":")[0]+name] {
				continue
			}
			seenLint[strings.Split(id, ":")[0]+name] = true
			h.setCfg(0, id)
			kids := []int{h.filter(0, "cfg-single:"+name, lint.FilterOptions{IncludeNames: []string{name}}), h.filter(0, "cfg-without:"+name, lint.FilterOptions{ExcludeNames: []string{name}}),
				h.filter(0, "cfg-re", lint.FilterOptions{NameFilter: regexp.MustCompile("^[ewn]_")}),
				h.filter(0, "cfg-exc", lint.FilterOptions{ExcludeSources: lint.SourceList{lint.RFC5891}})}
			for oi := range objs {
				if only == "" && oi%6 != int(seed)%6 && !strings.HasPrefix(objs[oi].ID, "forged:san-case") && !matterIDs[objs[oi].ID] {
					continue
				}
				if oi%2 == 0 {
					h.lint(oi, 0, "cfg-full-first", false)
				}
				for _, k := range kids {
					if k > 0 {
						h.lint(oi, k, "cfg-filtered", false)
					}
				}
				if oi%2 == 1 {
					h.lint(oi, 0, "cfg-full-last", false)
				}
			}
			h.setCfg(0, "empty")
		}
		sum["filtered_registries"] = len(h.regs) - 1
		h.fresh = false
	}

	if phases["repeat"] {
		// ---- C05: repetition and history independence
		// (the merged trace of all processes is what TLC reads: 48 runs of each of 10^4 objects in three processes were 5.5 GB of
		// events and more memory than the machine has; forged inputs, which are many, keep the quick proportions in both tiers)
		passes := 2
		if thorough {
			passes = 5
		}
		forged := func(oi int) bool { return strings.HasPrefix(objs[oi].ID, "forged:") }
		for p := 0; p < passes; p++ {
			order := rng.Perm(len(objs))
			if p == 0 {
				for i := range order {
					order[i] = i
				}
			}
			for _, oi := range order {
				if p >= 2 && forged(oi) {
					continue
				}
				h.lint(oi, 0, fmt.Sprintf("pass%d", p), p < 2)
			}
		}
		// back-to-back repetitions (map iteration order shows here)
		reps := 4
		if thorough {
			reps = 16
		}
		for oi := range objs {
			for k := 0; k < reps && (k < 4 || !forged(oi)); k++ {
				h.lint(oi, 0, fmt.Sprintf("rep%d", k), false)
			}
		}
	}

	if phases["config"] {
		// ---- C11: every configuration of the catalogue, on the global registry and on derived ones, in varying orders
		child := h.filter(0, "copy", lint.FilterOptions{ExcludeSources: lint.SourceList{lint.UnknownLintSource}})
		small := h.filter(0, "cfgable+some", lint.FilterOptions{NameFilter: regexp.MustCompile("fermat|html|orgunit|crl|ocsp|^e_sub_")})
		var use []int
		stride := 7
		if thorough {
			stride = 1
		}
		// objects on which a configurable lint judges (found by a probe run in another process, so nothing is warmed up here)
		matter := map[string]bool{}
		if p := os.Getenv("VERIF_USE_IDS"); p != "" {
			var ids []string
			if b, err := os.ReadFile(p); err == nil && json.Unmarshal(b, &ids) == nil {
				for _, id := range ids {
					matter[id] = true
				}
			}
		}
		for oi := range objs {
			if only != "" || objs[oi].Kind != "cert" || oi%stride == int(seed)%stride || strings.HasPrefix(objs[oi].ID, "forged:") || matter[objs[oi].ID] {
				use = append(use, oi)
			}
		}
		// VERIF_BASELINE=last: the unconfigured runs come after all the configured ones and the catalogue is walked backwards,
		// so that two processes meet every (object, configuration) with different pasts (their traces are merged per object)
		baselineLast := os.Getenv("VERIF_BASELINE") == "last"
		if !baselineLast {
			for _, oi := range use {
				h.lint(oi, 0, "cfg-baseline", false)
			}
		}
		ids := append([]string{}, h.cat.ids...)
		rng.Shuffle(len(ids), func(i, j int) { ids[i], ids[j] = ids[j], ids[i] })
		if baselineLast {
			for i, j := 0, len(ids)-1; i < j; i, j = i+1, j-1 {
				ids[i], ids[j] = ids[j], ids[i]
			}
		}
		for ci, id := range ids {
			target := []int{0, child, small}[ci%3]
			h.setCfg(target, id)
			born := h.filter(target, "born-under:"+id, lint.FilterOptions{ExcludeSources: lint.SourceList{lint.UnknownLintSource}})
			for _, oi := range use {
				if (oi+ci)%3 == 0 || len(use) < 40 {
					h.lint(oi, target, "cfg-set", false)
					h.lint(oi, []int{child, small, 0}[ci%3], "cfg-other-registry", false)
				}
			}
			// the parent goes back to empty: the child keeps the configuration it was born with
			h.setCfg(target, "empty")
			for _, oi := range use {
				if (oi+ci)%5 == 0 || len(use) < 40 {
					h.lint(oi, born, "cfg-child-after-parent-reset", false)
					h.lint(oi, target, "cfg-after-reset", false)
				}
			}
		}
		if baselineLast {
			for _, oi := range use {
				h.lint(oi, 0, "cfg-baseline-last", false)
			}
		}
		sum["configurations"] = len(ids)
		sum["configurable"] = h.cat.configurable
	}

	if phases["cfgfirst"] {
		// ---- C05/C11: the FIRST thing this process does with the objects that matter is to lint them under one option-changing
		// configuration (VERIF_FIRSTCFG picks it); the unconfigured run and the other configurations follow.  One process per
		// choice, traces merged per object: a verdict remembered under a key that forgets the configuration shows as a conflict.
		var vals []string
		for _, id := range h.cat.ids {
			if strings.HasPrefix(id, "val:") {
				vals = append(vals, id)
			}
		}
		matter := map[string]bool{}
		if p := os.Getenv("VERIF_USE_IDS"); p != "" {
			var ids []string
			if b, err := os.ReadFile(p); err == nil && json.Unmarshal(b, &ids) == nil {
				for _, id := range ids {
					matter[id] = true
				}
			}
		}
		var use []int
		for oi := range objs {
			if matter[objs[oi].ID] || only != "" {
				use = append(use, oi)
			}
		}
		first := 0
		fmt.Sscan(os.Getenv("VERIF_FIRSTCFG"), &first)
		if len(vals) > 0 {
			order := append([]string{vals[first%len(vals)], "empty"}, vals...)
			for k, id := range order {
				h.setCfg(0, id)
				for _, oi := range use {
					h.lint(oi, 0, fmt.Sprintf("cfgfirst%d", k), false)
				}
			}
			h.setCfg(0, "empty")
		}
		sum["cfgfirst_values"] = len(vals)
	}

	if phases["model"] {
		// ---- binding G for Process.tla: TLC-simulated behaviours replayed on the real API
		nh := replayModelHistories(h, rng, os.Getenv("VERIF_EXPORT"))
		sum["model_histories"] = nh
	}

	n := h.write(out("history.ndjson"))
	// summary
	pairs := map[string]bool{}
	nontrivCfg := map[string]bool{}
	for _, o := range h.obs {
		t := objs[o.obj]
		for i, s := range o.st {
			if s > 1 && o.dg[i] != "" {
				pairs[fmt.Sprintf("%d|%d", o.obj, i)] = true
			}
		}
		for j, ix := range o.cfgIdx {
			if o.cfgSec[j] != "absent" && o.st[ix-1] != 1 {
				nontrivCfg[h.byKind[t.Kind][ix-1].Name+"|"+strings.SplitN(o.cfgSec[j], ":", 2)[0]] = true
			}
		}
	}
	sum["events"], sum["lint_calls"], sum["objects"] = n, h.nLint, len(objs)
	sum["pairs_with_details"], sum["cfg_pairs"] = len(pairs), len(nontrivCfg)
	sum["snapshots"] = len(h.snaps)
	if len(h.obs) > 0 {
		o := h.obs[len(h.obs)/2]
		sum["sample"] = ev.M{"obj": objs[o.obj].ID, "tag": o.tag, "st": o.st[:min(6, len(o.st))], "dg": o.dg[:min(6, len(o.dg))], "sel_size": len(o.sel), "cfgSec": o.cfgSec}
	}
	ev.WriteJSON(out("summary.json"), sum)
}

// replayModelHistories maps abstract histories of MC_Process onto real registries, lints, configurations.
func replayModelHistories(h *history, rng *rand.Rand, path string) int {
	type op struct {
		Op string `json:"op"`
		O  string `json:"o"`
		R  int    `json:"r"`
		F  string `json:"f"`
		C  string `json:"c"`
	}
	seen := map[string]bool{}
	var hists [][]op
	readExport(path, func(inner string) {
		if seen[inner] {
			return
		}
		seen[inner] = true
		var ops []op
		if json.Unmarshal([]byte(inner), &ops) == nil {
			hists = append(hists, ops)
		}
	})
	var certs, crls []int
	for i, t := range h.objs {
		switch t.Kind {
		case "cert":
			certs = append(certs, i)
		case "crl":
			crls = append(crls, i)
		}
	}
	var cfgCert []string
	cfgCRL := ""
	for _, n := range h.cat.configurable {
		if _, ok := h.index["cert"][n]; ok {
			cfgCert = append(cfgCert, n)
		} else if _, ok := h.index["crl"][n]; ok {
			cfgCRL = n
		}
	}
	if len(cfgCert) == 0 || cfgCRL == "" || (len(certs) == 0 && len(crls) == 0) {
		return 0
	}
	if len(certs) == 0 { // restricted to one object (replay): the other abstract object is skipped
		certs = []int{-1}
	}
	if len(crls) == 0 {
		crls = []int{-1}
	}
	firstWith := func(prefix string) string {
		for _, id := range h.cat.ids {
			if strings.HasPrefix(id, prefix) {
				return id
			}
		}
		return "empty"
	}
	for hi, ops := range hists {
		A := cfgCert[hi%len(cfgCert)]
		o1, o2 := certs[rng.Intn(len(certs))], crls[rng.Intn(len(crls))]
		cfgMap := map[string]string{"empty": "empty", "unrelated": "unrelated", "defaults": "defaults",
			"Av1": firstWith("val:" + A + ":"), "Aill": firstWith("ill:" + A + ":"), "Cscalar": "scalar:" + cfgCRL}
		if _, ok := h.cat.byID["defaults"]; !ok {
			cfgMap["defaults"] = "empty"
		}
		h.setCfg(0, "empty")
		regmap := map[int]int{1: 0}
		next := 2
		for _, o := range ops {
			r, ok := regmap[o.R]
			if !ok {
				continue
			}
			switch o.Op {
			case "Lint":
				oi := o1
				if o.O == "o2" {
					oi = o2
				}
				if oi >= 0 {
					h.lint(oi, r, fmt.Sprintf("model%d", hi), false)
				}
			case "SetCfg":
				h.setCfg(r, cfgMap[o.C])
			case "Filter":
				var fo lint.FilterOptions
				switch o.F {
				case "onlyA":
					fo = lint.FilterOptions{IncludeNames: []string{A}}
				case "notA":
					fo = lint.FilterOptions{ExcludeNames: []string{A}}
				default:
					fo = lint.FilterOptions{NameFilter: regexp.MustCompile("crl")}
				}
				nr := h.filter(r, "model:"+o.F, fo)
				if nr >= 0 {
					regmap[next] = nr
				}
				next++
			}
		}
		h.setCfg(0, "empty")
	}
	return len(hists)
}

var _ = bytes.Equal
var _ = zlint.Version

// cmdCfgProbe lists the objects on which some configurable lint reports a finding under the empty
// configuration: the configuration histories must include them, whatever the sampling stride.
func cmdCfgProbe(args []string) {
	parseFlags(args)
	g := lint.GlobalRegistry()
	var ids []string
	for _, t := range loadTargets(corpus.Load()) {
		for _, l := range lintsOf(g, t.Kind) {
			if !l.Cfgable {
				continue
			}
			l := l
			if r := execOne(&l, t, g.GetConfiguration()); r.Obs > 3 {
				ids = append(ids, t.ID)
				break
			}
		}
	}
	ev.WriteJSON(out("ids.json"), ids)
}

package main

// Certificates whose lint details carry awkward text: several rules quote the offending name in their details, so a
// common name / SAN entry holding a per-cent sign, a quote, a backslash, mark-up, control characters or bytes that are
// not UTF-8 puts that text into the JSON the tool prints.  Used by the CLI legs of C14 / C15 (the tool's printed JSON
// must decode to what the library computed) - the one-file-per-lint corpus has none of these.
import (
	"bytes"
	"encoding/json"
	"encoding/pem"
	"fmt"
	"os"
	"os/exec"
	"path/filepath"
	"strings"
	"time"

	zlint "github.com/zmap/zlint/v3"
	"github.com/zmap/zlint/v3/lint"
	"verif/harness/internal/corpus"
	"verif/harness/internal/forge"
)

var hostileNames = []string{"disk%20usage.example.com", "a%sb%dc%v.example.com", "100%.example.com", "%!s(MISSING).example.com", "q\"uote.example.com",
	"back\\slash.example.com", "<b>&amp;</b>.example.com", "tab\tnew\nline.example.com", "nul\x00ctl\x1f.example.com", "\xff\xfe.example.com", "caf\xc3\xa9\xe2\x80\xa8.example.com",
	"per%cent and space.example.com", "%", "%%", "plain-but-not-in-san.example.com"}

func awkward(s string) bool {
	return strings.ContainsAny(s, "%\"\\<>&\t\n\x00\x1f") || s != repair(s) || strings.IndexFunc(s, func(c rune) bool { return c > 127 }) >= 0
}

// hostileDetailObjs forges, from a TLS subscriber template of the corpus, one certificate per awkward name (as common name that is
// not among the SAN entries, and as a SAN dNSName), and keeps those on which the library's details really carry awkward text.
func hostileDetailObjs(c *corpus.Corpus) []*corpus.Obj {
	var tp *forge.Cert
	var tid string
	for _, o := range c.Certs {
		if !o.Cert.IsCA && len(o.Cert.DNSNames) > 0 && len(o.Cert.EmailAddresses) == 0 && o.Cert.Subject.CommonName != "" && !strings.HasPrefix(o.ID, "synth:") {
			if fc, err := forge.ParseCert(o.DER); err == nil && fc.FindExt(forge.OIDSAN) != nil {
				tp, tid = fc, o.ID
				break
			}
		}
	}
	if tp == nil {
		return nil
	}
	late := time.Date(2024, 3, 1, 0, 0, 0, 0, time.UTC)
	g := lint.GlobalRegistry()
	var res []*corpus.Obj
	for i, name := range hostileNames {
		for form := 0; form < 2; form++ {
			v := tp.Clone()
			good := forge.GN(forge.GNDNS, []byte("good.example.com"))
			names := []*forge.Node{good}
			if form == 1 {
				names = append(names, forge.GN(forge.GNDNS, []byte(name)))
			}
			forge.SetGeneralNames(v.FindExt(forge.OIDSAN), forge.GeneralNames(names...))
			if !forge.SetAttr(v.Subject(), "2.5.4.3", 0x0c, []byte(name)) {
				forge.AddAttr(v.Subject(), forge.OID(2, 5, 4, 3), 0x0c, []byte(name))
			}
			v.SetNotBefore(late)
			v.SetNotAfter(late.Add(90 * 24 * time.Hour))
			cert, ok, _ := corpus.ParseCert(v.Bytes())
			if !ok {
				continue
			}
			o := &corpus.Obj{ID: fmt.Sprintf("hostile:%s:%d:%d", tid, i, form), Kind: "cert", DER: v.Bytes(), Cert: cert}
			rs, esc, hung := runSet(fromObj(o), g)
			if rs == nil || esc != "" || hung {
				continue
			}
			n := 0
			for _, r := range rs.Results {
				if r != nil && awkward(r.Details) {
					n++
				}
			}
			if n > 0 {
				res = append(res, o)
			}
		}
	}
	return res
}

// cliJSON runs the real tool on one DER object (as a .der file, as DER on standard input, or as a PEM file) and compares the
// result object it prints with the library's result set for the same object (reg: the registry the tool has, empty configuration).
func cliJSON(cli, work string, reg lint.Registry, t *Target, how string, n int) map[string]interface{} {
	m := map[string]interface{}{"ev": "CliOut", "id": t.ID, "how": how, "printed": false, "sameKeys": false, "sameStatus": false, "sameDetails": false, "sameFlags": false,
		"awkward": 0, "exit": -1}
	rs, esc, hung := runSet(t, reg)
	if rs == nil || esc != "" || hung {
		return nil
	}
	var args []string
	var stdin []byte
	switch how {
	case "der-file":
		p := filepath.Join(work, fmt.Sprintf("c%d.der", n))
		os.WriteFile(p, t.DER, 0o644)
		args = []string{p}
	case "der-stdin":
		args, stdin = []string{"-format", "der"}, t.DER
	default:
		p := filepath.Join(work, fmt.Sprintf("c%d.pem", n))
		typ := "CERTIFICATE"
		if t.Kind == "crl" {
			typ = "X509 CRL"
		}
		os.WriteFile(p, pemEncode(typ, t.DER), 0o644)
		args = []string{p}
	}
	cmd := exec.Command(cli, args...)
	if stdin != nil {
		cmd.Stdin = bytes.NewReader(stdin)
	}
	var so, se bytes.Buffer
	cmd.Stdout, cmd.Stderr = &so, &se
	err := cmd.Run()
	exit := 0
	if err != nil {
		exit = 1
	}
	m["exit"] = exit
	m["stderr"] = firstLine(se.String())
	// the tool prints the Results map of the result set (one JSON object per input)
	var back zlint.ResultSet
	if json.Unmarshal(bytes.TrimSpace(so.Bytes()), &back.Results) != nil || back.Results == nil {
		return m
	}
	m["printed"] = true
	sameKeys, sameStatus, sameDetails := len(back.Results) == len(rs.Results), true, true
	aw := 0
	for k, r := range rs.Results {
		if awkward(r.Details) {
			aw++
		}
		br, ok := back.Results[k]
		if !ok || br == nil {
			sameKeys = false
			continue
		}
		if br.Status != r.Status {
			sameStatus = false
		}
		if br.Details != repair(r.Details) {
			sameDetails = false
		}
	}
	m["sameKeys"], m["sameStatus"], m["sameDetails"], m["awkward"] = sameKeys, sameStatus, sameDetails, aw
	m["sameFlags"] = true // the presence flags are not part of what the tool prints
	return m
}

func pemEncode(typ string, der []byte) []byte {
	return pem.EncodeToMemory(&pem.Block{Type: typ, Bytes: der})
}

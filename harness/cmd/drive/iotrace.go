package main

import (
	"os"
	"sync"

	"github.com/zmap/zlint/v3/lint"
	"verif/harness/internal/corpus"
	"verif/harness/internal/ev"
)

// cmdIOTrace: run under strace. Everything is loaded first; between the two marker syscalls
// (stat of /verif-marker-begin and /verif-marker-end) the process only lints.
func cmdIOTrace(args []string) {
	parseFlags(args)
	objs := loadTargets(corpus.Load())
	g := lint.GlobalRegistry()
	regs := []lint.Registry{g}
	r2, _ := g.Filter(lint.FilterOptions{ExcludeSources: lint.SourceList{lint.Community}})
	if r2 != nil {
		regs = append(regs, r2)
	} else {
		regs = append(regs, g)
	}
	counts := make([]int, 4)
	os.Stat("/verif-marker-begin")
	var wg sync.WaitGroup
	for w := 0; w < 4; w++ {
		wg.Add(1)
		go func(w int) {
			defer wg.Done()
			for i := w; i < len(objs); i += 4 {
				for _, r := range regs {
					if rs, _, _ := runSet(objs[i], r); rs != nil {
						counts[w] += len(rs.Results)
					}
				}
			}
		}(w)
	}
	wg.Wait()
	os.Stat("/verif-marker-end")
	ev.WriteJSON(out("summary.json"), ev.M{"objects": len(objs), "results": counts[0] + counts[1] + counts[2] + counts[3]})
}

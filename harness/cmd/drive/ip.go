package main

import (
	"encoding/json"
	"fmt"
	"go/ast"
	"go/parser"
	"go/token"
	"math/rand"
	"net"
	"os"
	"path/filepath"
	"strconv"
	"strings"

	"github.com/zmap/zlint/v3/lint"
	"github.com/zmap/zlint/v3/util"
	"verif/harness/internal/corpus"
	"verif/harness/internal/ev"
	"verif/harness/internal/forge"
)

func groupsToIP(g []int) net.IP {
	b := make([]byte, 0, 16)
	for _, x := range g {
		b = append(b, byte(x>>8), byte(x))
	}
	return net.IP(b)
}

func maskOf(bits, total int) net.IPMask { return net.CIDRMask(bits, total) }

// cmdIP: C19. Probe plan from MC_IPReserved (+ seeded random addresses); the code's answers are logged raw.
func cmdIP(args []string) {
	parseFlags(args)
	rng := rand.New(rand.NewSource(seed))
	var plan struct {
		Addrs [][]int `json:"addrs"`
	}
	readExport(os.Getenv("VERIF_EXPORT"), func(inner string) { json.Unmarshal([]byte(inner), &plan) })
	if len(plan.Addrs) == 0 {
		panic("no plan")
	}
	addrs := plan.Addrs
	// every network the implementation's own table names (string literals of util/ip.go that read as CIDR): first, last,
	// just outside - so that blocks the property does not list are probed at their edges too
	ipGroups := func(ip net.IP) []int {
		if v4 := ip.To4(); v4 != nil {
			return []int{int(v4[0])<<8 | int(v4[1]), int(v4[2])<<8 | int(v4[3])}
		}
		g := make([]int, 8)
		for i := range g {
			g[i] = int(ip[2*i])<<8 | int(ip[2*i+1])
		}
		return g
	}
	tableNets := 0
	if f, err := parser.ParseFile(token.NewFileSet(), filepath.Join(corpus.Root(), "v3", "util", "ip.go"), nil, 0); err == nil {
		ast.Inspect(f, func(n ast.Node) bool {
			bl, ok := n.(*ast.BasicLit)
			if !ok || bl.Kind != token.STRING {
				return true
			}
			sv, err := strconv.Unquote(bl.Value)
			if err != nil {
				return true
			}
			if _, nw, err := net.ParseCIDR(sv); err == nil {
				tableNets++
				first := append(net.IP{}, nw.IP...)
				last := append(net.IP{}, nw.IP...)
				for i := range last {
					last[i] |= ^nw.Mask[i]
				}
				before, after := append(net.IP{}, first...), append(net.IP{}, last...)
				for i := len(before) - 1; i >= 0; i-- {
					before[i]--
					if before[i] != 0xff {
						break
					}
				}
				for i := len(after) - 1; i >= 0; i-- {
					after[i]++
					if after[i] != 0 {
						break
					}
				}
				for _, a := range []net.IP{first, last, before, after} {
					addrs = append(addrs, ipGroups(a))
				}
			}
			return true
		})
	}
	nPlanned := len(addrs)
	nrand := 300
	if tier == "thorough" {
		nrand = 20000
	}
	for i := 0; i < nrand; i++ {
		n := 2
		if i%3 == 0 {
			n = 8
		}
		g := make([]int, n)
		for j := range g {
			g[j] = rng.Intn(65536)
		}
		if i%5 == 0 { // near the plan's addresses
			base := plan.Addrs[rng.Intn(len(plan.Addrs))]
			g = append([]int{}, base...)
			g[len(g)-1] = (g[len(g)-1] + rng.Intn(5) - 2 + 65536) % 65536
		}
		addrs = append(addrs, g)
	}
	w := ev.Create(out("ip.ndjson"))
	flips := 0
	for _, g := range addrs {
		ip := groupsToIP(g)
		res := util.IsIANAReserved(ip)
		e := ev.M{"ev": "Addr", "g": g, "reserved": res, "mappedReserved": res}
		if len(g) == 2 {
			e["mappedReserved"] = util.IsIANAReserved(ip.To16())
		}
		w.Emit(e)
		total := 16 * len(g)
		inter := make([]bool, total+1)
		for p := 0; p <= total; p++ {
			m := maskOf(p, total)
			inter[p] = util.IntersectsIANAReserved(net.IPNet{IP: ip.Mask(m), Mask: m})
			if p > 0 && inter[p] != inter[p-1] {
				flips++
			}
		}
		// the same chain with the IPv4 network written in IPv4-mapped (16-byte) form: ::ffff:a.b.c.d/(96+p)
		interMapped := []bool{}
		if len(g) == 2 {
			for p := 0; p <= total; p++ {
				m := maskOf(96+p, 128)
				interMapped = append(interMapped, util.IntersectsIANAReserved(net.IPNet{IP: ip.To16().Mask(m), Mask: m}))
			}
		}
		w.Emit(ev.M{"ev": "Chain", "g": g, "reserved": res, "inter": inter, "interMapped": interMapped})
		// a network written with host bits set, and an address inside it that is not its base
		p := rng.Intn(total + 1)
		m := maskOf(p, total)
		other := append(net.IP{}, ip...)
		for k := range other {
			other[k] = (other[k] & m[k]) | (byte(rng.Intn(256)) &^ m[k])
		}
		og := make([]int, len(g))
		for j := range og {
			og[j] = int(other[2*j])<<8 | int(other[2*j+1])
		}
		w.Emit(ev.M{"ev": "NetAddr", "base": g, "len": p, "g": og, "addrReserved": util.IsIANAReserved(other),
			"intersects": util.IntersectsIANAReserved(net.IPNet{IP: ip, Mask: m})})
	}
	// ---- the lints, on forged certificates
	c := corpus.Load()
	g0 := lint.GlobalRegistry()
	cfg := g0.GetConfiguration()
	find := func(name string) *LintRec {
		for _, l := range lintsOf(g0, "cert") {
			if l.Name == name {
				l := l
				return &l
			}
		}
		return nil
	}
	type tmpl struct {
		lint *LintRec
		fc   *forge.Cert
	}
	pick := func(name string, need func(fc *forge.Cert, o *corpus.Obj) bool) *tmpl {
		l := find(name)
		if l == nil {
			return nil
		}
		for _, o := range c.Certs {
			r := execOne(l, fromObj(o), cfg)
			if r.Obs != 3 && r.Obs != 6 {
				continue
			}
			fc, err := forge.ParseCert(o.DER)
			if err == nil && need(fc, o) {
				return &tmpl{l, fc}
			}
		}
		return nil
	}
	sanT := pick("e_ext_san_contains_reserved_ip", func(fc *forge.Cert, o *corpus.Obj) bool { return len(o.Cert.IPAddresses) > 0 })
	cnT := pick("e_subject_contains_reserved_ip", func(fc *forge.Cert, o *corpus.Obj) bool {
		return net.ParseIP(o.Cert.Subject.CommonName) != nil
	})
	ncT := pick("e_ext_nc_intersects_reserved_ip", func(fc *forge.Cert, o *corpus.Obj) bool { return len(o.Cert.PermittedIPAddresses) > 0 })
	nl := 0
	lintOn := func(t *tmpl, fc *forge.Cert, e ev.M) {
		cert, ok, _ := corpus.ParseCert(fc.Bytes())
		if !ok {
			return
		}
		r := execOne(t.lint, &Target{Kind: "cert", ID: "forged", Cert: cert}, cfg)
		e["ev"], e["lint"], e["status"] = "Lint", t.lint.Name, r.Obs
		w.Emit(e)
		nl++
	}
	for i, g := range addrs {
		if i >= nPlanned+200 {
			break
		}
		ip := groupsToIP(g)
		if sanT != nil {
			fc := sanT.fc.Clone()
			names := fc.NamesOfExt(forge.OIDSAN)
			var nn []*forge.Node
			for _, n := range names {
				if n.Tag() != forge.GNIP {
					nn = append(nn, n)
				}
			}
			nn = append(nn, forge.GN(forge.GNIP, ip))
			fc.SetNamesExt(forge.OIDSAN, forge.OIDSANNode(), false, nn)
			lintOn(sanT, fc, ev.M{"what": "addr", "g": g, "util": util.IsIANAReserved(ip)})
		}
		if cnT != nil {
			fc := cnT.fc.Clone()
			if forge.SetAttr(fc.Subject(), "2.5.4.3", 0x0c, []byte(ip.String())) {
				lintOn(cnT, fc, ev.M{"what": "addr", "g": g, "util": util.IsIANAReserved(ip)})
				// the same address as the LAST of two common names (the one the parsed certificate reports), after a host name
				if i%4 == 0 {
					fc2 := cnT.fc.Clone()
					forge.SetAttr(fc2.Subject(), "2.5.4.3", 0x0c, []byte("host.example.com"))
					forge.AddAttr(fc2.Subject(), forge.OID(2, 5, 4, 3), 0x0c, []byte(ip.String()))
					if cert, ok, _ := corpus.ParseCert(fc2.Bytes()); ok && cert.Subject.CommonName == ip.String() {
						lintOn(cnT, fc2, ev.M{"what": "addr", "g": g, "util": util.IsIANAReserved(ip)})
					}
				}
			}
		}
		if ncT != nil {
			total := 16 * len(g)
			for _, p := range []int{total, total - 1, total / 2, 8, 7, 5, 4, 1, 0, rng.Intn(total + 1), 12, 16, 24, 32, 48, 56, 64, 96, 104, 112, 120} {
				if p > total {
					continue
				}
				m := maskOf(p, total)
				fc := ncT.fc.Clone()
				fc.SetPermittedIPs([][]byte{append(append([]byte{}, ip.Mask(m)...), m...)})
				lintOn(ncT, fc, ev.M{"what": "net", "g": g, "len": p, "util": util.IntersectsIANAReserved(net.IPNet{IP: ip.Mask(m), Mask: m})})
				// the same permitted network with a strictly smaller network at its base (and one at its end) excluded: whatever is
				// left still holds the reserved addresses it held, unless the excluded part swallowed them all
				if p+2 <= total && i%3 == 0 {
					for _, xl := range []int{total, (p + total + 1) / 2} {
						if xl <= p {
							continue
						}
						xm := maskOf(xl, total)
						fx := ncT.fc.Clone()
						fx.SetPermittedAndExcludedIPs([][]byte{append(append([]byte{}, ip.Mask(m)...), m...)}, [][]byte{append(append([]byte{}, ip.Mask(m).Mask(xm)...), xm...)})
						lintOn(ncT, fx, ev.M{"what": "net-excl", "g": g, "len": p, "xlen": xl, "util": util.IntersectsIANAReserved(net.IPNet{IP: ip.Mask(m), Mask: m})})
					}
				}
			}
		}
	}
	n := w.N
	w.Close()
	var missing []string
	for name, t := range map[string]*tmpl{"san": sanT, "cn": cnT, "nc": ncT} {
		if t == nil {
			missing = append(missing, name)
		}
	}
	ev.WriteJSON(out("summary.json"), ev.M{"events": n, "addresses": len(addrs), "plan_addresses": len(plan.Addrs), "table_networks": tableNets, "chain_flips": flips, "lint_runs": nl,
		"templates_missing": strings.Join(missing, ","), "sample": ev.M{"ev": "Chain", "g": addrs[3], "note": fmt.Sprint(groupsToIP(addrs[3]))}})
}

package main

import (
	"fmt"
	"os"
	"runtime/debug"

	"verif/harness/internal/ev"

	_ "github.com/zmap/zlint/v3"
)

var commands = map[string]func([]string){
	"sweep":      cmdSweep,
	"suite":      cmdSuite,
	"mockrun":    cmdMockRun,
	"window":     cmdWindow,
	"mocklife":   cmdMockLife,
	"stability":  cmdStability,
	"registry":   cmdRegistry,
	"regreplay":  cmdRegReplay,
	"selectors":  cmdSelectors,
	"history":    cmdHistory,
	"iotrace":    cmdIOTrace,
	"codec":      cmdCodec,
	"cli":        cmdCLI,
	"ip":         cmdIP,
	"tld":        cmdTLD,
	"rsa":        cmdRSA,
	"order":      cmdOrder,
	"sig":        cmdSig,
	"pairs":      cmdPairs,
	"mutate":     cmdMutate,
	"concurrent": cmdConcurrent,
	"kueku":      cmdKuEku,
	"cfgprobe":   cmdCfgProbe,
	"plant":      cmdPlant,
	"gtldgen":    cmdGtldGen,
	"validity":   cmdValidity,
	"cfgdoc":     cmdCfgDoc,
	"cover":      cmdCover,
	"flagcensus": cmdFlagCensus,
}

func main() {
	if len(os.Args) < 2 || commands[os.Args[1]] == nil {
		fmt.Fprintln(os.Stderr, "usage: drive <command> -out DIR [-tier T] [-seed N]")
		os.Exit(2)
	}
	// A driver that dies (the tree under test handed it something it cannot work with) flushes what it has recorded and exits
	// with status 3: the check still judges the recorded part, and reports the run as inconclusive if that shows nothing.
	defer func() {
		if p := recover(); p != nil {
			ev.FlushAll()
			fmt.Fprintf(os.Stderr, "DRIVER-PANIC %v\n%s\n", p, debug.Stack())
			os.Exit(3)
		}
	}()
	commands[os.Args[1]](os.Args[2:])
}

package main

import (
	"sync"
	"time"

	"github.com/zmap/zcrypto/x509"
	"github.com/zmap/zlint/v3/lint"
	"golang.org/x/crypto/ocsp"
)

// Mock lints with prescribed behaviour, registered through the public Register*Lint API.
// What a mock does is looked up by the identity of the linted object, so runs may be concurrent.

type mockPlan struct {
	Applies map[string]bool // default true
	Outcome map[string]int  // 0..7 status, 8 panic, 9 nil
	Details map[string]string
	mu      sync.Mutex
	Calls   map[string][]string
}

var mockPlans sync.Map // object pointer -> *mockPlan

func planFor(obj interface{}) *mockPlan {
	if p, ok := mockPlans.Load(obj); ok {
		return p.(*mockPlan)
	}
	return nil
}

type mockImpl struct {
	name string
	opt  *mockOpts
}

type mockOpts struct {
	Value int `toml:"value" comment:"an option of a mock lint"`
}

func (m *mockImpl) note(obj interface{}, what string) *mockPlan {
	p := planFor(obj)
	if p != nil {
		p.mu.Lock()
		if p.Calls == nil {
			p.Calls = map[string][]string{}
		}
		p.Calls[m.name] = append(p.Calls[m.name], what)
		p.mu.Unlock()
	}
	return p
}

func (m *mockImpl) applies(obj interface{}) bool {
	p := m.note(obj, "applies")
	if p == nil {
		return false // mocks are inert on objects without a plan
	}
	if a, ok := p.Applies[m.name]; ok {
		return a
	}
	return true
}

func (m *mockImpl) execute(obj interface{}) *lint.LintResult {
	p := m.note(obj, "execute")
	code := 3
	if p != nil {
		if c, ok := p.Outcome[m.name]; ok {
			code = c
		}
	}
	switch code {
	case 8:
		panic("verif mock panic")
	case 9:
		return nil
	}
	r := &lint.LintResult{Status: lint.LintStatus(code)}
	if p != nil {
		r.Details = p.Details[m.name]
	}
	return r
}

type mockCert struct{ mockImpl }

func (m *mockCert) CheckApplies(c *x509.Certificate) bool        { return m.applies(c) }
func (m *mockCert) Execute(c *x509.Certificate) *lint.LintResult { return m.execute(c) }

type mockCertCfg struct{ mockCert }

func (m *mockCertCfg) Configure() interface{} { return m.opt }

type mockCRL struct{ mockImpl }

func (m *mockCRL) CheckApplies(c *x509.RevocationList) bool        { return m.applies(c) }
func (m *mockCRL) Execute(c *x509.RevocationList) *lint.LintResult { return m.execute(c) }

type mockOCSP struct{ mockImpl }

func (m *mockOCSP) CheckApplies(c *ocsp.Response) bool        { return m.applies(c) }
func (m *mockOCSP) Execute(c *ocsp.Response) *lint.LintResult { return m.execute(c) }

type mockSpec struct {
	Name, Kind string
	Source     lint.LintSource
	Eff, Ineff time.Time
	Cfgable    bool
}

var mocksRegistered = map[string]bool{}

// registerMock registers one mock through the public API (panics on duplicates, as the API does).
func registerMock(s mockSpec) {
	if mocksRegistered[s.Name+"/"+s.Kind] {
		return
	}
	mocksRegistered[s.Name+"/"+s.Kind] = true
	md := lint.LintMetadata{Name: s.Name, Description: "verif mock " + s.Name, Citation: "verif", Source: s.Source,
		EffectiveDate: s.Eff, IneffectiveDate: s.Ineff}
	switch s.Kind {
	case "cert":
		lint.RegisterCertificateLint(&lint.CertificateLint{LintMetadata: md, Lint: func() lint.CertificateLintInterface {
			if s.Cfgable {
				return &mockCertCfg{mockCert{mockImpl{name: s.Name, opt: &mockOpts{}}}}
			}
			return &mockCert{mockImpl{name: s.Name}}
		}})
	case "crl":
		lint.RegisterRevocationListLint(&lint.RevocationListLint{LintMetadata: md, Lint: func() lint.RevocationListLintInterface {
			return &mockCRL{mockImpl{name: s.Name}}
		}})
	default:
		lint.RegisterOcspResponseLint(&lint.OcspResponseLint{LintMetadata: md, Lint: func() lint.OcspResponseLintInterface {
			return &mockOCSP{mockImpl{name: s.Name}}
		}})
	}
}

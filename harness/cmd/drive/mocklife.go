package main

import (
	"bufio"
	"encoding/json"
	"fmt"
	"github.com/zmap/zcrypto/encoding/asn1"
	"github.com/zmap/zcrypto/x509/pkix"
	"os"
	"reflect"
	"strings"
	"sync"
	"time"

	"github.com/zmap/zcrypto/x509"
	"github.com/zmap/zlint/v3/lint"
	"golang.org/x/crypto/ocsp"
	"verif/harness/internal/corpus"
	"verif/harness/internal/ev"
)

// cmdMockLife: binding G for Lifecycle.tla. Every exported terminal state is replayed on the real
// lint.{Certificate,RevocationList,OcspResponse}Lint.Execute with a mock lint of prescribed behaviour
// and an object carrying exactly the abstract facts; the projected observation is compared.
type lifeCase struct {
	Kind    string   `json:"kind"`
	Src     string   `json:"src"`
	Eff     []int64  `json:"eff"`
	Ineff   []int64  `json:"ineff"`
	Cfgable bool     `json:"cfgable"`
	Ekus    []int    `json:"ekus"`
	Unk     int      `json:"unk"`
	Pols    []string `json:"pols"`
	Email   bool     `json:"email"`
	T       []int64  `json:"t"`
	Cfg     string   `json:"cfg"`
	Applies bool     `json:"applies"`
	Called  []string `json:"called"`
	Inst    int      `json:"inst"`
	St      int      `json:"st"`
	Why     string   `json:"why"`
	PC      string   `json:"pc"`
}

func instTime(i []int64, loc *time.Location) time.Time {
	if i[0] == 0 && i[1] == 0 {
		return time.Time{}
	}
	return time.Unix(i[0]*86400+i[1]-62135596800, 0).In(loc)
}

type lifeMock struct {
	log     *[]string
	applies bool
	code    int
	details string
	opt     *mockOpts
}

func (m *lifeMock) doApplies() bool { *m.log = append(*m.log, "applies"); return m.applies }
func (m *lifeMock) doExecute() *lint.LintResult {
	*m.log = append(*m.log, "execute")
	switch m.code {
	case 8:
		panic("verif mock panic")
	case 9:
		return nil
	}
	return &lint.LintResult{Status: lint.LintStatus(m.code), Details: m.details}
}

type lmCert struct{ *lifeMock }

func (m lmCert) CheckApplies(*x509.Certificate) bool        { return m.doApplies() }
func (m lmCert) Execute(*x509.Certificate) *lint.LintResult { return m.doExecute() }

type lmCertCfg struct{ lmCert }

func (m lmCertCfg) Configure() interface{} { *m.log = append(*m.log, "configure"); return m.opt }

type lmCRL struct{ *lifeMock }

func (m lmCRL) CheckApplies(*x509.RevocationList) bool        { return m.doApplies() }
func (m lmCRL) Execute(*x509.RevocationList) *lint.LintResult { return m.doExecute() }

type lmCRLCfg struct{ lmCRL }

func (m lmCRLCfg) Configure() interface{} { *m.log = append(*m.log, "configure"); return m.opt }

type lmOCSP struct{ *lifeMock }

func (m lmOCSP) CheckApplies(*ocsp.Response) bool        { return m.doApplies() }
func (m lmOCSP) Execute(*ocsp.Response) *lint.LintResult { return m.doExecute() }

type lmOCSPCfg struct{ lmOCSP }

func (m lmOCSPCfg) Configure() interface{} { *m.log = append(*m.log, "configure"); return m.opt }

func readExport(path string, each func(inner string)) {
	f, err := os.Open(path)
	if err != nil {
		panic(err)
	}
	defer f.Close()
	sc := bufio.NewScanner(f)
	sc.Buffer(make([]byte, 1<<20), 1<<26)
	for sc.Scan() {
		line := sc.Text()
		if !strings.HasPrefix(line, "\"{") && !strings.HasPrefix(line, "\"[") {
			continue
		}
		var inner string
		if err := json.Unmarshal([]byte(line), &inner); err != nil {
			panic(fmt.Sprintf("bad export line: %v", err))
		}
		each(inner)
	}
}

func oidFromString(s string) asn1.ObjectIdentifier {
	var o asn1.ObjectIdentifier
	for _, p := range strings.Split(s, ".") {
		var v int
		fmt.Sscan(p, &v)
		o = append(o, v)
	}
	return o
}

var certPool = sync.Pool{New: func() interface{} { return new(x509.Certificate) }}

func cmdMockLife(args []string) {
	parseFlags(args)
	var cases []lifeCase
	for _, p := range strings.Split(os.Getenv("VERIF_EXPORT"), ",") {
		readExport(p, func(inner string) {
			var lc lifeCase
			if err := json.Unmarshal([]byte(inner), &lc); err != nil {
				panic(err)
			}
			cases = append(cases, lc)
		})
	}
	if len(cases) == 0 {
		panic("no exported cases")
	}
	c := corpus.Load()
	baseCert, baseCRL, baseOCSP := c.Certs[0].Cert, c.CRLs[0].CRL, c.OCSPs[0].OCSP
	cfgOK, _ := lint.NewConfigFromString("[e_verif_life]\nvalue = 5\n")
	cfgBad, _ := lint.NewConfigFromString("[e_verif_life]\nvalue = \"not an int\"\n")
	cfgScalar, _ := lint.NewConfigFromString("e_verif_life = 5\n")
	cfgArray, _ := lint.NewConfigFromString("[[e_verif_life]]\nvalue = 5\n")
	cfgEmpty := lint.NewEmptyConfig()
	zones := []*time.Location{time.UTC, time.FixedZone("p14", 14*3600), time.FixedZone("m12", -12*3600), time.FixedZone("p0530", 19800)}
	ekuMap := map[int]x509.ExtKeyUsage{0: x509.ExtKeyUsageAny, 1: x509.ExtKeyUsageServerAuth, 2: x509.ExtKeyUsageClientAuth, 3: x509.ExtKeyUsageCodeSigning, 4: x509.ExtKeyUsageEmailProtection}
	type mism struct {
		Case lifeCase
		Got  ev.M
		Why  string
	}
	res := make([]*mism, len(cases))
	parallel(len(cases), func(i int) {
		lc := cases[i]
		loc := zones[i%len(zones)]
		var log []string
		inst := 0
		code := 3
		switch lc.Why {
		case "body":
			code = lc.St
		case "panicked", "escape":
			code = 8
		case "nil":
			code = 9
		}
		details := ""
		if lc.Why == "body" && i%2 == 0 {
			details = fmt.Sprintf("details-%d", i)
		}
		// steps the model never reaches are made hostile, so that reaching them would show
		reached := func(x string) bool {
			for _, y := range lc.Called {
				if y == x {
					return true
				}
			}
			return false
		}
		appl := lc.Applies
		if !reached("applies") {
			appl = true
		}
		if !reached("execute") {
			code, details = 6, "must-not-run"
		}
		mk := &lifeMock{log: &log, applies: appl, code: code, details: details, opt: &mockOpts{}}
		md := lint.LintMetadata{Name: "e_verif_life", Description: "d", Citation: "c", Source: lint.LintSource(lc.Src),
			EffectiveDate: instTime(lc.Eff, zones[(i/3)%len(zones)]), IneffectiveDate: instTime(lc.Ineff, zones[(i/5)%len(zones)])}
		cfg := cfgEmpty
		if lc.Cfgable {
			if lc.Cfg == "err" {
				cfg = []lint.Configuration{cfgBad, cfgScalar, cfgArray}[i%3] // a value of the wrong type, a scalar and an array of tables where a table is expected
			} else if lc.Cfg == "panic" {
				cfg = lint.Configuration{} // the zero value: applying it to a configurable lint panics
			} else if i%2 == 1 {
				cfg = cfgOK
			}
		}
		t := instTime(lc.T, loc)
		var r *lint.LintResult
		esc := ""
		depDiffers := ""
		reused := ""
		// the same lint value used for a second run: it must construct (and configure) a new instance again - every run of the
		// rule is made on a fresh instance, not only the first one of a lint value
		again := func(run func()) {
			saveLog, saveInst := append([]string{}, log...), inst
			func() {
				defer func() { recover() }()
				run()
			}()
			second := log[len(saveLog):]
			if len(saveLog) > 0 && !reflect.DeepEqual(append([]string{}, second...), saveLog) {
				reused = fmt.Sprintf("second run through the same lint value made the calls %v, the first %v", second, saveLog)
			}
			log, inst = saveLog, saveInst
		}
		func() {
			defer func() {
				if p := recover(); p != nil {
					esc = fmt.Sprint(p)
				}
			}()
			switch lc.Kind {
			case "cert":
				// the certificate object is taken from a pool and overwritten: consecutive cases often reach the framework through
				// the SAME pointer with different content (a verdict must be a function of the content at the time of the call)
				pooled := certPool.Get().(*x509.Certificate)
				defer certPool.Put(pooled)
				*pooled = *baseCert
				cp := pooled
				cp.NotBefore = t
				cp.ExtKeyUsage = nil
				for _, e := range lc.Ekus {
					cp.ExtKeyUsage = append(cp.ExtKeyUsage, ekuMap[e])
				}
				cp.UnknownExtKeyUsage = nil
				for k := 0; k < lc.Unk; k++ {
					cp.UnknownExtKeyUsage = append(cp.UnknownExtKeyUsage, asn1.ObjectIdentifier{1, 2, 3, 4, k})
				}
				cp.PolicyIdentifiers = nil
				for _, p := range lc.Pols {
					cp.PolicyIdentifiers = append(cp.PolicyIdentifiers, oidFromString(p))
				}
				cp.EmailAddresses, cp.OtherNames = nil, nil
				if lc.Email && i%4 == 1 {
					// the indication is a SmtpUTF8Mailbox otherName, listed after an otherName of another type
					cp.OtherNames = []pkix.OtherName{{TypeID: asn1.ObjectIdentifier{1, 3, 6, 1, 4, 1, 311, 20, 2, 3}, Value: asn1.RawValue{Tag: 12, Bytes: []byte("upn@example.com")}},
						{TypeID: asn1.ObjectIdentifier{1, 3, 6, 1, 5, 5, 7, 8, 9}, Value: asn1.RawValue{Tag: 12, Bytes: []byte("someone@example.com")}}}
				} else if lc.Email {
					cp.EmailAddresses = []string{"", "someone@example.com"}
				} else if i%3 == 0 {
					cp.EmailAddresses = []string{""} // an empty rfc822Name is not an indication
				}
				l := &lint.CertificateLint{LintMetadata: md, Lint: func() lint.CertificateLintInterface {
					log = append(log, "construct")
					inst++
					if lc.Cfgable {
						return lmCertCfg{lmCert{mk}}
					}
					return lmCert{mk}
				}}
				r = l.Execute(cp, cfg)
				again(func() { l.Execute(cp, cfg) })
				if i%5 == 0 && esc == "" {
					// the deprecated lint.Lint value: used once under another window, then given this case's window and used again
					other := md
					other.EffectiveDate, other.IneffectiveDate = time.Date(2199, 1, 1, 0, 0, 0, 0, time.UTC), time.Time{}
					saveLog, saveInst := append([]string{}, log...), inst
					dl := &lint.Lint{Name: other.Name, Description: other.Description, Citation: other.Citation, Source: other.Source,
						EffectiveDate: other.EffectiveDate, IneffectiveDate: other.IneffectiveDate, Lint: func() lint.LintInterface {
							if lc.Cfgable {
								return lmCertCfg{lmCert{mk}}
							}
							return lmCert{mk}
						}}
					func() {
						defer func() { recover() }()
						dl.Execute(cp, cfg)
						dl.EffectiveDate, dl.IneffectiveDate = md.EffectiveDate, md.IneffectiveDate
						if r2 := dl.Execute(cp, cfg); r != nil && r2 != nil && r2.Status != r.Status {
							depDiffers = fmt.Sprintf("deprecated lint.Lint value re-used after its window was edited: %v instead of %v", r2.Status, r.Status)
						}
					}()
					log, inst = saveLog, saveInst
				}
			case "crl":
				cp := *baseCRL
				cp.ThisUpdate = t
				l := &lint.RevocationListLint{LintMetadata: md, Lint: func() lint.RevocationListLintInterface {
					log = append(log, "construct")
					inst++
					if lc.Cfgable {
						return lmCRLCfg{lmCRL{mk}}
					}
					return lmCRL{mk}
				}}
				r = l.Execute(&cp, cfg)
				again(func() { l.Execute(&cp, cfg) })
			default:
				cp := *baseOCSP
				cp.NextUpdate = t
				l := &lint.OcspResponseLint{LintMetadata: md, Lint: func() lint.OcspResponseLintInterface {
					log = append(log, "construct")
					inst++
					if lc.Cfgable {
						return lmOCSPCfg{lmOCSP{mk}}
					}
					return lmOCSP{mk}
				}}
				r = l.Execute(&cp, cfg)
				again(func() { l.Execute(&cp, cfg) })
			}
		}()
		got := ev.M{"called": log, "inst": inst, "escaped": esc != "", "nil": r == nil}
		why := ""
		if log == nil {
			log = []string{}
		}
		has := func(l []string, x string) bool {
			for _, y := range l {
				if y == x {
					return true
				}
			}
			return false
		}
		if !reflect.DeepEqual(log, append([]string{}, lc.Called...)) || inst != lc.Inst {
			why = "fid-call-sequence" // the exact order of base.go: fidelity only
		}
		if has(log, "execute") != has(lc.Called, "execute") {
			why = "body run when not due / not run when due"
		} else if has(log, "execute") {
			pos := func(x string) int {
				for k, y := range log {
					if y == x {
						return k
					}
				}
				return -1
			}
			if inst != 1 || pos("construct") > pos("execute") || (lc.Cfgable && (pos("configure") < 0 || pos("configure") > pos("execute"))) {
				why = "body not run on a fresh, freshly configured instance"
			}
		}
		if reused != "" && why == "" {
			why = "a later run of the same lint value is not made on a fresh, freshly configured instance: " + reused
		}
		switch {
		case lc.PC == "escaped" && lc.Why == "escape":
			if esc == "" {
				why = "model: panic escapes (no recover net for this kind)"
			}
		case lc.PC == "escaped" && lc.Why == "nil":
			if esc != "" || r != nil {
				why = "model: nil result returned as is"
			}
		default:
			if esc != "" || r == nil {
				why = "model: returns a result"
				break
			}
			got["st"], got["details"] = int(r.Status), r.Details
			if int(r.Status) != lc.St {
				why = "status"
			}
			cls := detailsClass("e_verif_life", r.Details)
			switch lc.Why {
			case "scope", "applies", "window":
				if r.Details != "" {
					why = "details added by the framework"
				}
			case "config":
				if cls != "cfgmsg" {
					why = "configuration error message"
				}
			case "panicked":
				if cls != "panicmsg" {
					why = "panic report message"
				}
			case "body":
				if r.Details != details {
					why = "details altered"
				}
			}
		}
		if why == "" && depDiffers != "" {
			why = depDiffers
			if lc.Why == "window" {
				why = "window: " + depDiffers
			}
		}
		if why != "" {
			res[i] = &mism{lc, got, why}
		}
	})
	var ms []*mism
	for _, r := range res {
		if r != nil {
			ms = append(ms, r)
		}
	}
	ev.WriteJSON(out("mismatches.json"), ms)
	ev.WriteJSON(out("summary.json"), ev.M{"cases": len(cases), "replayed": len(cases), "mismatches": len(ms), "sample": cases[len(cases)/3]})
}

package main

import (
	"bufio"
	"encoding/json"
	"fmt"
	"os"
	"sort"
	"strings"

	"github.com/zmap/zlint/v3/lint"
	"verif/harness/internal/corpus"
	"verif/harness/internal/ev"
)

// cmdMockRun: binding G for Run.tla. Reads TLC-exported terminal states (one JSON object per line),
// performs each run on the real Lint*Ex entry points with mock lints of prescribed outcome, and
// reports every run whose projected result differs from the model's.
type runCase struct {
	Kind    string          `json:"kind"`
	Sel     []string        `json:"sel"`
	Outc    map[string]int  `json:"outc"`
	Obj     string          `json:"obj"`
	Regarg  string          `json:"regarg"`
	PC      string          `json:"pc"`
	Keys    []string        `json:"keys"`
	St      json.RawMessage `json:"st"`
	Flags   []bool          `json:"flags"`
	Version int64           `json:"version"`
	Order   []string        `json:"order"`
}

func mockName(kind, id string) string { return "e_verif_" + kind + "_" + id }

func cmdMockRun(args []string) {
	parseFlags(args)
	in := os.Getenv("VERIF_EXPORT")
	f, err := os.Open(in)
	if err != nil {
		panic(err)
	}
	var cases []runCase
	sc := bufio.NewScanner(f)
	sc.Buffer(make([]byte, 1<<20), 1<<24)
	for sc.Scan() {
		line := sc.Text()
		if !strings.HasPrefix(line, "\"{") {
			continue
		}
		var inner string
		if err := json.Unmarshal([]byte(line), &inner); err != nil {
			panic(fmt.Sprintf("bad export line: %v", err))
		}
		var rc runCase
		if err := json.Unmarshal([]byte(inner), &rc); err != nil {
			panic(fmt.Sprintf("bad export record: %v: %s", err, inner))
		}
		cases = append(cases, rc)
	}
	if len(cases) == 0 {
		panic("no exported cases")
	}
	// register the model's lints, in the model's registration order, for each kind
	for _, k := range []string{"cert", "crl", "ocsp"} {
		for _, id := range cases[0].Order {
			registerMock(mockSpec{Name: mockName(k, id), Kind: k, Source: lint.Community})
		}
	}
	c := corpus.Load()
	base := map[string]*Target{"cert": fromObj(c.Certs[0]), "crl": fromObj(c.CRLs[0]), "ocsp": fromObj(c.OCSPs[0])}
	g := lint.GlobalRegistry()
	// filtered registries, one per (selection), shared by all runs
	regCache := map[string]lint.Registry{}
	regFor := func(sel []string) lint.Registry {
		var names []string
		for _, k := range []string{"cert", "crl", "ocsp"} {
			for _, id := range sel {
				names = append(names, mockName(k, id))
			}
		}
		sort.Strings(names)
		key := strings.Join(names, ",")
		if r, ok := regCache[key]; ok {
			return r
		}
		var r lint.Registry
		if len(names) == 0 {
			// the empty selection cannot be expressed with IncludeNames; exclude everything by source instead
			r, _ = g.Filter(lint.FilterOptions{ExcludeSources: g.Sources()})
		} else {
			r, _ = g.Filter(lint.FilterOptions{IncludeNames: names})
		}
		regCache[key] = r
		return r
	}
	for _, rc := range cases {
		regFor(rc.Sel)
	}
	type mism struct {
		Case runCase
		Got  ev.M
		Why  string
	}
	results := make([]*mism, len(cases))
	skipped := make([]bool, len(cases))
	parallel(len(cases), func(i int) {
		rc := cases[i]
		if rc.Regarg == "nil" && rc.Obj != "nil" && tier != "thorough" && i%23 != 0 {
			skipped[i] = true // the global registry runs every real lint too; sampled in the quick tier
			return
		}
		// a private copy of the object carries the plan
		t := &Target{Kind: rc.Kind, ID: "mock"}
		plan := &mockPlan{Outcome: map[string]int{}}
		for id, o := range rc.Outc {
			plan.Outcome[mockName(rc.Kind, id)] = o
		}
		if rc.Obj != "nil" {
			switch rc.Kind {
			case "cert":
				cp := *base["cert"].Cert
				t.Cert = &cp
				mockPlans.Store(t.Cert, plan)
				defer mockPlans.Delete(t.Cert)
			case "crl":
				cp := *base["crl"].CRL
				t.CRL = &cp
				mockPlans.Store(t.CRL, plan)
				defer mockPlans.Delete(t.CRL)
			default:
				cp := *base["ocsp"].OCSP
				t.OCSP = &cp
				mockPlans.Store(t.OCSP, plan)
				defer mockPlans.Delete(t.OCSP)
			}
		}
		var reg lint.Registry
		if rc.Regarg != "nil" {
			reg = regFor(rc.Sel)
		}
		rs, esc, hung := runSet(t, reg)
		got := ev.M{"escaped": esc != "", "hung": hung, "nil": rs == nil}
		why := ""
		switch rc.PC {
		case "returned_nil":
			if rs != nil || esc != "" || hung {
				why = "nil object must give a nil result set"
			}
		case "escaped":
			if esc == "" {
				why = "model: the panic / nil result escapes to the caller"
			}
		case "returned":
			if rs == nil || esc != "" || hung {
				why = "model: returns a result set"
				break
			}
			var wantSt map[string]int
			json.Unmarshal(rc.St, &wantSt)
			// project onto the mock lints of this kind
			gotSt := map[string]int{}
			others := 0
			for k, r := range rs.Results {
				if strings.HasPrefix(k, "e_verif_"+rc.Kind+"_") {
					id := strings.TrimPrefix(k, "e_verif_"+rc.Kind+"_")
					if r == nil {
						gotSt[id] = -3
					} else {
						gotSt[id] = int(r.Status)
						if r.LintMetadata.Name != k || r.LintMetadata.Description != "verif mock "+k {
							why = "metadata of " + k
						}
					}
				} else {
					others++
				}
			}
			got["st"], got["others"] = gotSt, others
			got["flags"] = []bool{rs.NoticesPresent, rs.WarningsPresent, rs.ErrorsPresent, rs.FatalsPresent}
			got["version"] = rs.Version
			if len(gotSt) != len(wantSt) {
				why = "result keys"
			}
			for id, s := range wantSt {
				if g2, ok := gotSt[id]; !ok || g2 != s {
					why = "status of " + id
				}
			}
			if rc.Regarg != "nil" {
				if others != 0 {
					why = "results for unselected lints"
				}
				fl := got["flags"].([]bool)
				for j := range fl {
					if fl[j] != rc.Flags[j] {
						why = fmt.Sprintf("flag %d", j)
					}
				}
			} else {
				// global registry: real lints run too, so the model's flags are a lower bound
				fl := got["flags"].([]bool)
				for j := range fl {
					if rc.Flags[j] && !fl[j] {
						why = fmt.Sprintf("flag %d", j)
					}
				}
				if others != len(lintsOf(g, rc.Kind))-len(rc.Order) {
					why = "global registry: result count"
				}
			}
			if rs.Version != rc.Version {
				why = "version"
			}
		}
		if why != "" {
			results[i] = &mism{rc, got, why}
		}
	})
	var ms []*mism
	nskip := 0
	for i, r := range results {
		if r != nil {
			ms = append(ms, r)
		}
		if skipped[i] {
			nskip++
		}
	}
	ev.WriteJSON(out("mismatches.json"), ms)
	ev.WriteJSON(out("summary.json"), ev.M{"cases": len(cases), "replayed": len(cases) - nskip, "mismatches": len(ms),
		"sample": cases[len(cases)/2]})
}

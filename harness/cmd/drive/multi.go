package main

import "math/rand"

// forgedMultiOffenders is replaced by Plan_Multi (duplicate-and-vary edits); empty until then.
func forgedMultiOffenders(rng *rand.Rand) []*Target { return nil }

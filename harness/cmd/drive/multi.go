package main

// Plan_Multi.tla: inputs with several offenders of the same kind (C05), and the KeyUsage rule family.
import (
	"encoding/json"
	"fmt"
	"math/rand"
	"os"
	"strings"

	"github.com/zmap/zcrypto/x509"
	"github.com/zmap/zlint/v3/lint"
	"verif/harness/internal/corpus"
	"verif/harness/internal/ev"
	"verif/harness/internal/forge"
)

type kuekuRecipe struct {
	Ku   []int    `json:"ku"`
	Ekus []string `json:"ekus"`
	Ok   bool     `json:"ok"`
}

type multiPlan struct {
	KuEku  []kuekuRecipe `json:"kueku"`
	Others []struct {
		R string `json:"r"`
		N int    `json:"n"`
	} `json:"others"`
}

func loadMultiPlan() *multiPlan {
	p := os.Getenv("VERIF_MULTI")
	if p == "" {
		return nil
	}
	var pl multiPlan
	readExport(p, func(inner string) { json.Unmarshal([]byte(inner), &pl) })
	if len(pl.KuEku) == 0 {
		return nil
	}
	return &pl
}

var ekuOID = map[string][]int{
	"serverAuth": {1, 3, 6, 1, 5, 5, 7, 3, 1}, "clientAuth": {1, 3, 6, 1, 5, 5, 7, 3, 2}, "codeSigning": {1, 3, 6, 1, 5, 5, 7, 3, 3},
	"emailProtection": {1, 3, 6, 1, 5, 5, 7, 3, 4}, "timeStamping": {1, 3, 6, 1, 5, 5, 7, 3, 8}, "OCSPSigning": {1, 3, 6, 1, 5, 5, 7, 3, 9},
	"anyOther": {1, 3, 6, 1, 5, 5, 7, 3, 5}, // ipsecEndSystem: known to the parser, not in the lint's table
}

func kuBitString(bits []int) []byte {
	var b [2]byte
	max := -1
	for _, k := range bits {
		b[k/8] |= 0x80 >> uint(k%8)
		if k > max {
			max = k
		}
	}
	n := max/8 + 1
	unused := 7 - max%8
	return forge.Prim(0x03, append([]byte{byte(unused)}, b[:n]...)).Bytes()
}

func plantKuEku(base *forge.Cert, r kuekuRecipe) []byte {
	c := base.Clone()
	c.SetExt("2.5.29.15", forge.MakeExt(forge.OID(2, 5, 29, 15), true, kuBitString(r.Ku)))
	var oids []*forge.Node
	for _, e := range r.Ekus {
		oids = append(oids, forge.OID(ekuOID[e]...))
	}
	c.SetExt("2.5.29.37", forge.MakeExt(forge.OID(2, 5, 29, 37), false, forge.Cons(0x10, oids...).Bytes()))
	return c.Bytes()
}

// kuekuTemplates: subscriber certificates carrying both extensions on which the consistency lint applies.
func kuekuTemplates(c *corpus.Corpus, want int) []*corpus.Obj {
	var out []*corpus.Obj
	g := lint.GlobalRegistry()
	l := g.CertificateLints().ByName("e_key_usage_and_extended_key_usage_inconsistent")
	if l == nil {
		return nil
	}
	for _, o := range c.Certs {
		if len(o.Cert.ExtKeyUsage) == 0 || o.Cert.KeyUsage == 0 || o.Cert.IsCA {
			continue
		}
		if inst := l.Lint(); !inst.CheckApplies(o.Cert) {
			continue
		}
		if _, err := forge.ParseCert(o.DER); err != nil {
			continue
		}
		out = append(out, o)
		if len(out) == want {
			break
		}
	}
	return out
}

func kuekuID(tpl string, r kuekuRecipe) string {
	return fmt.Sprintf("forged:kueku:%s:ku=%v:ekus=%s", tpl, r.Ku, strings.Join(r.Ekus, "+"))
}

func varyFirst(s string) string {
	if s == "" {
		return s
	}
	repl := byte('a')
	if s[0] == 'a' {
		repl = 'b'
	}
	return string(repl) + s[1:]
}

func varyN(s string, k int) string {
	// k-th variant of a label: replace its first character by the k-th letter that differs from it
	letters := "abcdefghijklmnopqrstuvwxyz234567"
	n := 0
	for i := 0; i < len(letters); i++ {
		if s != "" && letters[i] != s[0] {
			n++
			if n == k {
				return string(letters[i]) + s[1:]
			}
		}
	}
	return s
}

// forgedMultiOffenders: the recipes of Plan_Multi applied to corpus templates.
func forgedMultiOffenders(rng *rand.Rand) []*Target {
	pl := loadMultiPlan()
	if pl == nil {
		return nil
	}
	c := corpus.Load()
	var out []*Target
	add := func(id string, der []byte) {
		if cert, ok, _ := corpus.ParseCert(der); ok {
			out = append(out, &Target{Kind: "cert", ID: id, DER: der, Cert: cert})
		}
	}
	skip := map[string]bool{}
	for _, r := range strings.Split(os.Getenv("VERIF_MULTI_SKIP"), ",") {
		skip[r] = true
	}
	// ---- kueku
	for _, tpl := range kuekuTemplates(c, 1) {
		if skip["kueku"] {
			break
		}
		base, _ := forge.ParseCert(tpl.DER)
		for _, r := range pl.KuEku {
			if len(r.Ekus) < 2 {
				continue // one purpose: no merging, nothing order-dependent (the rule family check covers it)
			}
			add(kuekuID(tpl.ID, r), plantKuEku(base, r))
		}
	}
	// ---- vocabulary for elem-vary: every element of every SEQUENCE-valued extension of the corpus, by extension and by the
	// element's leading OID (a QcStatement, a PolicyInformation, an AccessDescription...) or else its tag (a GeneralName)
	elemKey := func(n *forge.Node) string {
		if n.Constructed() && len(n.Children) > 0 && n.Children[0].Tag() == 0x06 {
			return "oid:" + forge.OIDString(n.Children[0].Content)
		}
		return fmt.Sprintf("tag:%02x", n.Tag())
	}
	elemVocab := map[string]map[string][][]byte{}
	elemSeen := map[string]bool{}
	for _, o := range c.Certs {
		b, err := forge.ParseCert(o.DER)
		if err != nil || b.Exts() == nil {
			continue
		}
		for _, x := range b.Exts().Children {
			v := forge.ExtValue(x)
			if v == nil || v.Children != nil {
				continue
			}
			seq, err := forge.Parse(v.Content)
			if err != nil || seq.Tag() != 0x30 || len(seq.Children) == 0 {
				continue
			}
			xo := forge.ExtOID(x)
			for _, el := range seq.Children {
				eb := el.Bytes()
				if len(eb) > 600 || elemSeen[xo+string(eb)] {
					continue
				}
				elemSeen[xo+string(eb)] = true
				if elemVocab[xo] == nil {
					elemVocab[xo] = map[string][][]byte{}
				}
				k := elemKey(el)
				if len(elemVocab[xo][k]) < 12 {
					elemVocab[xo][k] = append(elemVocab[xo][k], eb)
				}
			}
		}
	}
	elemBudget := map[string]int{}
	elemMax := 2
	if tier == "thorough" {
		elemMax = 5
	}
	// ---- the generic duplicate-and-vary recipes
	stride := 6
	full := os.Getenv("VERIF_MULTI_FULL") == "1" // every template, every attribute (C02: each input is linted once)
	if full {
		stride = 1
	} else if tier == "thorough" {
		stride = 2
	}
	// ---- str-blank: the character strings inside RARE extensions (an extension carried by fewer than 15 corpus certificates: the
	// organisation identifier, QC statements, a notice text ...) - every certificate that has one, whatever the stride
	extFreq := map[string]int{}
	for _, o := range c.Certs {
		for _, x := range o.Cert.Extensions {
			extFreq[x.Id.String()]++
		}
	}
	for _, rc := range pl.Others {
		if rc.R != "str-blank" || skip["str-blank"] {
			continue
		}
		isStr := func(nd *forge.Node) bool {
			return nd.Children == nil && !nd.Constructed() && (nd.Tag() == 0x0c || nd.Tag() == 0x13 || nd.Tag() == 0x16 || nd.Tag() == 0x1a) && len(nd.Content) > 0
		}
		// the string nodes of the rare extensions of a certificate, in walk order
		rareStrings := func(fc *forge.Cert) []*forge.Node {
			var nodes []*forge.Node
			exts := fc.Exts()
			if exts == nil {
				return nil
			}
			for _, x := range exts.Children {
				if f := extFreq[forge.ExtOID(x)]; f == 0 || f >= 15 {
					continue
				}
				forge.Expand(x)
				x.Walk(func(nd *forge.Node) {
					if isStr(nd) {
						nodes = append(nodes, nd)
					}
				})
			}
			return nodes
		}
		for _, o := range c.Certs {
			base, err := forge.ParseCert(o.DER)
			if err != nil {
				continue
			}
			count := len(rareStrings(base.Clone()))
			if count == 0 {
				continue
			}
			// n = 1: one certificate per string (the first six), that string alone made blank; n = 2: every string given a trailing blank
			variants := 1
			if rc.N == 1 {
				variants = min(count, 6)
			}
			for v := 0; v < variants; v++ {
				cc := base.Clone()
				for k, nd := range rareStrings(cc) {
					if rc.N == 1 && k == v {
						nd.Content = []byte(" ")
					} else if rc.N != 1 {
						nd.Content = append(append([]byte{}, nd.Content...), ' ')
					}
				}
				add(fmt.Sprintf("forged:str-blank%d.%d:%s", rc.N, v, o.ID), cc.Bytes())
			}
		}
	}
	for ci, o := range c.Certs {
		onion := false
		for _, n := range o.Cert.DNSNames {
			if strings.HasSuffix(n, ".onion") {
				onion = true
			}
		}
		if !onion && ci%stride != int(seed)%stride {
			continue
		}
		base, err := forge.ParseCert(o.DER)
		if err != nil {
			continue
		}
		for _, rc := range pl.Others {
			if skip[rc.R] {
				continue
			}
			switch rc.R {
			case "san-vary":
				names := base.NamesOfExt("2.5.29.17")
				var dns *forge.Node
				for _, n := range names { // the LAST .onion name if there is one (rules about onion names count them), else the first dotted name
					if n.Tag() == 0x82 && strings.HasSuffix(string(n.Body()), ".onion") && strings.Count(string(n.Body()), ".") >= 1 {
						dns = n
					}
				}
				for _, n := range names {
					if dns == nil && n.Tag() == 0x82 && strings.Count(string(n.Body()), ".") >= 1 {
						dns = n
					}
				}
				if dns == nil {
					continue
				}
				labels := strings.Split(string(dns.Body()), ".")
				cc := base.Clone()
				nn := cc.NamesOfExt("2.5.29.17")
				for k := 1; k <= rc.N; k++ {
					l2 := append([]string{}, labels...)
					l2[len(l2)-2] = varyN(l2[len(l2)-2], k)
					nn = append(nn, forge.GN(0x82, []byte(strings.Join(l2, "."))))
				}
				ext := cc.FindExt("2.5.29.17")
				forge.SetGeneralNames(ext, forge.GeneralNames(nn...))
				add(fmt.Sprintf("forged:san-vary%d:%s", rc.N, o.ID), cc.Bytes())
			case "san-case":
				names := base.NamesOfExt("2.5.29.17")
				var dns *forge.Node
				var others []*forge.Node
				for _, n := range names {
					if n.Tag() == 0x82 && dns == nil && strings.Count(string(n.Body()), ".") >= 1 {
						dns = n
					} else if n.Tag() != 0x82 {
						others = append(others, n)
					}
				}
				if dns == nil || o.Cert.IsCA {
					continue
				}
				up := strings.ToUpper(string(dns.Body()))
				labels := strings.Split(string(dns.Body()), ".")
				nn := []*forge.Node{forge.GN(0x82, []byte(up))}
				for k := 1; k < rc.N; k++ {
					l2 := append([]string{}, labels...)
					l2[len(l2)-2] = varyN(l2[len(l2)-2], k)
					nn = append(nn, forge.GN(0x82, []byte(strings.Join(l2, "."))))
				}
				cc := base.Clone()
				forge.SetGeneralNames(cc.FindExt("2.5.29.17"), forge.GeneralNames(append(nn, others...)...))
				if !forge.SetAttr(cc.Subject(), "2.5.4.3", 0x0c, []byte(up)) {
					forge.AddAttr(cc.Subject(), forge.OID(2, 5, 4, 3), 0x0c, []byte(up))
				}
				add(fmt.Sprintf("forged:san-case%d:%s", rc.N, o.ID), cc.Bytes())
			case "elem-vary":
				// in every SEQUENCE-valued extension: each element gets rc.N siblings of its own kind (same leading OID / tag) with
				// OTHER content, taken from the corpus vocabulary - the same statement, policy, access method... twice, differently.
				// One certificate per extension (siblings behind the originals) and one with the siblings in front.
				if base.Exts() == nil {
					continue
				}
				for xi, x := range base.Exts().Children {
					v := forge.ExtValue(x)
					if v == nil || v.Children != nil {
						continue
					}
					seq, err := forge.Parse(v.Content)
					xo := forge.ExtOID(x)
					if err != nil || seq.Tag() != 0x30 || len(seq.Children) == 0 || elemVocab[xo] == nil || xo == "2.5.29.17" {
						continue
					}
					var extra []*forge.Node
					for _, el := range seq.Children {
						pool := elemVocab[xo][elemKey(el)]
						added := 0
						for pi := 0; pi < len(pool) && added < rc.N; pi++ {
							cand := pool[(pi+ci)%len(pool)]
							if string(cand) == string(el.Bytes()) {
								continue
							}
							if n2, err := forge.Parse(cand); err == nil {
								extra = append(extra, n2)
								added++
							}
						}
					}
					if len(extra) == 0 {
						continue
					}
					// budget: a few templates per (extension, kinds of its elements, n) class
					cls := fmt.Sprintf("%s|%d", xo, rc.N)
					for _, el := range seq.Children {
						cls += "|" + elemKey(el)
					}
					if elemBudget[cls] >= elemMax {
						continue
					}
					elemBudget[cls]++
					for front := 0; front < 2; front++ {
						cc := base.Clone()
						s2 := seq.Clone()
						if front == 1 {
							s2.Children = append(append([]*forge.Node{}, extra...), s2.Children...)
						} else {
							s2.Children = append(s2.Children, extra...)
						}
						forge.ExtValue(cc.Exts().Children[xi]).Content = s2.Bytes()
						add(fmt.Sprintf("forged:elem-vary%d:%s:ext%s:front%d", rc.N, o.ID, xo, front), cc.Bytes())
					}
				}
			case "str-blank":
				// (made below for every certificate, not only for those of this stride: it looks at rare extensions only)
			case "dup-ext":
				exts := base.Exts()
				if exts == nil || len(exts.Children) < rc.N {
					continue
				}
				cc := base.Clone()
				e2 := cc.Exts()
				for _, j := range rng.Perm(len(exts.Children))[:rc.N] {
					e2.Children = append(e2.Children, exts.Children[j].Clone())
				}
				add(fmt.Sprintf("forged:dup-ext%d:%s", rc.N, o.ID), cc.Bytes())
			case "rdn-vary":
				subj := base.Subject()
				if len(subj.Children) == 0 {
					continue
				}
				if full && rc.N == 2 {
					// one certificate per attribute: that attribute repeated with a varied and with a truncated value
					for ai := range subj.Children {
						cc := base.Clone()
						s2 := cc.Subject()
						for k := 1; k <= 2; k++ {
							src := subj.Children[ai].Clone()
							if len(src.Children) > 0 && len(src.Children[0].Children) == 2 && !src.Children[0].Children[1].Constructed() {
								v := src.Children[0].Children[1]
								val := varyN(string(v.Body()), k)
								if k == 2 && len(val) > 3 {
									val = val[3:]
								}
								src.Children[0].Children[1] = forge.Prim(v.Tag(), []byte(val))
							}
							s2.Children = append(s2.Children, src)
						}
						add(fmt.Sprintf("forged:rdn-vary-attr%d:%s", ai, o.ID), cc.Bytes())
					}
					continue
				}
				cc := base.Clone()
				s2 := cc.Subject()
				for k := 1; k <= rc.N; k++ {
					src := subj.Children[rng.Intn(len(subj.Children))].Clone()
					if len(src.Children) > 0 && len(src.Children[0].Children) == 2 && !src.Children[0].Children[1].Constructed() {
						v := src.Children[0].Children[1]
						src.Children[0].Children[1] = forge.Prim(v.Tag(), []byte(varyN(string(v.Body()), k)))
					}
					s2.Children = append(s2.Children, src)
				}
				add(fmt.Sprintf("forged:rdn-vary%d:%s", rc.N, o.ID), cc.Bytes())
			}
		}
	}
	if !skip["crl-entry-vary"] {
		out = append(out, forgedCRLEntryVariants(c)...)
		out = append(out, forgedCRLStripped(c)...)
	}
	return out
}

// forgedCRLEntryVariants: a revoked entry that carries an ENUMERATED (reasonCode) repeated with other serial numbers and every
// other reason code class next to it - several different offenders in one list.
func forgedCRLEntryVariants(c *corpus.Corpus) []*Target {
	var out []*Target
	for _, o := range c.CRLs {
		root, err := forge.Parse(o.DER)
		if err != nil || len(root.Children) != 3 {
			continue
		}
		forge.Expand(root)
		tbs := root.Children[0]
		var list *forge.Node
		for i, ch := range tbs.Children {
			if i >= 3 && ch.Tag() == 0x30 && len(ch.Children) > 0 && ch.Children[0].Tag() == 0x30 && len(ch.Children[0].Children) >= 2 && ch.Children[0].Children[0].Tag() == 0x02 {
				list = ch
			}
		}
		if list == nil {
			continue
		}
		var enumPath func(n *forge.Node) *forge.Node
		enumPath = func(n *forge.Node) *forge.Node {
			if n.Tag() == 0x0a && n.Children == nil {
				return n
			}
			for _, ch := range n.Children {
				if r := enumPath(ch); r != nil {
					return r
				}
			}
			return nil
		}
		var entry *forge.Node
		for _, e := range list.Children {
			if enumPath(e) != nil {
				entry = e
				break
			}
		}
		if entry == nil {
			continue
		}
		for vi, codes := range [][]byte{{0, 7}, {7, 0}, {0, 11, 7}, {1, 0, 255}, {10, 9, 8, 7}} {
			m := root.Clone()
			mt := m.Children[0]
			var ml *forge.Node
			for i, ch := range mt.Children {
				if i >= 3 && ch.Tag() == 0x30 && len(ch.Children) > 0 && ch.Children[0].Tag() == 0x30 && len(ch.Children[0].Children) >= 2 && ch.Children[0].Children[0].Tag() == 0x02 {
					ml = ch
				}
			}
			for k, code := range codes {
				e2 := entry.Clone()
				if en := enumPath(e2); en != nil {
					en.Content = []byte{code}
				}
				ser := e2.Children[0]
				// serial numbers in DESCENDING order of appearance (and above / below the existing ones alternately): a rule that
				// re-orders the list by serial changes which offender comes first
				ser.Content = append([]byte{byte(0x7f - 8*k - vi), byte(vi), byte(k)}, ser.Content...)
				if vi%2 == 1 {
					ml.Children = append([]*forge.Node{e2}, ml.Children...)
				} else {
					ml.Children = append(ml.Children, e2)
				}
			}
			der := m.Bytes()
			if crl, ok, _ := corpus.ParseCRL(der); ok {
				out = append(out, &Target{Kind: "crl", ID: fmt.Sprintf("forged:crl-entry-vary%d:%s", vi, o.ID), DER: der, CRL: crl})
			}
		}
	}
	return out
}

// forgedCRLStripped: the optional parts of a TBSCertList (nextUpdate, revokedCertificates, crlExtensions) removed in every
// combination - down to a list that ends right after thisUpdate.
func forgedCRLStripped(c *corpus.Corpus) []*Target {
	var out []*Target
	for ci, o := range c.CRLs {
		if ci%3 != 0 {
			continue
		}
		root, err := forge.Parse(o.DER)
		if err != nil || len(root.Children) != 3 {
			continue
		}
		tbs := root.Children[0]
		// positions of the optional members after thisUpdate
		ti := -1
		for i, ch := range tbs.Children {
			if ch.Tag() == 0x17 || ch.Tag() == 0x18 {
				ti = i
				break
			}
		}
		if ti < 0 {
			continue
		}
		var opt []int
		for i := ti + 1; i < len(tbs.Children); i++ {
			opt = append(opt, i)
		}
		for mask := 1; mask < 1<<uint(len(opt)); mask++ {
			m := root.Clone()
			mt := m.Children[0]
			var keep []*forge.Node
			for i, ch := range mt.Children {
				drop := false
				for b, oi := range opt {
					if oi == i && mask&(1<<uint(b)) != 0 {
						drop = true
					}
				}
				if !drop {
					keep = append(keep, ch)
				}
			}
			mt.Children = keep
			der := m.Bytes()
			if crl, ok, _ := corpus.ParseCRL(der); ok {
				out = append(out, &Target{Kind: "crl", ID: fmt.Sprintf("forged:crl-strip%d:%s", mask, o.ID), DER: der, CRL: crl})
			}
		}
	}
	return out
}

// cmdKuEku: the KeyUsage rule family as a fidelity oracle - every (key usage, purposes) of the plan on a subscriber
// template, judged by the real lint; Trace_KeyUsage recomputes KeyUsage!Consistent.
func cmdKuEku(args []string) {
	parseFlags(args)
	pl := loadMultiPlan()
	if pl == nil {
		fmt.Fprintln(os.Stderr, "no plan in VERIF_MULTI")
		os.Exit(2)
	}
	c := corpus.Load()
	w := ev.Create(out("kueku.ndjson"))
	defer w.Close()
	g := lint.GlobalRegistry()
	l := g.CertificateLints().ByName("e_key_usage_and_extended_key_usage_inconsistent")
	n, tpls := 0, kuekuTemplates(c, 3)
	for _, tpl := range tpls {
		base, _ := forge.ParseCert(tpl.DER)
		// every combination is judged in the plan's order and then again in the reverse order (single purposes before and
		// after the lists that contain them): the set of statuses seen must still have one element
		type item struct {
			r    kuekuRecipe
			cert *x509.Certificate
			sts  map[int]bool
		}
		var items []*item
		for _, r := range pl.KuEku {
			if cert, ok, _ := corpus.ParseCert(plantKuEku(base, r)); ok {
				items = append(items, &item{r, cert, map[int]bool{}})
			}
		}
		judge := func(it *item, reps int) {
			for k := 0; k < reps; k++ {
				res := l.Execute(it.cert, g.GetConfiguration())
				it.sts[int(res.Status)] = true
			}
		}
		for _, it := range items {
			judge(it, 8)
		}
		for i := len(items) - 1; i >= 0; i-- {
			judge(items[i], 4)
		}
		for _, it := range items {
			var sl []int
			for s := range it.sts {
				sl = append(sl, s)
			}
			w.Emit(ev.M{"ev": "KuEku", "tpl": tpl.ID, "ku": it.r.Ku, "ekus": it.r.Ekus, "st": sl, "nEku": len(it.cert.ExtKeyUsage), "kuParsed": kuBitsOf(it.cert)})
			n++
		}
	}
	ev.WriteJSON(out("summary.json"), ev.M{"events": n, "templates": len(tpls)})
}

func kuBitsOf(c *x509.Certificate) []int {
	out := []int{}
	for b := 0; b < 9; b++ {
		if int(c.KeyUsage)&(1<<uint(b)) != 0 {
			out = append(out, b)
		}
	}
	return out
}

package main

import (
	"bytes"
	"encoding/json"
	"fmt"
	"math/rand"
	"os"
	"path/filepath"
	"regexp"
	"sort"
	"strconv"
	"strings"
	"time"

	"github.com/zmap/zlint/v3/lint"
	"verif/harness/internal/corpus"
	"verif/harness/internal/ev"
	"verif/harness/internal/forge"
)

func tagClass(n *forge.Node) string {
	t := n.Tag()
	if t&0xc0 == 0x80 {
		if n.Constructed() {
			return "context-cons"
		}
		return "context-prim"
	}
	switch t {
	case 0x0c:
		return "utf8"
	case 0x13:
		return "printable"
	case 0x16:
		return "ia5"
	case 0x1e:
		return "bmp"
	case 0x14:
		return "teletex"
	case 0x1c:
		return "universal"
	case 0x02:
		return "integer"
	case 0x01:
		return "boolean"
	case 0x0a:
		return "enumerated"
	case 0x06:
		return "oid"
	case 0x04:
		return "octets"
	case 0x03:
		return "bits"
	case 0x05:
		return "null"
	case 0x17, 0x18:
		return "time"
	case 0x30:
		return "sequence"
	case 0x31:
		return "set"
	}
	return "other"
}

var retag = map[string]byte{"retag-utf8": 0x0c, "retag-printable": 0x13, "retag-ia5": 0x16, "retag-bmp": 0x1e, "retag-teletex": 0x14, "retag-universal": 0x1c}

// applyOp mutates node n (child index ci of parent) in place; returns false when the operator does not apply here.
func applyOp(op string, parent *forge.Node, ci int) bool {
	n := parent.Children[ci]
	leaf := n.Children == nil
	switch op {
	case "drop-last-byte":
		if !leaf || len(n.Content) == 0 {
			return false
		}
		n.Content = n.Content[:len(n.Content)-1]
	case "drop-first-byte":
		if !leaf || len(n.Content) == 0 {
			return false
		}
		n.Content = n.Content[1:]
	case "empty":
		if !leaf || len(n.Content) == 0 {
			return false
		}
		n.Content = []byte{}
	case "append-c2":
		if !leaf {
			return false
		}
		n.Content = append(n.Content, 0xc2)
	case "append-e0a0":
		if !leaf {
			return false
		}
		n.Content = append(n.Content, 0xe0, 0xa0)
	case "append-f0":
		if !leaf {
			return false
		}
		n.Content = append(n.Content, 0xf0)
	case "last-byte-c2":
		if !leaf || len(n.Content) == 0 {
			return false
		}
		n.Content[len(n.Content)-1] = 0xc2
	case "set-high-bits":
		if !leaf || len(n.Content) == 0 {
			return false
		}
		for i := range n.Content {
			if i%3 == 0 {
				n.Content[i] |= 0x80
			}
		}
	case "double-content":
		if !leaf || len(n.Content) == 0 || len(n.Content) > 4096 {
			return false
		}
		n.Content = append(n.Content, n.Content...)
	case "odd-length":
		if !leaf {
			return false
		}
		n.Content = append(n.Content, 0x41)
	case "all-ff", "min-negative", "max-positive", "all-zero", "inc-last-byte":
		// numbers (INTEGER, ENUMERATED, BOOLEAN): the extreme and neighbouring values of the same width
		if !leaf || len(n.Content) == 0 {
			return false
		}
		for i := range n.Content {
			switch op {
			case "all-ff":
				n.Content[i] = 0xff
			case "all-zero":
				n.Content[i] = 0
			case "min-negative":
				n.Content[i] = 0
				if i == 0 {
					n.Content[i] = 0x80
				}
			case "max-positive":
				n.Content[i] = 0xff
				if i == 0 {
					n.Content[i] = 0x7f
				}
			}
		}
		if op == "inc-last-byte" {
			n.Content[len(n.Content)-1]++
		}
	case "drop-last-2", "drop-last-3", "keep-first-2":
		// shorter object identifiers / numbers: a parent arc, a prefix of a key identifier
		k := map[string]int{"drop-last-2": 2, "drop-last-3": 3}[op]
		if !leaf || len(n.Content) <= 2 || (k > 0 && len(n.Content) <= k) {
			return false
		}
		if op == "keep-first-2" {
			n.Content = n.Content[:2]
		} else {
			n.Content = n.Content[:len(n.Content)-k]
		}
	case "mid-percent", "mid-space", "mid-control", "mid-colon", "mid-at", "mid-bracket":
		// characters that break the syntax of URIs, mail addresses and host names, put into the middle of a string
		if !leaf || len(n.Content) < 4 {
			return false
		}
		ins := map[string][]byte{"mid-percent": []byte("%2G"), "mid-space": []byte(" "), "mid-control": {0x7f}, "mid-colon": []byte(":x:"), "mid-at": []byte("@@"), "mid-bracket": []byte("[")}[op]
		at := len(n.Content) * 2 / 3
		n.Content = append(append(append([]byte{}, n.Content[:at]...), ins...), n.Content[at:]...)
	case "label-empty-first", "label-empty-mid", "label-empty-last", "label-drop-mid", "label-dup-mid", "label-long-mid", "label-two-chars", "label-nondigit":
		// dotted names (host names, reverse-DNS names, mail domains): one label emptied (the number of labels stays), dropped,
		// repeated, made longer than 63 octets, given a second character, or made non-numeric
		if !leaf || bytes.Count(n.Content, []byte(".")) < 1 || len(n.Content) > 400 {
			return false
		}
		labels := bytes.Split(n.Content, []byte("."))
		at := map[string]int{"label-empty-first": 0, "label-empty-last": len(labels) - 1}[op]
		if _, ok := map[string]int{"label-empty-first": 0, "label-empty-last": 0}[op]; !ok {
			at = len(labels) / 3
		}
		switch op {
		case "label-empty-first", "label-empty-mid", "label-empty-last":
			if len(labels[at]) == 0 {
				return false
			}
			labels[at] = []byte{}
		case "label-drop-mid":
			labels = append(labels[:at], labels[at+1:]...)
		case "label-dup-mid":
			labels = append(labels[:at+1], append([][]byte{labels[at]}, labels[at+1:]...)...)
		case "label-long-mid":
			labels[at] = bytes.Repeat([]byte("l"), 64)
		case "label-two-chars":
			labels[at] = append(append([]byte{}, labels[at]...), 'f')
		case "label-nondigit":
			labels[at] = []byte("z")
		}
		n.Content = bytes.Join(labels, []byte("."))
	case "duplicate-node":
		parent.Children = append(parent.Children[:ci+1], append([]*forge.Node{n.Clone()}, parent.Children[ci+1:]...)...)
	case "delete-node":
		parent.Children = append(parent.Children[:ci:ci], parent.Children[ci+1:]...)
	case "delete-first-child":
		if leaf || len(n.Children) == 0 {
			return false
		}
		n.Children = n.Children[1:]
	case "duplicate-first-child":
		if leaf || len(n.Children) == 0 {
			return false
		}
		n.Children = append([]*forge.Node{n.Children[0].Clone()}, n.Children...)
	case "reverse-children":
		if leaf || len(n.Children) < 2 {
			return false
		}
		for i, j := 0, len(n.Children)-1; i < j; i, j = i+1, j-1 {
			n.Children[i], n.Children[j] = n.Children[j], n.Children[i]
		}
	case "swap-with-next":
		if ci+1 >= len(parent.Children) {
			return false
		}
		parent.Children[ci], parent.Children[ci+1] = parent.Children[ci+1], parent.Children[ci]
	default:
		if t, ok := retag[op]; ok {
			if !leaf {
				return false
			}
			n.Id = []byte{t}
			return true
		}
		return false
	}
	return true
}

type nodeRef struct {
	path []int
}

func collect(n *forge.Node, path []int, out *[]nodeRef) {
	for i, c := range n.Children {
		p := append(append([]int{}, path...), i)
		*out = append(*out, nodeRef{p})
		collect(c, p, out)
	}
}

func follow(root *forge.Node, path []int) (parent *forge.Node, ci int) {
	parent = root
	for _, i := range path[:len(path)-1] {
		parent = parent.Children[i]
	}
	return parent, path[len(path)-1]
}

// cmdMutate: C02.
func cmdMutate(args []string) {
	parseFlags(args)
	rng := rand.New(rand.NewSource(seed))
	var pl struct {
		Plan [][2]string `json:"plan"`
	}
	readExport(os.Getenv("VERIF_EXPORT"), func(inner string) { json.Unmarshal([]byte(inner), &pl) })
	opsFor := map[string][]string{}
	for _, p := range pl.Plan {
		opsFor[p[0]] = append(opsFor[p[0]], p[1])
	}
	if len(opsFor) == 0 {
		panic("no plan")
	}
	c := corpus.Load()
	g := lint.GlobalRegistry()
	cfg := g.GetConfiguration()
	byName := map[string]map[string]*LintRec{}
	for _, k := range []string{"cert", "crl", "ocsp"} {
		byName[k] = map[string]*LintRec{}
		for _, l := range lintsOf(g, k) {
			l := l
			byName[k][l.Name] = &l
		}
	}
	objs := loadTargets(c)
	stride := 25
	if tier == "thorough" {
		stride = 1
	}
	type job struct {
		t *Target
	}
	var jobs []*Target
	// carriers: a greedy cover - for every lint one corpus object on which it is not NA (every lint ships with such a test
	// object, so a lint's own re-parsing code is reached) - plus a rotating sample of the rest
	covered := map[string]bool{}
	chosen := map[int]bool{}
	if only == "" && tier != "thorough" {
		for i, t := range objs {
			rs, _, _ := runSet(t, g)
			if rs == nil {
				continue
			}
			// (a carrier for every verdict of every lint, and a second one: the object a verdict is met on last as well as first -
			// a rule's test objects for its IPv4 and its IPv6 branch, its SAN and its common-name branch, differ)
			gain := 0
			for name, r := range rs.Results {
				if r != nil && r.Status > lint.NE && !covered[fmt.Sprintf("%s|%d", name, r.Status)] {
					gain++
				}
			}
			if gain > 0 {
				chosen[i] = true
				for name, r := range rs.Results {
					if r != nil && r.Status > lint.NE {
						covered[fmt.Sprintf("%s|%d", name, r.Status)] = true
					}
				}
			}
		}
	}
	if only == "" && tier != "thorough" {
		covered2 := map[string]bool{}
		for i := len(objs) - 1; i >= 0; i-- {
			rs, _, _ := runSet(objs[i], g)
			if rs == nil {
				continue
			}
			for name, r := range rs.Results {
				if k := fmt.Sprintf("%s|%d", name, r.Status); r != nil && r.Status > lint.NE && !covered2[k] {
					covered2[k] = true
					chosen[i] = true
				}
			}
		}
	}
	for i, t := range objs {
		if only != "" {
			if t.ID == only {
				jobs = append(jobs, t)
			}
			continue
		}
		if t.Kind != "cert" || chosen[i] || i%stride == int(seed)%stride {
			jobs = append(jobs, t)
		}
	}
	type result struct {
		events  []ev.M
		mutants int
		parsed  int
		ppanics int
		agg     map[string]int
		triples map[string]bool
	}
	// inputs with several offenders of one kind (Plan_Multi), linted as they are
	var plain []*Target
	if only == "" || strings.HasPrefix(only, "forged:") {
		for _, t := range extraTargets(rng) {
			if only == "" || t.ID == only {
				plain = append(plain, t)
			}
		}
	}
	// extensions a lint may look for, with values it cannot decode: every object identifier written out in v3/util (the
	// identifiers the lints compare extension ids with) is injected as an extension - critical and not - into a subscriber
	// certificate, a CA certificate and a CRL, carrying a handful of values that are not what the extension's syntax asks for.
	// A lint that decodes "its" extension meets these whether or not its own test objects carry the extension.
	if only == "" || strings.HasPrefix(only, "injected:") {
		for _, t := range injectedExtensions(c) {
			if only == "" || t.ID == only {
				plain = append(plain, t)
			}
		}
	}
	// the result sets of these inputs (and of every 25th mutant) are recorded too: C01 judges them like those of the corpus
	wRun := ev.Create(out("run.ndjson"))
	index := map[string]map[string]int{}
	for _, k := range []string{"cert", "crl", "ocsp"} {
		ls := lintsOf(g, k)
		wRun.Emit(metaEvent(k, ls))
		index[k] = map[string]int{}
		for i, l := range ls {
			index[k][l.Name] = i + 1
		}
	}
	for _, mt := range plain {
		e, _ := runDoneEvent(mt, "full", g, index[mt.Kind])
		wRun.Emit(e)
	}
	wRun.Close()
	results := make([]result, len(jobs)+1)
	replayPath := os.Getenv("VERIF_MUTATION") // "path|op" to replay one mutation only
	parallel(len(jobs), func(ji int) {
		t := jobs[ji]
		res := result{agg: map[string]int{}, triples: map[string]bool{}}
		root, err := forge.Parse(t.DER)
		if err != nil {
			results[ji] = res
			return
		}
		forge.Expand(root)
		var refs []nodeRef
		collect(root, nil, &refs)
		lrng := rand.New(rand.NewSource(seed*7919 + int64(ji)))
		for _, ref := range refs {
			par0, ci0 := follow(root, ref.path)
			cls := tagClass(par0.Children[ci0])
			ops := opsFor[cls]
			if tier != "thorough" && len(ops) > 6 && replayPath == "" && !strings.HasPrefix(cls, "utf8") && cls != "printable" && cls != "ia5" && cls != "bmp" {
				// quick: a rotating third of the operators at each node
				var sub []string
				off := lrng.Intn(3)
				for k, o := range ops {
					if k%3 == off {
						sub = append(sub, o)
					}
				}
				ops = sub
			}
			for _, op := range ops {
				desc := fmt.Sprintf("%v|%s", ref.path, op)
				if replayPath != "" && replayPath != desc {
					continue
				}
				m := root.Clone()
				par, ci := follow(m, ref.path)
				if !applyOp(op, par, ci) {
					continue
				}
				der := m.Bytes()
				res.mutants++
				mt := &Target{Kind: t.Kind, ID: t.ID, DER: der}
				ok, pp := false, false
				switch t.Kind {
				case "cert":
					mt.Cert, ok, pp = corpus.ParseCert(der)
				case "crl":
					mt.CRL, ok, pp = corpus.ParseCRL(der)
				default:
					mt.OCSP, ok, pp = corpus.ParseOCSP(der)
				}
				if pp {
					res.ppanics++ // the parser itself failed: not an input the parser accepts
				}
				if !ok {
					continue
				}
				res.parsed++
				rs, esc, hung := runSet(mt, g)
				recovered, fatalUnexplained := []string{}, []string{}
				if rs != nil {
					for name, r := range rs.Results {
						if r == nil {
							continue
						}
						if r.Status > lint.NA {
							res.triples[cls+"|"+op+"|"+name] = true
						}
						if r.Status == lint.Fatal {
							switch detailsClass(name, r.Details) {
							case "panicmsg":
								recovered = append(recovered, name)
							case "cfgmsg":
							default:
								// an explicit decision of the rule: the direct body call must return the same fatal without panicking
								x := execOne(byName[t.Kind][name], mt, cfg)
								if x.Body != int(lint.Fatal) {
									fatalUnexplained = append(fatalUnexplained, name)
								}
							}
						}
					}
				}
				sort.Strings(recovered)
				if len(recovered) == 0 && len(fatalUnexplained) == 0 && esc == "" && !hung {
					res.agg[t.Kind+"|"+cls+"|"+op]++
					continue
				}
				res.events = append(res.events, ev.M{"ev": "Mutant", "kind": t.Kind, "base": t.ID, "path": fmt.Sprint(ref.path), "op": op, "class": cls, "n": 1,
					"recovered": recovered, "escaped": esc != "", "hung": hung, "fatalUnexplained": fatalUnexplained, "panicMsg": esc, "der": b64(der)})
			}
		}
		results[ji] = res
	})
	{
		res := result{agg: map[string]int{}, triples: map[string]bool{}}
		for _, mt := range plain {
			res.mutants++
			res.parsed++
			rs, esc, hung := runSet(mt, g)
			recovered := []string{}
			if rs != nil {
				for name, r := range rs.Results {
					if r != nil && r.Status == lint.Fatal && detailsClass(name, r.Details) == "panicmsg" {
						recovered = append(recovered, name)
					}
				}
			}
			sort.Strings(recovered)
			if len(recovered) == 0 && esc == "" && !hung {
				res.agg[mt.Kind+"|several-offenders|none"]++
				continue
			}
			res.events = append(res.events, ev.M{"ev": "Mutant", "kind": mt.Kind, "base": mt.ID, "path": "[]", "op": "none", "class": "several-offenders", "n": 1,
				"recovered": recovered, "escaped": esc != "", "hung": hung, "fatalUnexplained": []string{}, "panicMsg": esc, "der": b64(mt.DER)})
		}
		results[len(jobs)] = res
	}
	w := ev.Create(out("mutate.ndjson"))
	agg := map[string]int{}
	triples := map[string]bool{}
	mutants, parsed, ppanics := 0, 0, 0
	for _, r := range results {
		for _, e := range r.events {
			w.Emit(e)
		}
		for k, v := range r.agg {
			agg[k] += v
		}
		for k := range r.triples {
			triples[k] = true
		}
		mutants, parsed, ppanics = mutants+r.mutants, parsed+r.parsed, ppanics+r.ppanics
	}
	keys := make([]string, 0, len(agg))
	for k := range agg {
		keys = append(keys, k)
	}
	sort.Strings(keys)
	for _, k := range keys {
		p := strings.Split(k, "|")
		w.Emit(ev.M{"ev": "Mutant", "kind": p[0], "base": "*", "path": "*", "op": p[2], "class": p[1], "n": agg[k],
			"recovered": []string{}, "escaped": false, "hung": false, "fatalUnexplained": []string{}})
	}
	n := w.N
	w.Close()
	ev.WriteJSON(out("summary.json"), ev.M{"events": n, "carriers": len(jobs), "mutants": mutants, "parsed": parsed, "parser_panics": ppanics, "triples": len(triples),
		"classes": len(agg), "sample": ev.M{"op": "append-c2", "class": "utf8", "note": "a dangling UTF-8 lead byte appended to a UTF8String"}})
}

var oidLiteral = regexp.MustCompile(`asn1\.ObjectIdentifier\{([0-9, ]+)\}`)

// injectedExtensions: see cmdMutate.
func injectedExtensions(c *corpus.Corpus) []*Target {
	seen := map[string]bool{}
	var oids [][]int
	files, _ := filepath.Glob(filepath.Join(corpus.Root(), "v3", "util", "*.go"))
	for _, f := range files {
		if strings.HasSuffix(f, "_test.go") {
			continue
		}
		b, err := os.ReadFile(f)
		if err != nil {
			continue
		}
		for _, m := range oidLiteral.FindAllStringSubmatch(string(b), -1) {
			var arcs []int
			ok := true
			for _, a := range strings.Split(m[1], ",") {
				n, err := strconv.Atoi(strings.TrimSpace(a))
				if err != nil {
					ok = false
					break
				}
				arcs = append(arcs, n)
			}
			if ok && len(arcs) >= 3 && !seen[m[1]] {
				seen[m[1]] = true
				oids = append(oids, arcs)
			}
		}
	}
	values := [][]byte{{}, {0x05, 0x00}, {0x04, 0x01, 0x00}, {0x30, 0x00}, {0x30, 0x03, 0x81, 0x01}, {0x30, 0x03, 0x01, 0x01, 0xff, 0x05, 0x00}, {0x01, 0x02, 0x00, 0x00},
		{0x0c, 0x02, 0xc3, 0x28}, {0x30, 0x06, 0x30, 0x04, 0x06, 0x02, 0x2a, 0x03}, {0x03, 0x01, 0x00}, {0x02, 0x01, 0xff}, {0x30, 0x80}}
	var out []*Target
	var leaf, ca *corpus.Obj
	for _, o := range c.Certs {
		if strings.HasPrefix(o.ID, "synth:") {
			continue
		}
		if leaf == nil && !o.Cert.IsCA && len(o.Cert.DNSNames) > 0 && len(o.Cert.PolicyIdentifiers) > 0 {
			leaf = o
		}
		if ca == nil && o.Cert.IsCA && !bytes.Equal(o.Cert.RawIssuer, o.Cert.RawSubject) {
			ca = o
		}
	}
	late := time.Date(2024, 3, 1, 0, 0, 0, 0, time.UTC)
	for _, base := range []*corpus.Obj{leaf, ca} {
		if base == nil {
			continue
		}
		fc, err := forge.ParseCert(base.DER)
		if err != nil {
			continue
		}
		fc.SetNotBefore(late)
		fc.SetNotAfter(late.AddDate(0, 0, 90))
		for oi, arcs := range oids {
			for vi, val := range values {
				v := fc.Clone()
				v.SetExt(forge.OIDString(forge.OID(arcs...).Content), forge.MakeExt(forge.OID(arcs...), (oi+vi)%2 == 0, val))
				if cert, ok, _ := corpus.ParseCert(v.Bytes()); ok {
					out = append(out, &Target{Kind: "cert", ID: fmt.Sprintf("injected:%s:%v:%d", base.ID, arcs, vi), DER: v.Bytes(), Cert: cert})
				}
			}
		}
	}
	if len(c.CRLs) > 0 {
		root, err := forge.Parse(c.CRLs[0].DER)
		if err == nil && len(root.Children) == 3 {
			for oi, arcs := range oids {
				for vi, val := range values {
					m := root.Clone()
					tbs := m.Children[0]
					ext := forge.MakeExt(forge.OID(arcs...), (oi+vi)%2 == 0, val)
					var wrap *forge.Node
					for _, ch := range tbs.Children {
						if ch.Tag() == 0xa0 && ch.Constructed() && len(ch.Children) == 1 {
							wrap = ch
						}
					}
					if wrap != nil {
						wrap.Children[0].Children = append(wrap.Children[0].Children, ext)
					} else {
						tbs.Children = append(tbs.Children, forge.Cons(0x80, forge.Cons(0x10, ext)))
					}
					der := m.Bytes()
					if crl, ok, _ := corpus.ParseCRL(der); ok {
						out = append(out, &Target{Kind: "crl", ID: fmt.Sprintf("injected:%s:%v:%d", c.CRLs[0].ID, arcs, vi), DER: der, CRL: crl})
					}
				}
			}
		}
	}
	return out
}

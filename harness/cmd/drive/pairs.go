package main

import (
	"bytes"
	"encoding/json"
	"fmt"
	"math/rand"
	"net"
	"os"
	"sort"
	"strings"
	"time"

	"github.com/zmap/zlint/v3/lint"
	"verif/harness/internal/corpus"
	"verif/harness/internal/ev"
	"verif/harness/internal/forge"
)

// cmdPairs: C20. The table of duplicated rules comes from Pairs.tla (exported by TLC); the driver plants the same content
// where both members of a pair look, and logs the two statuses.
func cmdPairs(args []string) {
	parseFlags(args)
	rng := rand.New(rand.NewSource(seed))
	var tbl struct {
		Pairs []struct{ A, B, Rel string } `json:"pairs"`
	}
	readExport(os.Getenv("VERIF_EXPORT"), func(inner string) { json.Unmarshal([]byte(inner), &tbl) })
	if len(tbl.Pairs) == 0 {
		panic("no pair table")
	}
	g := lint.GlobalRegistry()
	cfg := g.GetConfiguration()
	byName := map[string]*LintRec{}
	for _, l := range lintsOf(g, "cert") {
		l := l
		byName[l.Name] = &l
	}
	missing := []string{}
	for _, p := range tbl.Pairs {
		for _, n := range []string{p.A, p.B} {
			if byName[n] == nil {
				missing = append(missing, n)
			}
		}
	}
	// pairs the table does not list yet, discovered by name among the registered lints: the families the property names are open
	// (every SAN rule may get an IAN mirror, every subject rule an issuer mirror, every BR DNS-label rule an RFC twin)
	type xpair struct{ A, B, Cls, Rel string }
	var extra []xpair
	listed := map[string]bool{}
	for _, p := range tbl.Pairs {
		listed[p.A+"|"+p.B], listed[p.B+"|"+p.A] = true, true
	}
	twin := func(n, from, to string) string {
		if !strings.Contains(n, from) {
			return ""
		}
		base := strings.Replace(n, from, to, 1)
		for _, pre := range []string{n[:1], "e", "w", "n"} {
			if m := pre + base[1:]; byName[m] != nil && m != n {
				return m
			}
		}
		return ""
	}
	var regNames []string
	for n := range byName {
		regNames = append(regNames, n)
	}
	sort.Strings(regNames)
	for _, n := range regNames {
		for _, f := range []struct{ from, to, cls string }{{"_ext_san_", "_ext_ian_", "sanian"}, {"_subject_", "_issuer_", "dn"}, {"_dnsname_", "_rfc_dnsname_", "dns"}} {
			if strings.Contains(n, "_rfc_dnsname_") && f.cls == "dns" {
				continue
			}
			if m := twin(n, f.from, f.to); m != "" && !listed[n+"|"+m] {
				rel := "same"
				if n[:1] != m[:1] {
					rel = "iff"
				}
				extra = append(extra, xpair{n, m, f.cls, rel})
				listed[n+"|"+m], listed[m+"|"+n] = true, true
			}
		}
	}
	c := corpus.Load()
	w := ev.Create(out("pairs.ndjson"))
	xp := []ev.M{}
	for _, p := range extra {
		xp = append(xp, ev.M{"a": p.A, "b": p.B, "cls": p.Cls, "rel": p.Rel})
	}
	w.Emit(ev.M{"ev": "ExtraPairs", "pairs": xp})
	type cls struct{ pair, what string }
	seenCls := map[string]bool{}
	both := 0
	emit := func(t *Target, what string) {
		a, b := make([]int, len(tbl.Pairs)), make([]int, len(tbl.Pairs))
		for i, p := range tbl.Pairs {
			a[i], b[i] = 1, 1
			if byName[p.A] != nil {
				a[i] = execOne(byName[p.A], t, cfg).Obs
			}
			if byName[p.B] != nil {
				b[i] = execOne(byName[p.B], t, cfg).Obs
			}
			if a[i] >= 3 && a[i] <= 6 && b[i] >= 3 && b[i] <= 6 {
				both++
				if a[i] != 3 || b[i] != 3 {
					seenCls[p.A+"|"+strings.SplitN(what, ":", 2)[0]] = true
				}
			}
		}
		xa, xb := make([]int, len(extra)), make([]int, len(extra))
		for i, p := range extra {
			xa[i], xb[i] = execOne(byName[p.A], t, cfg).Obs, execOne(byName[p.B], t, cfg).Obs
			if xa[i] >= 3 && xa[i] <= 6 && xb[i] >= 3 && xb[i] <= 6 {
				both++
			}
		}
		var sanV, ianV []byte
		for _, x := range t.Cert.Extensions {
			switch x.Id.String() {
			case "2.5.29.17":
				sanV = x.Value
			case "2.5.29.18":
				ianV = x.Value
			}
		}
		cn := t.Cert.Subject.CommonName
		cnCovered := cn == "" || net.ParseIP(cn) != nil
		for _, d := range t.Cert.DNSNames {
			if d == cn {
				cnCovered = true
			}
		}
		w.Emit(ev.M{"ev": "Pair", "obj": t.ID, "what": what, "a": a, "b": b, "xa": xa, "xb": xb, "sameSANIAN": sanV != nil && bytes.Equal(sanV, ianV),
			"sameDN": bytes.Equal(t.Cert.RawSubject, t.Cert.RawIssuer), "cnCovered": cnCovered})
	}
	late := time.Date(2024, 3, 1, 0, 0, 0, 0, time.UTC)
	variant := func(base *Target, fc *forge.Cert, what string) {
		if vt := parseVariant(base, fc); vt != nil {
			vt.ID = base.ID
			emit(vt, what)
		}
	}
	// vocabulary of general names (as in the order driver)
	vocabSeen := map[string]bool{}
	var vocab [][]byte
	nforged := 0
	for _, o := range c.Certs {
		t := fromObj(o)
		fc, err := forge.ParseCert(o.DER)
		if err == nil {
			// the vocabulary is harvested from the whole corpus even when one object is replayed
			for _, n := range append(fc.NamesOfExt(forge.OIDSAN), fc.NamesOfExt(forge.OIDIAN)...) {
				b := n.Bytes()
				if !vocabSeen[string(b)] && len(b) < 400 {
					vocabSeen[string(b)] = true
					vocab = append(vocab, b)
				}
			}
		}
		if only != "" && t.ID != only {
			continue
		}
		emit(t, "corpus")
		if err != nil {
			continue
		}
		// (a) the SAN content mirrored into an IAN extension (and the IAN content into the SAN)
		if san := fc.FindExt(forge.OIDSAN); san != nil {
			v := fc.Clone()
			v.SetExt(forge.OIDIAN, forge.MakeExt(forge.OIDIANNode(), false, forge.ExtValue(san).Content))
			variant(t, v, "san->ian")
			v2 := v.Clone()
			d := o.Cert.NotAfter.Sub(o.Cert.NotBefore)
			v2.SetNotBefore(late)
			v2.SetNotAfter(late.Add(d))
			variant(t, v2, "san->ian:redated")
			nforged += 2
		} else if ian := fc.FindExt(forge.OIDIAN); ian != nil {
			v := fc.Clone()
			v.SetExt(forge.OIDSAN, forge.MakeExt(forge.OIDSANNode(), false, forge.ExtValue(ian).Content))
			variant(t, v, "ian->san")
			nforged++
		}
		// (b) the subject mirrored into the issuer and vice versa
		v := fc.Clone()
		v.SetIssuer(v.Subject().Clone())
		variant(t, v, "subject->issuer")
		v = fc.Clone()
		v.SetSubject(v.Issuer().Clone())
		variant(t, v, "issuer->subject")
		nforged += 2
	}
	// (c) every vocabulary name planted into SAN and IAN of templates (CN empty, so the BR and RFC label rules see the same names)
	var tmpl *forge.Cert
	var tbase *Target
	for _, o := range c.Certs {
		if !o.Cert.IsCA && len(o.Cert.DNSNames) > 0 && len(o.Cert.PolicyIdentifiers) > 0 && o.Cert.NotBefore.After(time.Date(2021, 1, 1, 0, 0, 0, 0, time.UTC)) {
			if fc, err := forge.ParseCert(o.DER); err == nil && fc.FindExt(forge.OIDSAN) != nil {
				tmpl, tbase = fc, fromObj(o)
				break
			}
		}
	}
	for _, s := range []string{"http://example.com/", "mailto:a@b.example", "urn:x:y", "//host.example/path", "http://[2001:db8::1]/", "http://192.0.2.1:8080/x", "http://user:pw@host.example/",
		"http://host_underscore.example/", "ftp://", "http:///nohost", "HTTP://UPPER.EXAMPLE/", "http://ex ample.com/", "http://example.com/\xc3\xa9", "relative/path", "", "http://localhost/", "ldap://[::1]/",
		"ftp://anonymous@", "http://user:secret@", "http://user@?x=1", "http://@", "http://@/path", "http://:80/", "http://user@:80", "scheme:", "http:?q", "http:#f", "//", "///", "mailto:", "http://%41.example/", "http://a%zz.example/"} {
		b := forge.GN(forge.GNURI, []byte(s)).Bytes()
		if !vocabSeen[string(b)] {
			vocabSeen[string(b)] = true
			vocab = append(vocab, b)
		}
	}
	for _, s := range []string{"user@example.com", "user@", "@example.com", "a b@example.com", "user@ex ample.com", "", "Name <user@example.com>", "user@exam\xffple.com"} {
		b := forge.GN(forge.GNEmail, []byte(s)).Bytes()
		if !vocabSeen[string(b)] {
			vocabSeen[string(b)] = true
			vocab = append(vocab, b)
		}
	}
	for _, s := range []string{" leading.example.com", "trailing.example.com ", "", "a..b.example.com", "caf\xc3\xa9.example.com", "x_y.example.com", "_a.b.example.com", "-a.example.com", "a-.example.com",
		strings.Repeat("l", 64) + ".example.com", "ab--cd.example.com",
		// labels whose length differs in bytes and in characters, on both sides of 63
		strings.Repeat("\xc3\xa9", 40) + ".example.com", strings.Repeat("\xe4\xb8\xad", 22) + ".example.com", strings.Repeat("\xc3\xa9", 31) + "a.example.com", strings.Repeat("\xc3\xa9", 32) + ".example.com",
		strings.Repeat("l", 63) + ".example.com", strings.Repeat("l", 62) + "\xc3\xa9.example.com",
		// whole names whose length differs in bytes and in characters, on both sides of 253
		strings.Repeat("\xc3\xa9", 125) + ".com", strings.Repeat("\xc3\xa9", 124) + "a.com", strings.Repeat("a.", 125) + "com", strings.Repeat("a.", 125) + "comm",
		strings.Repeat("\xe4\xb8\xad.", 63) + "com", strings.Repeat("ab.", 84) + "c"} {
		b := forge.GN(forge.GNDNS, []byte(s)).Bytes()
		if !vocabSeen[string(b)] {
			vocabSeen[string(b)] = true
			vocab = append(vocab, b)
		}
	}
	if tmpl != nil && (only == "" || only == "planted") {
		good := forge.GN(forge.GNDNS, []byte("good.example.com"))
		for i, raw := range vocab {
			for _, alone := range []bool{false, true} {
				v := tmpl.Clone()
				names := []*forge.Node{forge.Raw(raw)}
				if !alone {
					names = []*forge.Node{good.Clone(), forge.Raw(raw)}
				}
				val := forge.GeneralNames(names...).Bytes()
				v.SetExt(forge.OIDSAN, forge.MakeExt(forge.OIDSANNode(), false, val))
				v.SetExt(forge.OIDIAN, forge.MakeExt(forge.OIDIANNode(), false, val))
				// CN removed: the BR label rules also judge the common name
				subj := v.Subject()
				var keep []*forge.Node
				for _, rdn := range subj.Children {
					isCN := false
					for _, atv := range rdn.Children {
						if len(atv.Children) == 2 && forge.OIDString(atv.Children[0].Content) == "2.5.4.3" {
							isCN = true
						}
					}
					if !isCN {
						keep = append(keep, rdn)
					}
				}
				if keep == nil {
					keep = []*forge.Node{}
				}
				subj.Children = keep
				if vt := parseVariant(tbase, v); vt != nil {
					vt.ID = "planted"
					emit(vt, fmt.Sprintf("planted:%d:%v", i, alone))
					nforged++
				}
			}
		}
		// ordered pairs of URIs (and of a URI with every other kind of name): a rule that stops at the first entry of some
		// shape must do so in both copies
		var uriIdx, otherIdx []int
		for i, raw := range vocab {
			if len(raw) > 0 && raw[0] == forge.GNURI {
				uriIdx = append(uriIdx, i)
			} else if i%9 == 0 {
				otherIdx = append(otherIdx, i)
			}
		}
		plantPair := func(a, b int, tag string) {
			v := tmpl.Clone()
			val := forge.GeneralNames(forge.Raw(vocab[a]), forge.Raw(vocab[b])).Bytes()
			v.SetExt(forge.OIDSAN, forge.MakeExt(forge.OIDSANNode(), false, val))
			v.SetExt(forge.OIDIAN, forge.MakeExt(forge.OIDIANNode(), false, val))
			if vt := parseVariant(tbase, v); vt != nil {
				vt.ID = "planted"
				emit(vt, tag)
				nforged++
			}
		}
		for _, a := range uriIdx {
			for _, b := range uriIdx {
				if a != b {
					plantPair(a, b, fmt.Sprintf("planted-uri-pair:%d:%d", a, b))
				}
			}
			for _, b := range otherIdx {
				plantPair(a, b, fmt.Sprintf("planted-mixed-pair:%d:%d", a, b))
				plantPair(b, a, fmt.Sprintf("planted-mixed-pair:%d:%d", b, a))
			}
		}
		// empty lists
		v := tmpl.Clone()
		v.SetExt(forge.OIDSAN, forge.MakeExt(forge.OIDSANNode(), false, forge.GeneralNames().Bytes()))
		v.SetExt(forge.OIDIAN, forge.MakeExt(forge.OIDIANNode(), false, forge.GeneralNames().Bytes()))
		if vt := parseVariant(tbase, v); vt != nil {
			vt.ID = "planted"
			emit(vt, "planted:empty-lists")
		}
		// (d) DN content mirrored: leading / trailing blanks, non-printable country, multi-valued RDNs
		for _, val := range []string{" lead", "trail ", " both ", "plain", "  ", "\ttab"} {
			for _, oid := range []string{"2.5.4.10", "2.5.4.3", "2.5.4.7", "2.5.4.11"} {
				v := tmpl.Clone()
				if !forge.SetAttr(v.Subject(), oid, 0x0c, []byte(val)) {
					arcs := []int{2, 5, 4, 0}
					fmt.Sscanf(oid, "2.5.4.%d", &arcs[3])
					forge.AddAttr(v.Subject(), forge.OID(arcs...), 0x0c, []byte(val))
				}
				v.SetIssuer(v.Subject().Clone())
				if vt := parseVariant(tbase, v); vt != nil {
					vt.ID = "planted"
					emit(vt, "dn:"+oid)
					nforged++
				}
			}
		}
		for _, tag := range []byte{0x13, 0x0c, 0x16, 0x14} {
			v := tmpl.Clone()
			if !forge.SetAttr(v.Subject(), "2.5.4.6", tag, []byte("US")) {
				forge.AddAttr(v.Subject(), forge.OID(2, 5, 4, 6), tag, []byte("US"))
			}
			v.SetIssuer(v.Subject().Clone())
			if vt := parseVariant(tbase, v); vt != nil {
				vt.ID = "planted"
				emit(vt, "dn:country-tag")
			}
		}
		// DN shapes the parser accepts: an empty RDN (SET OF nothing) before / after / next to a multi-valued one, repeated attributes
		for shape := 0; shape < 5; shape++ {
			v := tmpl.Clone()
			s := v.Subject()
			if len(s.Children) < 2 {
				break
			}
			empty := forge.Cons(0x11)
			switch shape {
			case 0:
				s.Children = append([]*forge.Node{empty}, s.Children...)
			case 1:
				s.Children = append(s.Children, empty)
			case 2: // C / <empty> / (O + CN)
				s.Children[0].Children = append(s.Children[0].Children, s.Children[1].Children...)
				s.Children = append([]*forge.Node{s.Children[0], empty}, s.Children[2:]...)
			case 3:
				s.Children[0].Children = append(s.Children[0].Children, s.Children[1].Children...)
				s.Children = append([]*forge.Node{empty, empty, s.Children[0]}, s.Children[2:]...)
			case 4:
				s.Children = append(s.Children, s.Children[0].Clone(), s.Children[1].Clone())
			}
			v.SetIssuer(s.Clone())
			if vt := parseVariant(tbase, v); vt != nil {
				vt.ID = "planted"
				emit(vt, fmt.Sprintf("dn:rdn-shape%d", shape))
				nforged++
			}
		}
		{ // a multi-valued RDN on both sides
			v := tmpl.Clone()
			s := v.Subject()
			if len(s.Children) >= 2 {
				s.Children[0].Children = append(s.Children[0].Children, s.Children[1].Children...)
				s.Children = append(s.Children[:1], s.Children[2:]...)
			}
			v.SetIssuer(s.Clone())
			if vt := parseVariant(tbase, v); vt != nil {
				vt.ID = "planted"
				emit(vt, "dn:multi-rdn")
			}
		}
		// (e) validity around 397 / 398 days, to the second
		for _, days := range []int{396, 397, 398, 399, 825} {
			for _, ds := range []int{-2, -1, 0, 1} {
				v := tmpl.Clone()
				v.SetNotBefore(late)
				v.SetNotAfter(late.Add(time.Duration(days)*24*time.Hour + time.Duration(ds)*time.Second))
				if vt := parseVariant(tbase, v); vt != nil {
					vt.ID = "planted"
					emit(vt, "validity")
					nforged++
				}
			}
		}
		// (f) given name / surname lengths around both limits
		for _, n := range []int{1, 16, 64, 65, 32768, 32769} {
			for _, oid := range [][]int{{2, 5, 4, 42}, {2, 5, 4, 4}} {
				v := tmpl.Clone()
				forge.AddAttr(v.Subject(), forge.OID(oid...), 0x0c, bytes.Repeat([]byte("n"), n))
				if vt := parseVariant(tbase, v); vt != nil {
					vt.ID = "planted"
					emit(vt, "name-length")
					nforged++
				}
			}
		}
	}
	// (g) authorityInfoAccess locations of every host shape, on templates on which both AIA internal-name rules run
	//     (a subscriber certificate in the TLS and in the S/MIME scope): access method x URL class
	if only == "" || only == "planted-aia" {
		var aiaT []*corpus.Obj
		la, lb := byName["w_sub_cert_aia_contains_internal_names"], byName["w_smime_aia_contains_internal_names"]
		ran := func(x int) bool { return x >= 3 && x <= 6 }
		for _, o := range c.Certs {
			if la == nil || lb == nil || len(aiaT) >= 2 {
				break
			}
			if ran(execOne(la, fromObj(o), cfg).Obs) && ran(execOne(lb, fromObj(o), cfg).Obs) {
				aiaT = append(aiaT, o)
			}
		}
		if len(aiaT) == 0 && la != nil && lb != nil {
			// none in the corpus: put an S/MIME policy identifier and an AIA extension on TLS subscriber certificates
			for _, o := range c.Certs {
				fc, err := forge.ParseCert(o.DER)
				if err != nil || o.Cert.IsCA || fc.FindExt("2.5.29.32") == nil || len(aiaT) >= 2 {
					continue
				}
				pol := forge.ExtValue(fc.FindExt("2.5.29.32"))
				inner, err := forge.Parse(pol.Content)
				if err != nil {
					continue
				}
				inner.Children = append(inner.Children, forge.Cons(0x10, forge.OID(2, 23, 140, 1, 5, 1, 1)))
				fc.SetExt("2.5.29.32", forge.MakeExt(forge.OID(2, 5, 29, 32), false, inner.Bytes()))
				fc.SetExt("1.3.6.1.5.5.7.1.1", forge.MakeExt(forge.OID(1, 3, 6, 1, 5, 5, 7, 1, 1), false,
					forge.Cons(0x10, forge.Cons(0x10, forge.OID(1, 3, 6, 1, 5, 5, 7, 48, 1), forge.GN(forge.GNURI, []byte("http://ocsp.example.com")))).Bytes()))
				d := o.Cert.NotAfter.Sub(o.Cert.NotBefore)
				fc.SetNotBefore(late)
				fc.SetNotAfter(late.Add(d))
				if cert, ok, _ := corpus.ParseCert(fc.Bytes()); ok {
					t := &Target{Kind: "cert", ID: o.ID, DER: fc.Bytes(), Cert: cert}
					if ran(execOne(la, t, cfg).Obs) && ran(execOne(lb, t, cfg).Obs) {
						aiaT = append(aiaT, &corpus.Obj{ID: o.ID, Kind: "cert", DER: fc.Bytes(), Cert: cert})
					}
				}
			}
		}
		urls := []string{"http://ocsp.example.com/", "http://ocsp.example.com:8080/x", "http://192.0.2.42/ocsp", "http://192.0.2.42:8080/ocsp", "http://[2001:db8::42]/ocsp",
			"http://[2001:db8::42]:8080/ocsp", "http://host.internal/ca.crt", "http://host.internal:80/ca.crt", "http://localhost/", "http://10.1.2.3/", "ldap://dir.example.com/cn=ca",
			"http://user:pw@ocsp.example.com/", "http://OCSP.EXAMPLE.COM/", "http://ocsp.example.notatld/", "http://ocsp.example.com./", "http:///nohost", "http://ex ample.com/", "//ocsp.example.com/x",
			"http://[::1]/", "http://[fe80::1%25eth0]/", "http://ocsp.example.com:/", "http://1.2.3.4.5/", "https://xn--bcher-kva.example/"}
		for _, o := range aiaT {
			base, err := forge.ParseCert(o.DER)
			if err != nil {
				continue
			}
			for ui, u := range urls {
				for mi, method := range [][]int{{1, 3, 6, 1, 5, 5, 7, 48, 1}, {1, 3, 6, 1, 5, 5, 7, 48, 2}} {
					v := base.Clone()
					good := forge.Cons(0x10, forge.OID(method...), forge.GN(forge.GNURI, []byte("http://good.example.com/")))
					probe := forge.Cons(0x10, forge.OID(method...), forge.GN(forge.GNURI, []byte(u)))
					v.SetExt("1.3.6.1.5.5.7.1.1", forge.MakeExt(forge.OID(1, 3, 6, 1, 5, 5, 7, 1, 1), false, forge.Cons(0x10, good, probe).Bytes()))
					if cert, ok, _ := corpus.ParseCert(v.Bytes()); ok {
						emit(&Target{Kind: "cert", ID: "planted-aia", DER: v.Bytes(), Cert: cert}, fmt.Sprintf("aia:%d:%d", ui, mi))
						nforged++
					}
				}
			}
		}
	}
	// (h) the same two rules on locations under top-level domains whose delegation changes between the certificate's date and
	// today (removed since, or delegated since): whatever time base the rule uses, both copies must use the same one
	if only == "" || only == "planted-aia-tld" {
		la, lb := byName["w_sub_cert_aia_contains_internal_names"], byName["w_smime_aia_contains_internal_names"]
		var tpl *corpus.Obj
		bothRun := func(o *corpus.Obj) bool { // both rules judge the object when it is dated inside both windows
			fc, err := forge.ParseCert(o.DER)
			if err != nil {
				return false
			}
			fc.SetNotBefore(time.Date(2024, 3, 1, 0, 0, 0, 0, time.UTC))
			fc.SetNotAfter(time.Date(2024, 5, 30, 0, 0, 0, 0, time.UTC))
			cert, ok, _ := corpus.ParseCert(fc.Bytes())
			if !ok {
				return false
			}
			t := &Target{Kind: "cert", ID: o.ID, DER: fc.Bytes(), Cert: cert}
			ra, rb := execOne(la, t, cfg).Obs, execOne(lb, t, cfg).Obs
			return ra >= 3 && ra <= 6 && rb >= 3 && rb <= 6
		}
		for _, o := range c.Certs {
			if la != nil && lb != nil && len(o.Cert.OCSPServer)+len(o.Cert.IssuingCertificateURL) > 0 && bothRun(o) {
				tpl = o
				break
			}
		}
		if tpl == nil {
			for _, o := range c.Certs {
				fc, err := forge.ParseCert(o.DER)
				if err != nil || o.Cert.IsCA || fc.FindExt("2.5.29.32") == nil || la == nil || lb == nil {
					continue
				}
				pol := forge.Cons(0x10, forge.Cons(0x10, forge.OID(2, 23, 140, 1, 5, 1, 1)), forge.Cons(0x10, forge.OID(2, 23, 140, 1, 2, 1)))
				fc.SetExt("2.5.29.32", forge.MakeExt(forge.OID(2, 5, 29, 32), false, pol.Bytes()))
				fc.SetExt("1.3.6.1.5.5.7.1.1", forge.MakeExt(forge.OID(1, 3, 6, 1, 5, 5, 7, 1, 1), false,
					forge.Cons(0x10, forge.Cons(0x10, forge.OID(1, 3, 6, 1, 5, 5, 7, 48, 1), forge.GN(forge.GNURI, []byte("http://ocsp.example.com/")))).Bytes()))
				fc.SetNotBefore(time.Date(2024, 3, 1, 0, 0, 0, 0, time.UTC))
				fc.SetNotAfter(time.Date(2024, 5, 30, 0, 0, 0, 0, time.UTC))
				if cert, ok, _ := corpus.ParseCert(fc.Bytes()); ok {
					if cand := (&corpus.Obj{ID: o.ID, Kind: "cert", DER: fc.Bytes(), Cert: cert}); bothRun(cand) {
						tpl = cand
						break
					}
				}
			}
		}
		if tpl != nil {
			base, _ := forge.ParseCert(tpl.DER)
			smimeFrom := time.Date(2023, 9, 15, 0, 0, 0, 0, time.UTC)
			today := time.Now().UTC()
			nt := 0
			for _, x := range readTLDTable() {
				dl, e1 := time.Parse("2006-01-02", x.Deleg)
				var nb time.Time
				switch {
				case x.Removal != "":
					rm, e2 := time.Parse("2006-01-02", x.Removal)
					if e1 != nil || e2 != nil || !rm.After(smimeFrom.AddDate(0, 0, 2)) || !rm.Before(today) {
						continue
					}
					nb = rm.AddDate(0, 0, -1) // delegated on the day of issuance, removed by now
					if nb.Before(smimeFrom) {
						nb = smimeFrom
					}
				case e1 == nil && dl.After(smimeFrom.AddDate(0, 0, 2)) && dl.Before(today):
					nb = dl.AddDate(0, 0, -1) // not yet delegated on the day of issuance, delegated by now
				default:
					continue
				}
				if nt >= 12 {
					break
				}
				nt++
				for mi, method := range [][]int{{1, 3, 6, 1, 5, 5, 7, 48, 1}, {1, 3, 6, 1, 5, 5, 7, 48, 2}} {
					v := base.Clone()
					probe := forge.Cons(0x10, forge.OID(method...), forge.GN(forge.GNURI, []byte("http://ocsp.example."+x.Key+"/")))
					v.SetExt("1.3.6.1.5.5.7.1.1", forge.MakeExt(forge.OID(1, 3, 6, 1, 5, 5, 7, 1, 1), false, forge.Cons(0x10, probe).Bytes()))
					v.SetNotBefore(nb)
					v.SetNotAfter(nb.AddDate(0, 0, 90))
					if cert, ok, _ := corpus.ParseCert(v.Bytes()); ok {
						emit(&Target{Kind: "cert", ID: "planted-aia-tld", DER: v.Bytes(), Cert: cert}, fmt.Sprintf("aia-tld:%s:%d", x.Key, mi))
						nforged++
					}
				}
			}
		}
	}
	_ = rng
	n := w.N
	w.Close()
	ev.WriteJSON(out("summary.json"), ev.M{"events": n, "forged": nforged, "both_ran": both, "classes": len(seenCls), "pairs": len(tbl.Pairs), "missing_lints": missing,
		"vocabulary": len(vocab), "template": tmpl != nil, "sample": ev.M{"pair": tbl.Pairs[7], "what": "san->ian"}})
}

package main

// plant: every name of the corpus vocabulary (dNSNames and common names of all test certificates, plus hand-made odd
// ones) planted as common name and / or SAN entry on subscriber and CA templates, judged by the whole registry.
// It reaches rule branches that look at the common name, which the corpus of one-file-per-lint tests mostly does not.
// Output: statuses.json ("lint|status" pairs observed) and panics.json (recovered or escaped panics: C02).
import (
	"fmt"
	"sort"
	"strings"
	"time"

	"github.com/zmap/zlint/v3/lint"
	"verif/harness/internal/corpus"
	"verif/harness/internal/ev"
	"verif/harness/internal/forge"
)

func cmdPlant(args []string) {
	parseFlags(args)
	c := corpus.Load()
	g := lint.GlobalRegistry()
	seen := map[string]bool{}
	var vocab []string
	addName := func(s string) {
		if !seen[s] && len(s) < 300 {
			seen[s] = true
			vocab = append(vocab, s)
		}
	}
	for _, o := range c.Certs {
		for _, d := range o.Cert.DNSNames {
			addName(d)
		}
		addName(o.Cert.Subject.CommonName)
	}
	for _, s := range []string{"my_host.example.com", "_host.example.com", "host_.example.com", "a.b_c.example.com", "ex_ample.com", "-a.example.com", "a-.example.com", "ab--cd.example.com",
		"xn--zz.example.com", "xn--bcher-kva.example.com", "*.example.com", "*.*.example.com", "www.*.example.com", "*.com", "*", "example.com.", ".example.com", "a..example.com",
		" example.com", "example.com ", "EXAMPLE.COM", "Example.Com", "192.0.2.1", "10.0.0.1", "2001:db8::1", "localhost", "host.internal", "host.local", "host.onion",
		strings.Repeat("l", 64) + ".example.com", strings.Repeat("a.", 130) + "example.com", "caf\xc3\xa9.example.com", "exa\x00mple.com", "exa mple.com", "user@example.com", "http://example.com/", "",
		"k12.ma.us", "pvt.k12.ma.us", "co.uk", "com.au", "blogspot.com", "s3.amazonaws.com", "gov.uk", "kawasaki.jp", "city.kawasaki.jp", "ck", "www.ck"} {
		addName(s)
	}
	sort.Strings(vocab)
	late := time.Date(2024, 3, 1, 0, 0, 0, 0, time.UTC)
	// templates: TLS subscriber, S/MIME subscriber, CA - each with a SAN extension and a common name to replace
	var tmpls []*forge.Cert
	var tids []string
	pick := func(ok func(o *corpus.Obj) bool) {
		for _, o := range c.Certs {
			if ok(o) {
				if fc, err := forge.ParseCert(o.DER); err == nil && fc.FindExt(forge.OIDSAN) != nil {
					tmpls, tids = append(tmpls, fc), append(tids, o.ID)
					return
				}
			}
		}
	}
	pick(func(o *corpus.Obj) bool {
		return !o.Cert.IsCA && len(o.Cert.DNSNames) > 0 && len(o.Cert.PolicyIdentifiers) > 0 && len(o.Cert.EmailAddresses) == 0 && o.Cert.Subject.CommonName != ""
	})
	pick(func(o *corpus.Obj) bool {
		return !o.Cert.IsCA && len(o.Cert.EmailAddresses) > 0 && strings.HasPrefix(o.ID, "smime/")
	})
	pick(func(o *corpus.Obj) bool { return o.Cert.IsCA && len(o.Cert.DNSNames) > 0 })
	statuses := map[string]bool{}
	var panics []ev.M
	n := 0
	stride := 3
	if tier == "thorough" {
		stride = 1
	}
	for ti, tp := range tmpls {
		for vi, name := range vocab {
			if (vi+ti)%stride != int(seed)%stride && len(name) > 0 && !strings.ContainsAny(name, "_*- ") {
				continue // quick: every odd-looking name, a rotating third of the plain ones
			}
			for form := 0; form < 4; form++ {
				v := tp.Clone()
				good := forge.GN(forge.GNDNS, []byte("good.example.com"))
				probe := forge.GN(forge.GNDNS, []byte(name))
				cn := name
				var names []*forge.Node
				switch form {
				case 0:
					names = []*forge.Node{good}
				case 1:
					names = []*forge.Node{probe}
				case 2:
					cn, names = "good.example.com", []*forge.Node{good, probe}
				default:
					// the probe in an issuerAltName extension (the IAN copies of the name rules), the SAN left clean
					cn, names = "good.example.com", []*forge.Node{good}
					v.SetExt(forge.OIDIAN, forge.MakeExt(forge.OIDIANNode(), false, forge.GeneralNames(probe).Bytes()))
				}
				keepOthers := []*forge.Node{}
				for _, x := range v.NamesOfExt(forge.OIDSAN) {
					if x.Tag() != forge.GNDNS {
						keepOthers = append(keepOthers, x)
					}
				}
				forge.SetGeneralNames(v.FindExt(forge.OIDSAN), forge.GeneralNames(append(names, keepOthers...)...))
				if !forge.SetAttr(v.Subject(), "2.5.4.3", 0x0c, []byte(cn)) {
					forge.AddAttr(v.Subject(), forge.OID(2, 5, 4, 3), 0x0c, []byte(cn))
				}
				d := 90 * 24 * time.Hour
				v.SetNotBefore(late)
				v.SetNotAfter(late.Add(d))
				cert, ok, _ := corpus.ParseCert(v.Bytes())
				if !ok {
					continue
				}
				t := &Target{Kind: "cert", ID: fmt.Sprintf("planted:%s:form%d:%q", tids[ti], form, name), DER: v.Bytes(), Cert: cert}
				rs, esc, hung := runSet(t, g)
				n++
				if rs == nil || esc != "" || hung {
					panics = append(panics, ev.M{"id": t.ID, "escaped": esc, "hung": hung, "der": b64(t.DER)})
					continue
				}
				for ln, r := range rs.Results {
					if r == nil {
						continue
					}
					statuses[fmt.Sprintf("%s|%d", ln, int(r.Status))] = true
					if r.Status == lint.Fatal && detailsClass(ln, r.Details) == "panicmsg" {
						panics = append(panics, ev.M{"id": t.ID, "lint": ln, "recovered": r.Details, "der": b64(t.DER)})
					}
				}
			}
		}
	}
	// ---- mirrored certificates: the subject copied into the issuer (and the other way round), the SAN copied into an IAN extension.
	// Rules that exist for two mirror-image fields are then fed the very same bytes twice in one run of the registry.
	mirrored := 0
	for oi, o := range c.Certs {
		if tier != "thorough" && oi%2 != int(seed)%2 {
			continue
		}
		fc, err := forge.ParseCert(o.DER)
		if err != nil {
			continue
		}
		for form := 0; form < 3; form++ {
			v := fc.Clone()
			switch form {
			case 0:
				v.SetIssuer(v.Subject().Clone())
			case 1:
				v.SetSubject(v.Issuer().Clone())
			default:
				san := v.FindExt(forge.OIDSAN)
				if san == nil {
					continue
				}
				v.SetExt(forge.OIDIAN, forge.MakeExt(forge.OIDIANNode(), false, forge.ExtValue(san).Body()))
			}
			cert, ok, _ := corpus.ParseCert(v.Bytes())
			if !ok {
				continue
			}
			t := &Target{Kind: "cert", ID: fmt.Sprintf("mirrored:%s:form%d", o.ID, form), DER: v.Bytes(), Cert: cert}
			rs, esc, hung := runSet(t, g)
			n++
			mirrored++
			if rs == nil || esc != "" || hung {
				panics = append(panics, ev.M{"id": t.ID, "escaped": esc, "hung": hung, "der": b64(t.DER)})
				continue
			}
			for ln, r := range rs.Results {
				if r == nil {
					continue
				}
				statuses[fmt.Sprintf("%s|%d", ln, int(r.Status))] = true
				if r.Status == lint.Fatal && detailsClass(ln, r.Details) == "panicmsg" {
					panics = append(panics, ev.M{"id": t.ID, "lint": ln, "recovered": r.Details, "der": b64(t.DER)})
				}
			}
		}
	}
	var sl []string
	for s := range statuses {
		sl = append(sl, s)
	}
	sort.Strings(sl)
	ev.WriteJSON(out("statuses.json"), sl)
	if panics == nil {
		panics = []ev.M{}
	}
	ev.WriteJSON(out("panics.json"), panics)
	ev.WriteJSON(out("summary.json"), ev.M{"planted": n, "mirrored": mirrored, "vocabulary": len(vocab), "templates": tids})
}

package main

import (
	"bytes"
	"encoding/json"
	"fmt"
	"math/rand"
	"reflect"
	"regexp"
	"sort"
	"strings"
	"time"
	"unicode"

	"github.com/zmap/zlint/v3/lint"
	"verif/harness/internal/corpus"
	"verif/harness/internal/ev"
)

// regView is the projection of a registry through its public API.
type regView struct {
	Names   []string            // Names()
	Kind    map[string]string   // via the three per-kind ByName lookups
	Src     map[string]string   //
	PerKind map[string][]string // Lints() order per kind
	BySrc   map[string][]string // "kind|source" -> names in BySource order; "dep|source" -> the deprecated Registry.BySource
	Sources []string            // Sources(), sorted
}

func viewOf(r lint.Registry) regView {
	v := regView{Names: append([]string{}, r.Names()...), Kind: map[string]string{}, Src: map[string]string{}, PerKind: map[string][]string{}, BySrc: map[string][]string{}}
	for _, k := range []string{"cert", "crl", "ocsp"} {
		v.PerKind[k] = []string{}
		for _, l := range lintsOf(r, k) {
			v.PerKind[k] = append(v.PerKind[k], l.Name)
			v.Kind[l.Name] = k
			v.Src[l.Name] = l.Source
		}
	}
	for _, s := range r.Sources() {
		v.Sources = append(v.Sources, string(s))
		for _, k := range []string{"cert", "crl", "ocsp"} {
			v.BySrc[k+"|"+string(s)] = bySourceNames(r, k, string(s))
		}
		dep := []string{}
		for _, l := range r.BySource(s) {
			if l != nil {
				dep = append(dep, l.Name)
			}
		}
		v.BySrc["dep|"+string(s)] = dep
	}
	sort.Strings(v.Sources)
	return v
}

func bySourceNames(r lint.Registry, k, s string) []string {
	ns := []string{}
	switch k {
	case "cert":
		for _, l := range r.CertificateLints().BySource(lint.LintSource(s)) {
			ns = append(ns, l.Name)
		}
	case "crl":
		for _, l := range r.RevocationListLints().BySource(lint.LintSource(s)) {
			ns = append(ns, l.Name)
		}
	default:
		for _, l := range r.OcspResponseLints().BySource(lint.LintSource(s)) {
			ns = append(ns, l.Name)
		}
	}
	return ns
}

func rankMap(names []string) map[string]int {
	s := append([]string{}, names...)
	sort.Strings(s)
	m := map[string]int{}
	for i, n := range s {
		if _, dup := m[n]; !dup {
			m[n] = i + 1
		}
	}
	return m
}

func ranks(m map[string]int, names []string) []int {
	out := make([]int, len(names))
	for i, n := range names {
		out[i] = m[n] // 0 = not a name of the reference registry
	}
	return out
}

var padPool = []string{"", " ", "  ", "\t", "\n", " \t ", "\r\n"}

// tablesEvent: every lookup of a registry, as the public API shows it (names as ranks in the universe).
func lintNamesOfKind(g lint.Registry, k string) []string {
	switch k {
	case "cert":
		return g.CertificateLints().Names()
	case "crl":
		return g.RevocationListLints().Names()
	}
	return g.OcspResponseLints().Names()
}

func tablesEvent(g lint.Registry, universe []string, rk map[string]int, when string) ev.M {
	v := viewOf(g)
	tables := ev.M{"ev": "Tables", "when": when, "names": ranks(rk, v.Names)}
	srcList := []string{}
	for _, s := range g.Sources() {
		srcList = append(srcList, string(s))
	}
	sort.Strings(srcList)
	tables["sources"] = srcList
	perKindNames, perKindLints, perKindSrc := ev.M{}, ev.M{}, ev.M{}
	bySrc := ev.M{}
	byNameKinds := make([][]string, len(universe))
	byNameMeta := make([]bool, len(universe))
	for i := range byNameKinds {
		byNameKinds[i] = []string{}
		byNameMeta[i] = true
	}
	for _, k := range []string{"cert", "crl", "ocsp"} {
		var lk interface {
			Names() []string
			Sources() lint.SourceList
		}
		switch k {
		case "cert":
			lk = g.CertificateLints()
		case "crl":
			lk = g.RevocationListLints()
		default:
			lk = g.OcspResponseLints()
		}
		perKindNames[k] = ranks(rk, lk.Names())
		perKindLints[k] = ranks(rk, v.PerKind[k])
		ss := []string{}
		for _, s := range lk.Sources() {
			ss = append(ss, string(s))
		}
		sort.Strings(ss)
		perKindSrc[k] = ss
		m := ev.M{}
		for _, s := range ss {
			var ns []string
			switch k {
			case "cert":
				for _, l := range g.CertificateLints().BySource(lint.LintSource(s)) {
					ns = append(ns, l.Name)
				}
			case "crl":
				for _, l := range g.RevocationListLints().BySource(lint.LintSource(s)) {
					ns = append(ns, l.Name)
				}
			default:
				for _, l := range g.OcspResponseLints().BySource(lint.LintSource(s)) {
					ns = append(ns, l.Name)
				}
			}
			m[s] = ranks(rk, ns)
		}
		bySrc[k] = m
		for i, n := range universe {
			if md, ok := metaOf(g, k, n); ok {
				byNameKinds[i] = append(byNameKinds[i], k)
				if md.Name != n {
					byNameMeta[i] = false
				}
			}
		}
	}
	tables["kindNames"], tables["kindLints"], tables["kindSources"], tables["bySource"] = perKindNames, perKindLints, perKindSrc, bySrc
	tables["byNameKinds"], tables["byNameMeta"] = byNameKinds, byNameMeta
	// the JSON listing: one line per registered lint (the name of every line; rank 0 = a line that does not decode to a known name)
	var jb bytes.Buffer
	func() {
		defer func() { recover() }()
		g.WriteJSON(&jb)
	}()
	var jl []string
	for _, ln := range strings.Split(strings.TrimSpace(jb.String()), "\n") {
		var rec struct {
			Name string `json:"name"`
		}
		if json.Unmarshal([]byte(ln), &rec) != nil {
			rec.Name = ""
		}
		jl = append(jl, rec.Name)
	}
	tables["jsonListing"] = ranks(rk, jl)
	// the sources every lookup of a kind knows, used as domain for the bySource comparison
	dep := ev.M{}
	for _, s := range srcList {
		dep[s] = ranks(rk, v.BySrc["dep|"+s])
	}
	tables["depBySource"] = dep
	depByName := true
	for _, n := range v.PerKind["cert"] {
		if l := g.ByName(n); l == nil || l.Name != n {
			depByName = false
		}
	}
	for _, k := range []string{"crl", "ocsp"} {
		for _, n := range v.PerKind[k] {
			if l := g.ByName(n); l != nil {
				depByName = false // the deprecated lookup knows certificate lints only
			}
		}
	}
	tables["depByName"] = depByName
	return tables
}

// cmdRegistry: C12 (tables of the default build) and C08 (Filter over the full real registry).
func cmdRegistry(args []string) {
	parseFlags(args)
	rng := rand.New(rand.NewSource(seed))
	g := lint.GlobalRegistry()
	v := viewOf(g)
	// ranks over the union of everything any lookup shows (so that nothing can hide)
	all := append([]string{}, v.Names...)
	for _, k := range []string{"cert", "crl", "ocsp"} {
		all = append(all, v.PerKind[k]...)
	}
	uniq := map[string]bool{}
	var universe []string
	for _, n := range all {
		if !uniq[n] {
			uniq[n] = true
			universe = append(universe, n)
		}
	}
	// lints the driver registers late (after every lookup has been used and after the Filter calls below)
	late := []mockSpec{{Name: "e_verif_zlate_cert", Kind: "cert", Source: lint.RFC5280}, {Name: "w_verif_alate_cert", Kind: "cert", Source: lint.CABFBaselineRequirements},
		{Name: "e_verif_late_crl", Kind: "crl", Source: lint.RFC5280}, {Name: "n_verif_late_etsi", Kind: "cert", Source: lint.EtsiEsi}, {Name: "e_verif_late_ocsp", Kind: "ocsp", Source: lint.RFC6960}}
	lateNames := []string{}
	for _, m := range late {
		universe = append(universe, m.Name)
		lateNames = append(lateNames, m.Name)
	}
	sort.Strings(universe)
	rk := rankMap(universe)
	kinds, srcs := make([]string, len(universe)), make([]string, len(universe))
	for i, n := range universe {
		kinds[i], srcs[i] = v.Kind[n], v.Src[n]
	}
	for _, m := range late {
		kinds[rk[m.Name]-1], srcs[rk[m.Name]-1] = m.Kind, string(m.Source)
	}
	regEv := ev.M{"ev": "Reg", "names": universe, "kind": kinds, "src": srcs, "late": lateNames}

	// ---- C12: registration replay + runtime tables
	w := ev.Create(out("registry.ndjson"))
	w.Emit(regEv)
	for _, k := range []string{"cert", "crl", "ocsp"} {
		for _, l := range lintsOf(g, k) {
			var impl interface{}
			switch k {
			case "cert":
				impl = l.C.Lint()
			case "crl":
				impl = l.R.Lint()
			default:
				impl = l.O.Lint()
			}
			name := l.Name
			lower := name == strings.ToLower(name)
			prefix := ""
			if len(name) > 2 && name[1] == '_' {
				prefix = name[:1]
			}
			blank := strings.IndexFunc(name, unicode.IsSpace) >= 0
			w.Emit(ev.M{"ev": "Register", "rank": rk[name], "kind": k, "src": l.Source, "name": name,
				"prefix": prefix, "lower": lower, "blank": blank, "hasDesc": l.Meta.Description != "",
				"implNil": impl == nil || (reflect.ValueOf(impl).Kind() == reflect.Ptr && reflect.ValueOf(impl).IsNil()),
				"eff":     ev.Inst(l.Meta.EffectiveDate), "ineff": ev.Inst(l.Meta.IneffectiveDate),
				"implType": fmt.Sprintf("%T", impl)})
		}
	}
	w.Emit(tablesEvent(g, universe, rk, "default build"))
	// duplicate registration through the public API must be refused (it panics)
	dup := func(f func()) (panicked bool) {
		defer func() {
			if recover() != nil {
				panicked = true
			}
		}()
		f()
		return
	}
	first := lintsOf(g, "cert")[0]
	w.Emit(ev.M{"ev": "RegisterDup", "kind": "cert", "rank": rk[first.Name], "refused": dup(func() { lint.RegisterCertificateLint(first.C) })})
	firstR := lintsOf(g, "crl")[0]
	w.Emit(ev.M{"ev": "RegisterDup", "kind": "crl", "rank": rk[firstR.Name], "refused": dup(func() { lint.RegisterRevocationListLint(firstR.R) })})
	firstO := lintsOf(g, "ocsp")[0]
	w.Emit(ev.M{"ev": "RegisterDup", "kind": "ocsp", "rank": rk[firstO.Name], "refused": dup(func() { lint.RegisterOcspResponseLint(firstO.O) })})
	// a refused registration leaves every table as it was - also when the refused lint carries a source its kind does not have yet
	cpC, cpR, cpO := *first.C, *firstR.R, *firstO.O
	cpC.Source, cpR.Source, cpO.Source = lint.RFC6960, lint.AppleRootStorePolicy, lint.MozillaRootStorePolicy
	w.Emit(ev.M{"ev": "RegisterDup", "kind": "cert", "rank": rk[first.Name], "refused": dup(func() { lint.RegisterCertificateLint(&cpC) })})
	w.Emit(ev.M{"ev": "RegisterDup", "kind": "crl", "rank": rk[firstR.Name], "refused": dup(func() { lint.RegisterRevocationListLint(&cpR) })})
	w.Emit(ev.M{"ev": "RegisterDup", "kind": "ocsp", "rank": rk[firstO.Name], "refused": dup(func() { lint.RegisterOcspResponseLint(&cpO) })})
	w.Emit(tablesEvent(g, universe, rk, "after refused registrations"))
	w.Emit(ev.M{"ev": "RegisterDup", "kind": "cert", "rank": 0, "refused": dup(func() {
		lint.RegisterCertificateLint(&lint.CertificateLint{LintMetadata: lint.LintMetadata{Name: ""}, Lint: first.C.Lint})
	})})

	// ---- C08: Filter over the full real registry
	wf := ev.Create(out("filter.ndjson"))
	wf.Emit(regEv)
	n := 1500
	if tier == "thorough" {
		n = 30000
	}
	marker, _ := lint.NewConfigFromString("[verif_marker]\nx = 1\n")
	scribble, _ := lint.NewConfigFromString("[verif_scribble]\nx = 2\n")
	// filters are taken from the global registry and from two derived registries carrying a marker configuration
	parents := []lint.Registry{g}
	// (a Filter with valid options that fails here is itself recorded by the random jobs below; the derived parents are then left out)
	if p1, err := g.Filter(lint.FilterOptions{ExcludeSources: lint.SourceList{lint.Community}}); err == nil && p1 != nil {
		p1.SetConfiguration(marker)
		parents = append(parents, p1)
	}
	if p2, err := g.Filter(lint.FilterOptions{NameFilter: regexp.MustCompile("^e_")}); err == nil && p2 != nil {
		parents = append(parents, p2)
	}
	allSources := []lint.LintSource{lint.RFC3279, lint.RFC5280, lint.RFC5480, lint.RFC5891, lint.RFC6960, lint.RFC6962, lint.RFC8813,
		lint.CABFBaselineRequirements, lint.CABFCSBaselineRequirements, lint.CABFSMIMEBaselineRequirements, lint.CABFEVGuidelines,
		lint.MozillaRootStorePolicy, lint.AppleRootStorePolicy, lint.Community, lint.EtsiEsi, lint.UnknownLintSource, lint.LintSource("NoSuch")}
	rePool := []string{"^$", ".*", "^e_", "^w_", "^n_", "crl", "ocsp", "^e_(sub|ext)_", "dns|rsa", "_$", "[0-9]", "^e_crl_has_next_update$", "(?i)E_", "x{3}"}
	type fjob struct {
		parent int
		opts   lint.FilterOptions
		desc   ev.M
	}
	tok := func(name string) string {
		return padPool[rng.Intn(len(padPool))] + name + padPool[rng.Intn(len(padPool))]
	}
	randNames := func(max int, pv regView, allowUnknown bool) ([]string, bool) {
		k := rng.Intn(max + 1)
		isNil := k == 0 && rng.Intn(2) == 0
		if isNil {
			return nil, true
		}
		out := []string{}
		for i := 0; i < k; i++ {
			switch {
			case allowUnknown && rng.Intn(25) == 0:
				// near misses and names of other registries
				base := universe[rng.Intn(len(universe))]
				out = append(out, tok([]string{base + "x", strings.ToUpper(base), base[1:], "", "e_no_such_lint", base + " extra"}[rng.Intn(6)]))
			case rng.Intn(3) == 0 && len(pv.PerKind["crl"])+len(pv.PerKind["ocsp"]) > 0:
				pool := append(append([]string{}, pv.PerKind["crl"]...), pv.PerKind["ocsp"]...)
				out = append(out, tok(pool[rng.Intn(len(pool))]))
			default:
				out = append(out, tok(universe[rng.Intn(len(universe))]))
			}
		}
		return out, false
	}
	randSources := func() lint.SourceList {
		k := rng.Intn(4)
		if k == 0 {
			if rng.Intn(2) == 0 {
				return nil
			}
			return lint.SourceList{}
		}
		var sl lint.SourceList
		for i := 0; i < k; i++ {
			sl = append(sl, allSources[rng.Intn(len(allSources))])
		}
		return sl
	}
	views := []regView{}
	for _, pr := range parents {
		views = append(views, viewOf(pr))
	}
	genJobs := func(n int, cornerCases bool) []fjob {
		var jobs []fjob
		for i := 0; i < n; i++ {
			pi := 0
			if i%5 == 3 && len(parents) > 1 {
				pi = 1
			} else if i%5 == 4 && len(parents) > 2 {
				pi = 2
			}
			var o lint.FilterOptions
			mode := rng.Intn(10)
			if mode < 6 {
				o.IncludeNames, _ = randNames(6, views[pi], mode < 5)
				o.ExcludeNames, _ = randNames(4, views[pi], mode < 5)
			}
			if mode >= 5 && mode != 6 {
				o.NameFilter = regexp.MustCompile(rePool[rng.Intn(len(rePool))])
			}
			if rng.Intn(2) == 0 {
				o.IncludeSources = randSources()
			}
			if rng.Intn(2) == 0 {
				o.ExcludeSources = randSources()
			}
			if cornerCases && i < 40 {
				// plain corner cases first: nil vs empty everything
				o = lint.FilterOptions{}
				if i%2 == 1 {
					o.IncludeNames, o.ExcludeNames, o.IncludeSources, o.ExcludeSources = []string{}, []string{}, lint.SourceList{}, lint.SourceList{}
				}
				if i >= 2 {
					o.IncludeSources = lint.SourceList{allSources[i%len(allSources)]}
				}
				if i >= 20 {
					o.IncludeSources = nil
					o.ExcludeNames = []string{tok(universe[(i*37)%len(universe)])}
				}
			}
			// every tenth call repeats, on the same registry, the options of a call made long before: whoever received that
			// earlier result has configured it since (below), and the new result must carry the parent's configuration again
			if i%10 == 9 && i >= 200 {
				pi, o = jobs[i-200].parent, jobs[i-200].opts
			}
			jobs = append(jobs, fjob{parent: pi, opts: o})
		}
		return jobs
	}
	jobs := genJobs(n, true)
	execJobs := func(jobs []fjob) ([]ev.M, []string) {
		events := make([]ev.M, len(jobs))
		classes := make([]string, len(jobs))
		parallel(len(jobs), func(i int) {
			j := jobs[i]
			parent := parents[j.parent]
			before := viewOf(parent)
			beforeCfg := parent.GetConfiguration()
			res, err := func() (r lint.Registry, e error) {
				defer func() {
					if p := recover(); p != nil {
						e = fmt.Errorf("panic: %v", p)
					}
				}()
				return parent.Filter(j.opts)
			}()
			after := viewOf(parent)
			m := ev.M{"ev": "Filter", "parent": j.parent, "parentNames": ranks(rk, before.Names)}
			// tokens: [rank of the trimmed token in the reference universe, present in parent?]; trimming by Go's strings.TrimSpace
			enc := func(toks []string) []int {
				out := []int{}
				for _, t := range toks {
					out = append(out, rk[strings.TrimSpace(t)])
				}
				return out
			}
			m["ix"], m["xx"] = enc(j.opts.IncludeNames), enc(j.opts.ExcludeNames)
			m["ixRaw"], m["xxRaw"] = j.opts.IncludeNames, j.opts.ExcludeNames
			if j.opts.IncludeNames == nil {
				m["ixRaw"] = []string{}
			}
			if j.opts.ExcludeNames == nil {
				m["xxRaw"] = []string{}
			}
			ss := func(l lint.SourceList) []string {
				o := []string{}
				for _, s := range l {
					o = append(o, string(s))
				}
				return o
			}
			m["is"], m["xs"] = ss(j.opts.IncludeSources), ss(j.opts.ExcludeSources)
			m["nf"] = j.opts.NameFilter != nil
			match := []int{}
			if j.opts.NameFilter != nil {
				m["re"] = j.opts.NameFilter.String()
				for _, nme := range universe {
					if j.opts.NameFilter.MatchString(nme) {
						match = append(match, rk[nme])
					}
				}
			}
			m["nfMatch"] = match
			m["err"] = err != nil
			if err != nil {
				m["errMsg"] = err.Error()
			}
			m["parentUnchanged"] = reflect.DeepEqual(before, after) && beforeCfg == parent.GetConfiguration()
			sel, kindOK, metaOK, same, cfgSame := []int{}, true, true, false, false
			srcAgree := true
			if err == nil && res != nil {
				rv := viewOf(res)
				sel = ranks(rk, rv.Names)
				same = res == parent
				cfgSame = res.GetConfiguration() == beforeCfg
				if res != parent {
					res.SetConfiguration(scribble) // the caller's own registry now: nothing of this may show anywhere else
				}
				inKind := 0
				for _, k := range []string{"cert", "crl", "ocsp"} {
					for _, nme := range rv.PerKind[k] {
						inKind++
						if before.Kind[nme] != k {
							kindOK = false
						}
						pm, _ := metaOf(parent, k, nme)
						rm, _ := metaOf(res, k, nme)
						if !metaEqual(pm, rm) {
							metaOK = false
						}
					}
				}
				if inKind != len(rv.Names) {
					kindOK = false
				}
				want := map[string]bool{}
				for _, nme := range rv.Names {
					want[rv.Src[nme]] = true
				}
				got := map[string]bool{}
				for _, s := range res.Sources() {
					got[string(s)] = true
				}
				srcAgree = reflect.DeepEqual(want, got)
			}
			m["sel"], m["kindOK"], m["metaOK"], m["same"], m["cfgSame"], m["srcAgree"] = sel, kindOK, metaOK, same, cfgSame, srcAgree
			events[i] = m
			switch {
			case err != nil:
				classes[i] = "err:" + strings.SplitN(err.Error(), " ", 3)[0]
			case len(sel) == 0:
				classes[i] = "nothing"
			case len(sel) == len(before.Names):
				classes[i] = "everything"
			default:
				classes[i] = fmt.Sprintf("sel|%v|%v|%v|%d", m["nf"], len(j.opts.IncludeSources) > 0, len(j.opts.ExcludeSources) > 0, len(sel))
			}
		})
		return events, classes
	}
	events, classes := execJobs(jobs)
	cls := map[string]int{}
	for i, e := range events {
		wf.Emit(e)
		cls[classes[i]]++
	}
	// ---- C12 again: the lookups of the global registry after it has been filtered thousands of times, and after lints were
	// registered late (every lookup, BySource included, had been used before): the tables must still be the model's
	w.Emit(tablesEvent(g, universe, rk, "after the Filter calls"))
	lateCorpus := corpus.Load()
	for _, ms := range late {
		registerMock(ms)
		w.Emit(ev.M{"ev": "Register", "rank": rk[ms.Name], "kind": ms.Kind, "src": string(ms.Source), "name": ms.Name, "prefix": ms.Name[:1], "lower": true, "blank": false,
			"hasDesc": true, "implNil": false, "eff": ev.Inst(time.Time{}), "ineff": ev.Inst(time.Time{}), "implType": "mock"})
		w.Emit(tablesEvent(g, universe, rk, "after registering "+ms.Name))
		// C01 in this history: a lint registered after the registry has been used gets a result from the next run of its kind
		var t *Target
		for _, o := range loadTargets(lateCorpus) {
			if o.Kind == ms.Kind {
				t = o
				break
			}
		}
		if t != nil {
			rs, esc, hung := runSet(t, g)
			e := ev.M{"ev": "LateRun", "kind": ms.Kind, "name": ms.Name, "hasResult": false, "results": 0, "lints": len(lintNamesOfKind(g, ms.Kind)), "escaped": esc != "" || hung}
			if rs != nil {
				_, e["hasResult"] = rs.Results[ms.Name]
				e["results"] = len(rs.Results)
			}
			w.Emit(e)
		}
	}
	// ---- C08 again: Filter over the registry as it is now, with the lately registered lints of every kind in it
	views[0] = viewOf(g)
	ev2, cl2 := execJobs(genJobs(n/5, false))
	for i, e := range ev2 {
		e["late"] = true
		wf.Emit(e)
		cls[cl2[i]]++
	}
	wf.Close()
	if f, err := g.Filter(lint.FilterOptions{ExcludeNames: []string{universe[0]}}); err == nil && f != nil {
		_ = f.Names()
		w.Emit(tablesEvent(g, universe, rk, "after an exclude-names filter"))
	}
	w.Close()
	nontriv := 0
	for k := range cls {
		if strings.HasPrefix(k, "sel|") || strings.HasPrefix(k, "err:") {
			nontriv++
		}
	}
	ev.WriteJSON(out("summary.json"), ev.M{"lints": len(universe), "filters": len(jobs), "classes": len(cls), "nontrivial": nontriv,
		"sample": compact(events[len(events)/2]), "errors": cls["err:unknown"] + cls["err:FilterOptions.NameFilter"]})
}

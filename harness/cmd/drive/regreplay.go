package main

import (
	"encoding/json"
	"fmt"
	"os"
	"reflect"
	"regexp"
	"sort"

	"github.com/zmap/zlint/v3/lint"
	"verif/harness/internal/ev"
)

// cmdRegReplay: binding G for Registry.tla. The model universe (5 lints, 3 kinds, 3 sources + one source
// without lints) is realised with real lints; every exported Filter call is performed on the real
// 5-lint registry and the projected result compared with the model's.
type filtCase struct {
	Xs   []string          `json:"xs"`
	Is   []string          `json:"is"`
	Nf   string            `json:"nf"`
	Xn   []json.RawMessage `json:"xn"`
	Inn  []json.RawMessage `json:"inn"`
	Err  string            `json:"err"`
	Sel  []int             `json:"sel"`
	Same bool              `json:"same"`
}

func cmdRegReplay(args []string) {
	parseFlags(args)
	g := lint.GlobalRegistry()
	// realisation of MC_Registry!MCUniverse: 1 cert S1, 2 crl S1, 3 crl S2, 4 cert S2, 5 ocsp S3; S4 has no lint among them
	names := []string{"e_aia_ca_issuers_must_have_http_only", "e_cab_crl_has_valid_reason_code", "e_crl_has_next_update",
		"e_ext_aia_marked_critical", "e_this_update_not_after_produced_at"}
	kinds := []string{"cert", "crl", "crl", "cert", "ocsp"}
	srcOf := map[string]lint.LintSource{"S1": lint.CABFBaselineRequirements, "S2": lint.RFC5280, "S3": lint.RFC6960, "S4": lint.AppleRootStorePolicy}
	want := []string{"S1", "S1", "S2", "S2", "S3"}
	if !sort.StringsAreSorted(names) {
		panic("universe not sorted")
	}
	re := regexp.MustCompile("crl")
	for i, n := range names {
		md, ok := metaOf(g, kinds[i], n)
		if !ok || md.Source != srcOf[want[i]] || re.MatchString(n) != (i == 1 || i == 2) {
			fmt.Fprintf(os.Stderr, "the real registry no longer realises the model universe at %s\n", n)
			os.Exit(3)
		}
	}
	parent, err := g.Filter(lint.FilterOptions{IncludeNames: names})
	if err != nil {
		panic(err)
	}
	marker, _ := lint.NewConfigFromString("[verif_marker]\nx = 1\n")
	parent.SetConfiguration(marker)
	pv := viewOf(parent)
	var cases []filtCase
	readExport(os.Getenv("VERIF_EXPORT"), func(inner string) {
		var fc filtCase
		if err := json.Unmarshal([]byte(inner), &fc); err != nil {
			panic(err)
		}
		cases = append(cases, fc)
	})
	if len(cases) == 0 {
		panic("no cases")
	}
	tok := func(raw json.RawMessage, i int) string {
		var pair []interface{}
		json.Unmarshal(raw, &pair)
		r := int(pair[0].(float64))
		n := "e_verif_no_such_lint"
		if r > 0 {
			n = names[r-1]
		}
		if pair[1].(string) == "lead" {
			return []string{"  " + n, n + "\t", " " + n + " \n"}[i%3]
		}
		return n
	}
	type mism struct {
		Case filtCase
		Got  ev.M
		Why  string
	}
	res := make([]*mism, len(cases))
	parallel(len(cases), func(i int) {
		fc := cases[i]
		var o lint.FilterOptions
		for _, s := range fc.Xs {
			o.ExcludeSources = append(o.ExcludeSources, srcOf[s])
		}
		for _, s := range fc.Is {
			o.IncludeSources = append(o.IncludeSources, srcOf[s])
		}
		if fc.Nf != "nil" {
			o.NameFilter = re
		}
		for _, t := range fc.Xn {
			o.ExcludeNames = append(o.ExcludeNames, tok(t, i))
		}
		for _, t := range fc.Inn {
			o.IncludeNames = append(o.IncludeNames, tok(t, i+1))
		}
		if i%2 == 0 { // empty, non-nil lists must behave like nil ones
			if o.ExcludeNames == nil {
				o.ExcludeNames = []string{}
			}
			if o.IncludeSources == nil {
				o.IncludeSources = lint.SourceList{}
			}
		}
		r, err := parent.Filter(o)
		got := ev.M{"err": err != nil}
		why := ""
		if (err != nil) != (fc.Err != "none") {
			why = "error-or-not (model: " + fc.Err + ")"
		} else if err == nil {
			rv := viewOf(r)
			var sel []int
			for _, n := range rv.Names {
				for k, m := range names {
					if m == n {
						sel = append(sel, k+1)
					}
				}
			}
			got["sel"] = sel
			wantSel := append([]int{}, fc.Sel...)
			if fc.Same {
				wantSel = []int{1, 2, 3, 4, 5}
			}
			sort.Ints(wantSel)
			if len(sel) != len(rv.Names) || !reflect.DeepEqual(append([]int{}, sel...), wantSel) && !(len(sel) == 0 && len(wantSel) == 0) {
				why = "selected set"
			}
			for _, n := range rv.Names {
				for k, m := range names {
					if m == n && rv.Kind[n] != kinds[k] {
						why = "kind changed"
					}
				}
			}
			if r.GetConfiguration() != marker {
				why = "configuration not inherited"
			}
		}
		if !reflect.DeepEqual(viewOf(parent), pv) || parent.GetConfiguration() != marker {
			why = "source registry changed"
		}
		if why != "" {
			res[i] = &mism{fc, got, why}
		}
	})
	var ms []*mism
	for _, r := range res {
		if r != nil {
			ms = append(ms, r)
		}
	}
	ev.WriteJSON(out("mismatches.json"), ms)
	ev.WriteJSON(out("summary.json"), ev.M{"cases": len(cases), "replayed": len(cases), "mismatches": len(ms), "sample": cases[len(cases)/2], "universe": names})
}

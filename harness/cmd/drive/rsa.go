package main

import (
	"crypto/rsa"
	"encoding/json"
	"fmt"
	"math/big"
	"math/rand"
	"os"
	"regexp"
	"sort"
	"strings"
	"sync"
	"time"

	"github.com/zmap/zcrypto/x509"
	zlint "github.com/zmap/zlint/v3"
	"github.com/zmap/zlint/v3/lint"
	"verif/harness/internal/corpus"
	"verif/harness/internal/ev"
	"verif/harness/internal/forge"
)

var rsaLints = []string{"e_rsa_mod_less_than_2048_bits", "e_mp_modulus_must_be_2048_bits_or_more", "e_old_root_ca_rsa_mod_less_than_2048_bits",
	"e_old_sub_ca_rsa_mod_less_than_1024_bits", "e_old_sub_cert_rsa_mod_less_than_1024_bits", "e_cs_rsa_key_size",
	"e_mp_modulus_must_be_divisible_by_8", "w_rsa_mod_not_odd", "w_rsa_mod_factors_smaller_than_752", "e_rsa_public_exponent_not_odd",
	"e_rsa_public_exponent_too_small", "e_mp_exponent_cannot_be_one", "w_rsa_public_exponent_not_in_range", "e_rsa_fermat_factorization"}

func derInt(n *big.Int) *forge.Node {
	b := n.Bytes()
	if len(b) == 0 || b[0]&0x80 != 0 {
		b = append([]byte{0}, b...)
	}
	return forge.Prim(0x02, b)
}

func rsaSPKI(n *big.Int, e int64) *forge.Node {
	key := forge.Cons(0x10, derInt(n), derInt(big.NewInt(e)))
	alg := forge.Cons(0x10, forge.OID(1, 2, 840, 113549, 1, 1, 1), forge.Prim(0x05, nil))
	return forge.Cons(0x10, alg, forge.Prim(0x03, append([]byte{0}, key.Bytes()...)))
}

var factorsRe = regexp.MustCompile(`p: (\d+); q: (\d+)`)

type rsaTemplate struct {
	id    string
	fc    *forge.Cert
	tweak func(c *x509.Certificate) // applied to the parsed forged certificate (the API takes parsed objects)
}

// cmdRSA: C16.
func cmdRSA(args []string) {
	parseFlags(args)
	rng := rand.New(rand.NewSource(seed))
	var plan struct {
		Moduli    []int64 `json:"moduli"`
		Exponents []int64 `json:"exponents"`
		Rounds    []int   `json:"rounds"`
	}
	readExport(os.Getenv("VERIF_EXPORT"), func(inner string) { json.Unmarshal([]byte(inner), &plan) })
	if len(plan.Moduli) == 0 {
		panic("no plan")
	}
	g := lint.GlobalRegistry()
	cfg0 := g.GetConfiguration()
	c := corpus.Load()
	byName := map[string]*LintRec{}
	for _, l := range lintsOf(g, "cert") {
		l := l
		byName[l.Name] = &l
	}
	// siblings: registered lints whose name ends in the name of an anchored key-quality lint (the same rule under another source,
	// e.g. e_smime_rsa_public_exponent_too_small): judged by the anchored rule's predicate, at the level their own prefix gives
	aliasOf := map[string]string{}
	allRSA := append([]string{}, rsaLints...)
	var regNames []string
	for n := range byName {
		regNames = append(regNames, n)
	}
	sort.Strings(regNames)
	for _, n := range regNames {
		anchored := false
		for _, a := range rsaLints {
			if a == n {
				anchored = true
			}
		}
		if anchored || len(n) < 3 {
			continue
		}
		for _, a := range rsaLints {
			if strings.HasSuffix(n[2:], a[2:]) && a != "e_rsa_fermat_factorization" {
				aliasOf[n] = a
				allRSA = append(allRSA, n)
				break
			}
		}
	}
	rulesOf := func(names []string) []string {
		out := make([]string, len(names))
		for i, n := range names {
			out[i] = n
			if a := aliasOf[n]; a != "" {
				out[i] = a
			}
		}
		return out
	}
	levelsOf := func(names []string) []int {
		out := make([]int, len(names))
		for i, n := range names {
			out[i] = map[byte]int{'e': 6, 'w': 5, 'n': 4}[n[0]]
		}
		return out
	}
	// templates: for every key lint, up to two corpus certificates with an RSA key on which it currently judges
	tmplSet := map[string]*rsaTemplate{}
	forLint := map[string][]string{}
	for _, name := range allRSA {
		l := byName[name]
		if l == nil {
			continue
		}
		for _, o := range c.Certs {
			if _, ok := o.Cert.PublicKey.(*rsa.PublicKey); !ok || o.Cert.PublicKeyAlgorithm != x509.RSA {
				continue
			}
			if r := execOne(l, fromObj(o), cfg0); r.Obs >= 3 && r.Obs <= 6 {
				fc, err := forge.ParseCert(o.DER)
				if err != nil {
					continue
				}
				if _, ok := tmplSet[o.ID]; !ok {
					tmplSet[o.ID] = &rsaTemplate{id: o.ID, fc: fc}
				}
				forLint[name] = append(forLint[name], o.ID)
				// the same template dated at the very start of the rule's window (in memory): the arithmetic predicate holds for
				// every certificate on which the rule applies, whenever it was issued
				if eff := l.Meta.EffectiveDate; !eff.IsZero() && len(forLint[name]) == 1 {
					id := "at-effective-date:" + name + ":" + o.ID
					if fc2, err2 := forge.ParseCert(o.DER); err2 == nil {
						tmplSet[id] = &rsaTemplate{id: id, fc: fc2, tweak: func(c *x509.Certificate) {
							c.NotBefore = eff
							c.NotAfter = eff.AddDate(1, 0, 0)
						}}
						forLint[name] = append(forLint[name], id)
					}
				}
				if len(forLint[name]) >= 3 {
					break
				}
			}
		}
	}
	// the old-root-CA rule needs a self-signed CA dated before 2011: the forged key breaks any self-signature, so the
	// parsed object of a CA template is marked self-signed and re-dated in memory
	for _, o := range c.Certs {
		if _, ok := o.Cert.PublicKey.(*rsa.PublicKey); ok && o.Cert.IsCA && o.Cert.PublicKeyAlgorithm == x509.RSA {
			if fc, err := forge.ParseCert(o.DER); err == nil {
				id := "mem-root:" + o.ID
				tmplSet[id] = &rsaTemplate{id: id, fc: fc, tweak: func(c *x509.Certificate) {
					c.SelfSigned = true
					c.NotBefore = time.Date(2009, 6, 1, 0, 0, 0, 0, time.UTC)
					c.NotAfter = time.Date(2029, 6, 1, 0, 0, 0, 0, time.UTC)
				}}
				forLint["e_old_root_ca_rsa_mod_less_than_2048_bits"] = append(forLint["e_old_root_ca_rsa_mod_less_than_2048_bits"], id)
				break
			}
		}
	}
	// lints per template
	lintsFor := map[string][]string{}
	var tmplIDs []string
	for _, name := range allRSA {
		for _, tid := range forLint[name] {
			if _, ok := lintsFor[tid]; !ok {
				tmplIDs = append(tmplIDs, tid)
			}
			lintsFor[tid] = append(lintsFor[tid], name)
		}
	}
	w := ev.Create(out("rsa.ndjson"))
	var mu sync.Mutex
	judged := map[string]bool{}
	vectors := map[string]bool{}
	nexec := 0
	// run: every key lint on each of its templates carrying (n, e), Fermat rounds through real TOML configuration
	run := func(n *big.Int, e int64, rounds int) (names []string, st []int, factorsOK bool, parsed int) {
		cfg := cfg0
		if rounds >= 0 {
			cfg, _ = lint.NewConfigFromString(fmt.Sprintf("[e_rsa_fermat_factorization]\nRounds = %d\n", rounds))
		}
		factorsOK = true
		spki := rsaSPKI(n, e)
		for _, tid := range tmplIDs {
			fc := tmplSet[tid].fc.Clone()
			fc.SetSPKI(spki)
			cert, ok, _ := corpus.ParseCert(fc.Bytes())
			if !ok {
				continue
			}
			if tmplSet[tid].tweak != nil {
				tmplSet[tid].tweak(cert)
			}
			parsed++
			for _, name := range lintsFor[tid] {
				l := byName[name]
				r := execOne(l, &Target{Kind: "cert", ID: tid, Cert: cert}, cfg)
				mu.Lock()
				nexec++
				if r.Obs >= 3 && r.Obs <= 6 {
					judged[name] = true
				}
				mu.Unlock()
				names, st = append(names, name), append(st, r.Obs)
				if name == "e_rsa_fermat_factorization" && r.Obs == 6 {
					// the factorisation a user reads is the one in the result set of a Lint*Ex call (same configuration)
					details := r.Details
					if fr, err := lint.GlobalRegistry().Filter(lint.FilterOptions{IncludeNames: []string{name}}); err == nil {
						fr.SetConfiguration(cfg)
						if rs := zlint.LintCertificateEx(cert, fr); rs != nil && rs.Results[name] != nil {
							if rs.Results[name].Status != lint.Error {
								factorsOK = false
							}
							details = rs.Results[name].Details
						}
					}
					m := factorsRe.FindStringSubmatch(details)
					if m == nil {
						factorsOK = false
					} else {
						p, _ := new(big.Int).SetString(m[1], 10)
						q, _ := new(big.Int).SetString(m[2], 10)
						if new(big.Int).Mul(p, q).Cmp(n) != 0 {
							factorsOK = false
						}
					}
				}
			}
		}
		return
	}
	// ---- small keys: exact arithmetic is TLC's
	smallEv := make([][]ev.M, len(plan.Moduli))
	parallel(len(plan.Moduli), func(i int) {
		m := plan.Moduli[i]
		n := big.NewInt(m)
		combos := [][2]int64{{65537, -1}}
		for _, r := range plan.Rounds {
			combos = append(combos, [2]int64{65537, int64(r)})
		}
		if i%40 == 0 {
			for _, e := range plan.Exponents {
				combos = append(combos, [2]int64{e, -1})
			}
		}
		for _, cb := range combos {
			names, st, fok, parsed := run(n, cb[0], int(cb[1]))
			rounds := int(cb[1])
			if rounds < 0 {
				rounds = 100 // the documented default
			}
			smallEv[i] = append(smallEv[i], ev.M{"ev": "SmallKey", "n": m, "e": cb[0], "rounds": rounds, "configured": cb[1] >= 0, "lints": names, "rules": rulesOf(names), "levels": levelsOf(names), "st": st, "factorsOK": fok, "parsed": parsed})
		}
	})
	for _, es := range smallEv {
		for _, e := range es {
			w.Emit(e)
			vectors[fmt.Sprint(e["st"])] = true
		}
	}
	// ---- real-size keys: facts fixed by construction
	noSmall := func(n *big.Int) bool {
		for d := int64(2); d <= 751; d++ {
			if new(big.Int).Mod(n, big.NewInt(d)).Sign() == 0 {
				return false
			}
		}
		return true
	}
	bitLens := []int{1023, 1024, 1025, 2040, 2047, 2048, 2049, 2056, 3071, 3072, 3073, 4096}
	fermatLens := map[int]bool{1024: true, 2048: true, 3072: true}
	if tier != "thorough" {
		bitLens = []int{1023, 1024, 2047, 2048, 2049, 3071, 3072}
		fermatLens = map[int]bool{1024: true, 3072: true}
	}
	// product of all primes below 752: a number is free of factors 2..751 iff coprime to it (math/big GCD)
	primorial := big.NewInt(1)
	for d := int64(2); d <= 751; d++ {
		if big.NewInt(d).ProbablyPrime(10) {
			primorial.Mul(primorial, big.NewInt(d))
		}
	}
	coprimeCofactor := func(r *rand.Rand, bits int) *big.Int {
		for {
			x := new(big.Int).Rand(r, new(big.Int).Lsh(big.NewInt(1), uint(bits)))
			x.SetBit(x, bits-1, 1)
			x.SetBit(x, 0, 1)
			if new(big.Int).GCD(nil, nil, x, primorial).Cmp(big.NewInt(1)) == 0 {
				return x
			}
		}
	}
	bigEv := make([][]ev.M, len(bitLens))
	seeds := make([]int64, len(bitLens))
	for i := range seeds {
		seeds[i] = rng.Int63()
	}
	parallel(len(bitLens), func(bi int) {
		L := bitLens[bi]
		r := rand.New(rand.NewSource(seeds[bi]))
		prime := func(bits int) *big.Int {
			for {
				p := new(big.Int).Rand(r, new(big.Int).Lsh(big.NewInt(1), uint(bits)))
				p.SetBit(p, bits-1, 1)
				p.SetBit(p, 0, 1)
				if new(big.Int).GCD(nil, nil, p, primorial).Cmp(big.NewInt(1)) == 0 && p.ProbablyPrime(8) {
					return p
				}
			}
		}
		emit := func(m ev.M) { bigEv[bi] = append(bigEv[bi], m) }
		// (a) product of two large primes with exactly L bits: no small factor, far apart
		var n *big.Int
		for {
			p, q := prime(L/2), prime(L-L/2)
			n = new(big.Int).Mul(p, q)
			if n.BitLen() == L && noSmall(n) && new(big.Int).Sub(p, q).BitLen() > L/2-40 {
				break
			}
		}
		for _, e := range []int64{65537, 3, 1, 2, 65536} {
			names, st, fok, parsed := run(n, e, -1)
			emit(ev.M{"ev": "BigKey", "bits": L, "even": false, "small": false, "fermat": false, "e": e, "rounds": 100, "lints": names, "rules": rulesOf(names), "levels": levelsOf(names), "st": st, "factorsOK": fok, "parsed": parsed})
		}
		// (b) a planted small divisor d (prime or not); the cofactor is coprime to every prime below 752.
		//     Fermat is not judged on these (the cofactor is not prime): rounds = 0 through the configuration.
		for _, d := range []int64{2, 3, 4, 7, 9, 409, 743, 751, 750} {
			var m *big.Int
			for {
				co := coprimeCofactor(r, L-big.NewInt(d).BitLen()+r.Intn(2))
				m = new(big.Int).Mul(big.NewInt(d), co)
				if m.BitLen() == L {
					break
				}
			}
			names, st, fok, parsed := run(m, 65537, 0)
			emit(ev.M{"ev": "BigKey", "bits": L, "even": d%2 == 0, "small": true, "fermat": false, "e": 65537, "rounds": 0, "lints": names, "rules": rulesOf(names), "levels": levelsOf(names), "st": st, "factorsOK": fok, "parsed": parsed})
		}
		// (c) close primes: q = nextprime(p + gap); the iteration at which Fermat meets (p+q)/2 is computed with math/big
		if fermatLens[L] {
			for gi, gap := range []int64{2, 1000, 1 << 20} {
				if tier != "thorough" && L > 2048 && gi > 0 {
					break // quick: one large close-prime modulus (its factorisation is a long text)
				}
				p := prime(L / 2)
				q := new(big.Int).Add(p, big.NewInt(gap))
				q.SetBit(q, 0, 1)
				for !(new(big.Int).GCD(nil, nil, q, primorial).Cmp(big.NewInt(1)) == 0 && q.ProbablyPrime(8)) {
					q.Add(q, big.NewInt(2))
				}
				m := new(big.Int).Mul(p, q)
				mid := new(big.Int).Rsh(new(big.Int).Add(p, q), 1)
				idx := new(big.Int).Sub(mid, new(big.Int).Sqrt(m))
				idx.Sub(idx, big.NewInt(1))
				for _, rr := range []int{0, 1, 100, 10000} {
					found := idx.IsInt64() && idx.Int64() < int64(rr)
					names, st, fok, parsed := run(m, 65537, rr)
					emit(ev.M{"ev": "BigKey", "bits": m.BitLen(), "even": false, "small": !noSmall(m), "fermat": found, "e": 65537, "rounds": rr, "lints": names, "rules": rulesOf(names), "levels": levelsOf(names), "st": st,
						"factorsOK": fok, "parsed": parsed, "fermatIdx": idx.String()})
				}
			}
		}
	})
	for _, es := range bigEv {
		for _, e := range es {
			w.Emit(e)
			vectors[fmt.Sprint(e["st"])] = true
		}
	}
	n := w.N
	w.Close()
	var unjudged []string
	for _, name := range rsaLints {
		if !judged[name] {
			unjudged = append(unjudged, name)
		}
	}
	ev.WriteJSON(out("summary.json"), ev.M{"events": n, "executions": nexec, "vectors": len(vectors), "templates": len(tmplSet), "lints_never_judged": unjudged,
		"small_moduli": len(plan.Moduli), "sample": ev.M{"ev": "SmallKey", "n": plan.Moduli[len(plan.Moduli)/2], "e": 65537}})
}

package main

import (
	"bytes"
	"encoding/json"
	"os"
	"os/exec"
	"sort"
	"strings"

	"github.com/zmap/zlint/v3/lint"
	"verif/harness/internal/ev"
)

// cmdSelectors: C13. Every listed name and source is offered to every selector entry point
// (library and CLI); unknown tokens too. Only "accepted or not" and "came back as the same thing" are logged.
func cmdSelectors(args []string) {
	parseFlags(args)
	g := lint.GlobalRegistry()
	cli := os.Getenv("VERIF_CLI")
	var defined []string
	json.Unmarshal([]byte(os.Getenv("VERIF_SOURCE_CONSTANTS")), &defined)
	isDefined := map[string]bool{}
	for _, d := range defined {
		isDefined[d] = true
	}
	w := ev.Create(out("select.ndjson"))
	names := g.Names()
	listedName := map[string]bool{}
	for _, n := range names {
		listedName[n] = true
	}
	classes := map[string]bool{}
	emit := func(kind, entry, tok string, listed, def, accepted, faithful bool) {
		w.Emit(ev.M{"ev": "Sel", "kind": kind, "entry": entry, "tok": tok, "listed": listed, "defined": def, "accepted": accepted, "faithful": faithful})
		cls := "unknown"
		if listed {
			cls = "listed"
		} else if def {
			cls = "defined-unlisted"
		}
		classes[kind+"|"+entry+"|"+cls] = true
	}
	runCLI := func(flag, val string) bool {
		// -list-lints-json exercises setLints() only; exit status 0 = the selector was accepted
		cmd := exec.Command(cli, flag, val, "-list-lints-json")
		cmd.Stdout = nil
		return cmd.Run() == nil
	}
	// ---- names
	unknownNames := []string{"e_no_such_lint", "", "E_BASIC_CONSTRAINTS_NOT_CRITICAL", names[0] + "x", names[len(names)/2][1:], "unknown", "*"}
	tokens := append([]string{}, names...)
	tokens = append(tokens, unknownNames...)
	cliEvery := 12
	if tier == "thorough" {
		cliEvery = 1
	}
	for i, n := range tokens {
		listed := listedName[n]
		padded := n
		if i%3 == 1 {
			padded = " " + n + "\t"
		}
		r, err := g.Filter(lint.FilterOptions{IncludeNames: []string{padded}})
		faithful := err == nil && len(r.Names()) == 1 && r.Names()[0] == n
		emit("name", "lib-include", n, listed, listed, err == nil, faithful)
		r, err = g.Filter(lint.FilterOptions{ExcludeNames: []string{padded}})
		faithful = err == nil && len(r.Names()) == len(names)-1 && !contains(r.Names(), n)
		emit("name", "lib-exclude", n, listed, listed, err == nil, faithful)
		odd := strings.IndexFunc(n, func(r rune) bool { return !(r == '_' || (r >= 'a' && r <= 'z') || (r >= '0' && r <= '9')) }) >= 0
		if listed && i%7 == int(seed)%7 {
			// the same listed name given twice (an include list merged from two places, a profile plus an explicit name)
			r, err = g.Filter(lint.FilterOptions{IncludeNames: []string{n, padded, n}})
			emit("name", "lib-include-twice", n, listed, listed, err == nil, err == nil && len(r.Names()) == 1 && r.Names()[0] == n)
			r, err = g.Filter(lint.FilterOptions{ExcludeNames: []string{n, n}})
			emit("name", "lib-exclude-twice", n, listed, listed, err == nil, err == nil && len(r.Names()) == len(names)-1 && !contains(r.Names(), n))
		}
		if cli != "" && (i%cliEvery == int(seed)%cliEvery || !listed || odd) && n != "" { // names with unusual characters always go through the CLI
			emit("name", "cli-include", n, listed, listed, runCLI("-includeNames", padded), true)
			emit("name", "cli-exclude", n, listed, listed, runCLI("-excludeNames", padded), true)
		}
	}
	// ---- both name lists at once: a token is judged the same way whatever stands in the other list, and next to source options
	runCLI2 := func(args ...string) bool {
		cmd := exec.Command(cli, append(args, "-list-lints-json")...)
		cmd.Stdout = nil
		return cmd.Run() == nil
	}
	for i, u := range append(append([]string{}, unknownNames...), names[3], names[len(names)-4]) {
		if u == "" {
			continue
		}
		listed := listedName[u]
		v1, v2 := names[(7*i+11)%len(names)], names[(13*i+5)%len(names)]
		if v1 == u || v2 == u || v1 == v2 {
			continue
		}
		_, err := g.Filter(lint.FilterOptions{IncludeNames: []string{v1, v2}, ExcludeNames: []string{u}})
		emit("name", "lib-exclude-next-to-include", u, listed, listed, err == nil, true)
		_, err = g.Filter(lint.FilterOptions{IncludeNames: []string{u}, ExcludeNames: []string{v1}})
		emit("name", "lib-include-next-to-exclude", u, listed, listed, err == nil, true)
		_, err = g.Filter(lint.FilterOptions{ExcludeNames: []string{v1, u, v2}})
		emit("name", "lib-exclude-among-valid", u, listed, listed, err == nil, true)
		_, err = g.Filter(lint.FilterOptions{IncludeNames: []string{v1, u}, IncludeSources: lint.SourceList{lint.RFC5280}})
		emit("name", "lib-include-next-to-sources", u, listed, listed, err == nil, true)
		_, err = g.Filter(lint.FilterOptions{ExcludeNames: []string{u}, ExcludeSources: lint.SourceList{lint.Community}})
		emit("name", "lib-exclude-next-to-sources", u, listed, listed, err == nil, true)
		if cli != "" {
			emit("name", "cli-exclude-next-to-include", u, listed, listed, runCLI2("-includeNames", v1+","+v2, "-excludeNames", u), true)
			emit("name", "cli-include-next-to-exclude", u, listed, listed, runCLI2("-excludeNames", v1, "-includeNames", u), true)
			emit("name", "cli-exclude-next-to-sources", u, listed, listed, runCLI2("-excludeSources", "Community", "-excludeNames", u), true)
		}
	}
	// ---- sources
	listedSrc := map[string]bool{}
	for _, s := range g.Sources() {
		listedSrc[string(s)] = true
	}
	srcTokens := map[string]bool{}
	for s := range listedSrc {
		srcTokens[s] = true
	}
	for _, d := range defined {
		srcTokens[d] = true
	}
	for _, u := range []string{"NoSuchSource", "rfc5280", "CABF", "RFC 5280", "RFC5280x", "Unknown ", "ZLint", "RFC", "cabf_br"} {
		srcTokens[u] = true
	}
	var sl []string
	for s := range srcTokens {
		sl = append(sl, s)
	}
	sort.Strings(sl)
	for i, s := range sl {
		listed, def := listedSrc[s], isDefined[strings.TrimSpace(s)]
		padded := s
		if i%2 == 1 {
			padded = " " + s + " "
		}
		var list lint.SourceList
		err := list.FromString(padded)
		emit("source", "sourcelist", s, listed, def, err == nil && len(list) > 0, err == nil && len(list) == 1 && string(list[0]) == s)
		err = list.FromString("RFC5280," + padded)
		emit("source", "sourcelist-second", s, listed, def, err == nil && len(list) > 1, err == nil && len(list) == 2 && string(list[1]) == s)
		var one lint.LintSource
		one.FromString(padded)
		emit("source", "fromstring", s, listed, def, one != lint.UnknownLintSource, string(one) == s)
		b, _ := json.Marshal(lint.LintSource(s))
		var back lint.LintSource
		err = json.Unmarshal(b, &back)
		emit("source", "json", s, listed, def, err == nil, err == nil && string(back) == s)
		if listed {
			r, err := g.Filter(lint.FilterOptions{IncludeSources: lint.SourceList{lint.LintSource(s)}})
			ok := err == nil && len(r.Names()) > 0
			emit("source", "lib-include", s, listed, def, ok, ok)
			r, err = g.Filter(lint.FilterOptions{ExcludeSources: lint.SourceList{lint.LintSource(s)}})
			ok = err == nil && len(r.Names()) < len(names)
			emit("source", "lib-exclude", s, listed, def, ok, ok)
		}
		if cli != "" && s != "" {
			emit("source", "cli-include", s, listed, def, runCLI("-includeSources", padded), true)
			emit("source", "cli-exclude", s, listed, def, runCLI("-excludeSources", padded), true)
		}
	}
	// ---- the CLI's own listing is what a user copies from
	if cli != "" {
		outb, err := exec.Command(cli, "-list-lints-source").Output()
		if err == nil {
			for _, line := range strings.Split(string(outb), "\n") {
				s := strings.TrimSpace(line)
				if s == "" {
					continue
				}
				emit("source", "cli-listed-include", s, true, isDefined[s], runCLI("-includeSources", s), true)
			}
		}
		// profiles as the CLI lists them
		outb, err = exec.Command(cli, "-list-profiles").Output()
		if err == nil {
			for _, line := range bytes.Split(outb, []byte("\n")) {
				var p lint.Profile
				if len(bytes.TrimSpace(line)) == 0 || json.Unmarshal(line, &p) != nil {
					continue
				}
				missing := []string{}
				for _, n := range p.LintNames {
					if !listedName[n] {
						missing = append(missing, n)
					}
				}
				w.Emit(ev.M{"ev": "Profile", "where": "cli", "name": p.Name, "lints": len(p.LintNames), "missing": missing,
					"accepted": runCLI("-profile", p.Name)})
				classes["profile|cli"] = true
			}
		}
	}
	// ---- a registry that has already been filtered by name and then grows: what it lists now can be selected now
	for _, ms := range []mockSpec{{Name: "e_verif_late_ocsp", Kind: "ocsp", Source: lint.RFC6960}, {Name: "e_verif_late_crl", Kind: "crl", Source: lint.RFC5280},
		{Name: "e_verif_late_cert", Kind: "cert", Source: lint.RFC5280}} {
		registerMock(ms)
		now := g.Names()
		listed := contains(now, ms.Name)
		r, err := g.Filter(lint.FilterOptions{IncludeNames: []string{ms.Name}})
		emit("name", "lib-include-late", ms.Name, listed, listed, err == nil, err == nil && len(r.Names()) == 1 && r.Names()[0] == ms.Name)
		r, err = g.Filter(lint.FilterOptions{ExcludeNames: []string{ms.Name}})
		emit("name", "lib-exclude-late", ms.Name, listed, listed, err == nil, err == nil && len(r.Names()) == len(now)-1 && !contains(r.Names(), ms.Name))
	}
	// ---- profiles as an API (none is registered in this tree, so the mechanism is exercised with profiles made here):
	// a registered profile is retrievable and listed; selecting by it yields exactly its lints; one that names a lint the
	// registry does not have is rejected, not silently narrowed
	{
		cur := g.Names()
		mk := func(name string, lints []string) lint.Profile {
			return lint.Profile{Name: name, Description: "verif", Citation: "verif", Source: lint.RFC5280, LintNames: lints}
		}
		pick := []string{cur[0], cur[len(cur)/3], cur[len(cur)/2], cur[len(cur)-1]}
		for _, k := range []string{"crl", "ocsp"} {
			if ls := lintsOf(g, k); len(ls) > 0 {
				pick = append(pick, ls[0].Name)
			}
		}
		for _, pr := range []lint.Profile{mk("verif_all_listed", pick), mk("verif_one", pick[:1]), mk("verif_with_unknown", append([]string{"e_no_such_lint"}, pick[:2]...)),
			mk("verif_padded", []string{" " + pick[1] + " "})} {
			lint.RegisterProfile(pr)
			got, ok := lint.GetProfile(pr.Name)
			inAll := false
			for _, x := range lint.AllProfiles() {
				if x.Name == pr.Name {
					inAll = true
				}
			}
			allListed := true
			want := map[string]bool{}
			for _, n := range pr.LintNames {
				if !contains(cur, strings.TrimSpace(n)) {
					allListed = false
				}
				want[strings.TrimSpace(n)] = true
			}
			var fo lint.FilterOptions
			fo.AddProfile(got)
			r, err := g.Filter(fo)
			faithful := false
			if err == nil {
				faithful = len(r.Names()) == len(want)
				for _, n := range r.Names() {
					if !want[n] {
						faithful = false
					}
				}
			}
			w.Emit(ev.M{"ev": "ProfileUse", "name": pr.Name, "retrievable": ok && inAll && len(got.LintNames) == len(pr.LintNames), "allListed": allListed, "accepted": err == nil, "faithful": faithful})
			classes["profile-use|"+pr.Name] = true
		}
	}
	for _, p := range lint.AllProfiles() {
		if strings.HasPrefix(p.Name, "verif_") {
			continue // made above to exercise the mechanism; not a profile of the tree
		}
		missing := []string{}
		for _, n := range p.LintNames {
			if !listedName[n] {
				missing = append(missing, n)
			}
		}
		w.Emit(ev.M{"ev": "Profile", "where": "lib", "name": p.Name, "lints": len(p.LintNames), "missing": missing, "accepted": true})
		classes["profile|lib"] = true
	}
	n := w.N
	w.Close()
	ev.WriteJSON(out("summary.json"), ev.M{"events": n, "classes": len(classes), "names": len(names), "sources": len(listedSrc),
		"profiles_lib": len(lint.AllProfiles()) - 4, "sample": ev.M{"kind": "source", "entry": "sourcelist", "tok": "RFC6960"}})
}

func contains(l []string, s string) bool {
	for _, x := range l {
		if x == s {
			return true
		}
	}
	return false
}

package main

import (
	"math/rand"
	"os"
	"strings"

	"github.com/zmap/zlint/v3/lint"
	"verif/harness/internal/corpus"
	"verif/harness/internal/ev"
)

// cmdStability: attribution helper (DESIGN 6.1). Runs the named lints alone on one corpus object many
// times in one process and reports whether status or details vary by themselves.
func cmdStability(args []string) {
	parseFlags(args)
	names := strings.Split(os.Getenv("VERIF_LINTS"), ",")
	c := corpus.Load()
	g := lint.GlobalRegistry()
	cfg := g.GetConfiguration()
	res := ev.M{}
	_ = c
	for _, t := range append(loadTargets(c), extraTargets(rand.New(rand.NewSource(seed)))...) {
		if t.ID != only {
			continue
		}
		ls := lintsOf(g, t.Kind)
		for i := range ls {
			for _, n := range names {
				if ls[i].Name != n {
					continue
				}
				seen := map[string]bool{}
				for k := 0; k < 60; k++ {
					r := execOne(&ls[i], t, cfg)
					seen[r.ObsDg+"|"+string(rune('0'+r.Obs+3))] = true
				}
				res[n] = len(seen) > 1
			}
		}
	}
	ev.WriteJSON(out("stability.json"), res)
}

package main

// cmdSuite: the repository's OWN test suite as a trace source.  `go test -tags verif` of /repo's working tree is run by the
// orchestrator with a recorder injected into package lint (go test -overlay; harness/suite/recorder.go.txt) behind the guarded
// hook verifObserve: every certificate lint execution the tests make - each lint on the certificates written to make it fire,
// certificates generated in memory by the tests, configured runs - is recorded with what was reported in THAT process.
// Here every recorded execution is re-derived: the certificate is parsed again, the rule body is called directly on a fresh,
// freshly configured instance, the framework is run with spies; the event carries the recorded outcome as "obs" and this
// process's framework outcome as "runSt", in the Exec format that Trace_Exec validates against Base!Outcome (C03, C04).

import (
	"bufio"
	"encoding/base64"
	"encoding/json"
	"fmt"
	"os"
	"path/filepath"
	"sort"

	"github.com/zmap/zlint/v3/lint"
	"verif/harness/internal/corpus"
	"verif/harness/internal/ev"
)

type suiteRec struct {
	Lint    string `json:"lint"`
	Src     string `json:"src"`
	St      int    `json:"st"`
	Details string `json:"details"`
	Cfg     string `json:"cfg"`
	DER     string `json:"der"`
	Proc    string `json:"proc"`
	Mutated bool   `json:"mutated"`
}

func cmdSuite(args []string) {
	parseFlags(args)
	dir := os.Getenv("VERIF_SUITE_DIR")
	files, _ := filepath.Glob(filepath.Join(dir, "*.ndjson"))
	sort.Strings(files)
	type group struct {
		der, cfg string
		recs     []suiteRec
	}
	groups := map[string]*group{}
	var order []string
	procs := map[string]bool{}
	nrec, mutated := 0, 0
	pairs := map[[2]string]bool{}
	for _, f := range files {
		fh, err := os.Open(f)
		if err != nil {
			continue
		}
		sc := bufio.NewScanner(fh)
		sc.Buffer(make([]byte, 1<<20), 64<<20)
		for sc.Scan() {
			var r suiteRec
			if json.Unmarshal(sc.Bytes(), &r) != nil || r.DER == "" {
				continue
			}
			nrec++
			procs[filepath.Base(r.Proc)] = true
			pairs[[2]string{r.Lint, fmt.Sprint(r.St)}] = true // (whatever object it was: a status is what the lint reported)
			if r.Mutated {
				mutated++ // the test changed the parsed object before linting it: its encoding is not what was judged
				continue
			}
			k := r.DER + "\x00" + r.Cfg
			g := groups[k]
			if g == nil {
				g = &group{der: r.DER, cfg: r.Cfg}
				groups[k] = g
				order = append(order, k)
			}
			g.recs = append(g.recs, r)
		}
		fh.Close()
	}
	sort.Strings(order)
	reg := lint.GlobalRegistry()
	ls := lintsOf(reg, "cert")
	index := map[string]int{}
	for i, l := range ls {
		index[l.Name] = i
	}
	w := ev.Create(out("suite.ndjson"))
	for _, k := range []string{"cert", "crl", "ocsp"} {
		w.Emit(metaEvent(k, lintsOf(reg, k)))
	}
	unregistered, unparsable, badcfg, configured, events, triples := map[string]bool{}, 0, 0, 0, 0, 0
	lintsSeen := map[string]bool{}
	findings := 0
	var sample ev.M
	for gi, k := range order {
		g := groups[k]
		der, err := base64.StdEncoding.DecodeString(g.der)
		if err != nil {
			continue
		}
		cert, ok, _ := corpus.ParseCert(der)
		if !ok {
			unparsable++ // (a certificate built in memory by a test that does not survive re-parsing: nothing to re-derive)
			continue
		}
		cfg, err := lint.NewConfigFromString(g.cfg)
		if err != nil {
			badcfg++
			continue
		}
		if g.cfg != "" {
			configured++
		}
		t := &Target{Kind: "cert", ID: "suite:" + ev.Dg(g.der) + ":" + ev.Dg(g.cfg), DER: der, Cert: cert}
		if only != "" && t.ID != only {
			continue
		}
		// distinct outcomes recorded per lint (the same execution repeated by several tests is one observation; a second
		// DIFFERENT outcome of the same execution is a second event)
		type outc struct {
			st int
			d  string
		}
		per := map[string][]outc{}
		var names []string
		for _, r := range g.recs {
			if _, ok := index[r.Lint]; !ok {
				unregistered[r.Lint] = true
				continue
			}
			o := outc{r.St, r.Details}
			dup := false
			for _, x := range per[r.Lint] {
				dup = dup || x == o
			}
			if !dup {
				if len(per[r.Lint]) == 0 {
					names = append(names, r.Lint)
				}
				per[r.Lint] = append(per[r.Lint], o)
			}
		}
		sort.Strings(names)
		for round := 0; ; round++ {
			var idx []int
			var outs []outc
			for _, n := range names {
				if round < len(per[n]) {
					idx = append(idx, index[n])
					outs = append(outs, per[n][round])
				}
			}
			if len(idx) == 0 {
				break
			}
			m, _ := execEvent(ls, idx, t, cfg)
			// what this process's framework run gave becomes the comparison run; what the suite's process reported is the observation
			m["runSt"], m["runDg"] = m["obs"], m["obsDg"]
			obs, odg, ocl := make([]int, len(idx)), make([]string, len(idx)), make([]string, len(idx))
			for j, o := range outs {
				obs[j], odg[j], ocl[j] = o.st, ev.Dg(o.d), detailsClass(ls[idx[j]].Name, o.d)
				if o.st >= 4 && o.st <= 6 {
					findings++
				}
				lintsSeen[ls[idx[j]].Name] = true
			}
			m["obs"], m["obsDg"], m["obsCls"] = obs, odg, ocl
			m["cfgText"] = g.cfg
			m["der"] = g.der
			w.Emit(m)
			events++
			triples += len(idx)
			if sample == nil && gi > 3 {
				sample = ev.M{"lint": ls[idx[0]].Name, "st": obs[0], "configured": g.cfg != ""}
			}
		}
	}
	w.Close()
	var sl []string
	for p := range pairs {
		if _, ok := index[p[0]]; ok {
			sl = append(sl, p[0]+"|"+p[1])
		}
	}
	sort.Strings(sl)
	ev.WriteJSON(out("statuses.json"), sl)
	var ur []string
	for n := range unregistered {
		ur = append(ur, n)
	}
	sort.Strings(ur)
	var pl []string
	for p := range procs {
		pl = append(pl, p)
	}
	sort.Strings(pl)
	ev.WriteJSON(out("summary.json"), ev.M{"recorded_executions": nrec, "objects_and_configurations": len(order), "events": events, "distinct_executions": triples,
		"lints_seen": len(lintsSeen), "with_finding": findings, "configured_groups": configured, "unparsable": unparsable, "objects_changed_by_the_test": mutated, "bad_configuration_text": badcfg,
		"unregistered_lints": ur, "test_processes": pl, "sample": sample})
}

package main

import (
	"fmt"
	"math/rand"
	"regexp"
	"sort"
	"strings"
	"time"

	zlint "github.com/zmap/zlint/v3"
	"github.com/zmap/zlint/v3/lint"
	"verif/harness/internal/corpus"
	"verif/harness/internal/ev"
)

// runSet performs one Lint*Ex call under recover and a watchdog.
func runSet(t *Target, reg lint.Registry) (rs *zlint.ResultSet, escaped string, hung bool) {
	type ret struct {
		rs  *zlint.ResultSet
		esc string
	}
	ch := make(chan ret, 1)
	go func() {
		var r ret
		defer func() {
			if p := recover(); p != nil {
				r.esc = fmt.Sprint(p)
			}
			ch <- r
		}()
		switch t.Kind {
		case "cert":
			r.rs = zlint.LintCertificateEx(t.Cert, reg)
		case "crl":
			r.rs = zlint.LintRevocationListEx(t.CRL, reg)
		default:
			r.rs = zlint.LintOcspResponseEx(t.OCSP, reg)
		}
	}()
	select {
	case r := <-ch:
		return r.rs, r.esc, false
	case <-time.After(20 * time.Second):
		return nil, "", true
	}
}

func metaOf(reg lint.Registry, kind, name string) (lint.LintMetadata, bool) {
	switch kind {
	case "cert":
		if l := reg.CertificateLints().ByName(name); l != nil {
			return l.LintMetadata, true
		}
	case "crl":
		if l := reg.RevocationListLints().ByName(name); l != nil {
			return l.LintMetadata, true
		}
	default:
		if l := reg.OcspResponseLints().ByName(name); l != nil {
			return l.LintMetadata, true
		}
	}
	return lint.LintMetadata{}, false
}

// runDoneEvent projects one Lint*Ex call into raw facts.
func runDoneEvent(t *Target, regID string, reg lint.Registry, index map[string]int) (ev.M, *zlint.ResultSet) {
	// names are written as 1-based indices into the kind's Meta.names (an encoding, not a judgement);
	// a name that is not in Meta is reported verbatim in "extra".
	expect := []int{}
	extra := []string{}
	for _, l := range lintsOf(reg, t.Kind) {
		if ix, ok := index[l.Name]; ok {
			expect = append(expect, ix)
		} else {
			extra = append(extra, "expect:"+l.Name)
		}
	}
	rs, esc, hung := runSet(t, reg)
	m := ev.M{"ev": "RunDone", "kind": t.Kind, "id": t.ID, "reg": regID, "expect": expect,
		"escaped": esc != "", "hung": hung, "nilset": rs == nil, "panicMsg": esc}
	keys, st, metaOK, nilRes := []string{}, []int{}, []int{}, 0
	kix := []int{}
	flags := []bool{false, false, false, false}
	version := int64(-1)
	if rs != nil {
		for k := range rs.Results {
			keys = append(keys, k)
		}
		sort.Strings(keys)
		for _, k := range keys {
			r := rs.Results[k]
			if ix, ok := index[k]; ok {
				kix = append(kix, ix)
			} else {
				extra = append(extra, "key:"+k)
				continue
			}
			if r == nil {
				st, metaOK, nilRes = append(st, -3), append(metaOK, 0), nilRes+1
				continue
			}
			want, ok := metaOf(reg, t.Kind, k)
			st = append(st, int(r.Status))
			if ok && metaEqual(want, r.LintMetadata) {
				metaOK = append(metaOK, 1)
			} else {
				metaOK = append(metaOK, 0)
			}
		}
		flags = []bool{rs.NoticesPresent, rs.WarningsPresent, rs.ErrorsPresent, rs.FatalsPresent}
		version = rs.Version
	}
	m["keys"], m["st"], m["metaOK"], m["nilRes"], m["flags"], m["version"], m["extra"] = kix, st, metaOK, nilRes, flags, version, extra
	return m, rs
}

type namedReg struct {
	id  string
	reg lint.Registry
}

// filteredRegistries builds a family of registries obtainable from the global one.
func filteredRegistries(rng *rand.Rand, nRandom int) []namedReg {
	g := lint.GlobalRegistry()
	out := []namedReg{{"full", g}}
	add := func(id string, o lint.FilterOptions) {
		r, err := g.Filter(o)
		if err == nil {
			out = append(out, namedReg{id, r})
		}
	}
	srcs := g.Sources()
	sort.Sort(srcs)
	for _, s := range srcs {
		add("inc:"+string(s), lint.FilterOptions{IncludeSources: lint.SourceList{s}})
		add("exc:"+string(s), lint.FilterOptions{ExcludeSources: lint.SourceList{s}})
	}
	add("re:^e_", lint.FilterOptions{NameFilter: regexp.MustCompile("^e_")})
	add("re:^[wn]_", lint.FilterOptions{NameFilter: regexp.MustCompile("^[wn]_")})
	add("re:crl|ocsp", lint.FilterOptions{NameFilter: regexp.MustCompile("crl|ocsp")})
	names := g.Names()
	for k := 0; k < nRandom; k++ {
		n := 1 + rng.Intn(40)
		var pick []string
		for j := 0; j < n; j++ {
			pick = append(pick, names[rng.Intn(len(names))])
		}
		if k%2 == 0 {
			add(fmt.Sprintf("incnames:%d", k), lint.FilterOptions{IncludeNames: pick})
		} else {
			add(fmt.Sprintf("excnames:%d", k), lint.FilterOptions{ExcludeNames: pick})
		}
	}
	return out
}

type sweepSummary struct {
	Steered      int `json:"steered_witnesses"`
	Objects      map[string]int
	Execs        int
	RunDone      int
	StatusMixes  int
	TupleClasses int
	Samples      []ev.M
	ParserPanics int
}

// cmdSweep: C01 + C04 (+ status stream for C06): whole registry x whole corpus.
func cmdSweep(args []string) {
	parseFlags(args)
	rng := rand.New(rand.NewSource(seed))
	c := corpus.Load()
	g := lint.GlobalRegistry()
	cfg := g.GetConfiguration()
	var targets []*Target
	for _, o := range c.Certs {
		targets = append(targets, fromObj(o))
	}
	for _, o := range c.CRLs {
		targets = append(targets, fromObj(o))
	}
	for _, o := range c.OCSPs {
		targets = append(targets, fromObj(o))
	}
	if only != "" {
		var keep []*Target
		for _, t := range targets {
			if t.ID == only {
				keep = append(keep, t)
			}
		}
		targets = keep
	}
	byKind := map[string][]LintRec{}
	for _, k := range []string{"cert", "crl", "ocsp"} {
		byKind[k] = lintsOf(g, k)
	}
	index := map[string]map[string]int{}
	for k, ls := range byKind {
		index[k] = map[string]int{}
		for i, l := range ls {
			index[k][l.Name] = i + 1
		}
	}
	nrand := 6
	if tier == "thorough" {
		nrand = 40
	}
	regs := filteredRegistries(rng, nrand)

	wExec := ev.Create(out("exec.ndjson"))
	wRun := ev.Create(out("run.ndjson"))
	for _, k := range []string{"cert", "crl", "ocsp"} {
		wExec.Emit(metaEvent(k, byKind[k]))
	}
	execEv := make([]ev.M, len(targets))
	runEv := make([][]ev.M, len(targets))
	statusSeen := make([]map[string]bool, len(targets)) // lint|status
	bodySeen := make([]map[string]bool, len(targets))   // lint|status the rule body gave on a fresh instance (whatever the window said)
	tuples := make([]map[string]bool, len(targets))
	mixes := make([]map[string]bool, len(targets))
	parallel(len(targets), func(i int) {
		t := targets[i]
		ls := byKind[t.Kind]
		m, recs := execEvent(ls, allIdx(len(ls)), t, cfg)
		statusSeen[i], tuples[i], mixes[i], bodySeen[i] = map[string]bool{}, map[string]bool{}, map[string]bool{}, map[string]bool{}
		// registry-level runs
		for ri, nr := range regs {
			if tier != "thorough" && only == "" && nr.id != "full" && (i+ri)%12 != 0 {
				continue // quick: each object sees a twelfth of the filtered registries
			}
			e, rs := runDoneEvent(t, nr.id, nr.reg, index[t.Kind])
			runEv[i] = append(runEv[i], e)
			if rs != nil {
				mix := map[int]bool{}
				for _, r := range rs.Results {
					if r != nil {
						mix[int(r.Status)] = true
					}
				}
				if len(mix) >= 2 {
					var ks []int
					for s := range mix {
						ks = append(ks, s)
					}
					sort.Ints(ks)
					mixes[i][fmt.Sprint(t.Kind, ks)] = true
				}
				if nr.id == "full" {
					runSt, runDg := make([]int, len(ls)), make([]string, len(ls))
					for k, l := range ls {
						if r := rs.Results[l.Name]; r != nil {
							runSt[k], runDg[k] = int(r.Status), ev.Dg(r.Details)
						} else {
							runSt[k] = -3
						}
					}
					m["runSt"], m["runDg"] = runSt, runDg
				}
			}
		}
		if _, ok := m["runSt"]; !ok {
			m["runSt"], m["runDg"] = []int{}, []string{}
		}
		for k, r := range recs {
			statusSeen[i][fmt.Sprintf("%s|%d", ls[k].Name, r.Obs)] = true
			if r.Body >= 3 && r.Body <= 6 && r.Obs != r.Body {
				bodySeen[i][fmt.Sprintf("%s|%d", ls[k].Name, r.Body)] = true
			}
			if r.Obs != int(lint.NA) {
				tuples[i][fmt.Sprintf("%s|%s|%d|%d|%d", ls[k].Name, r.Cfg, r.Applies, r.Body, r.Obs)] = true
			}
		}
		execEv[i] = m
	})
	sum := sweepSummary{Objects: map[string]int{}}
	allStatus, allTuples, allMixes := map[string]bool{}, map[string]bool{}, map[string]bool{}
	for i, t := range targets {
		sum.Objects[t.Kind]++
		wExec.Emit(execEv[i])
		sum.Execs += len(byKind[t.Kind])
		for _, e := range runEv[i] {
			wRun.Emit(e)
			sum.RunDone++
		}
		for k := range statusSeen[i] {
			allStatus[k] = true
		}
		for k := range tuples[i] {
			allTuples[k] = true
		}
		for k := range mixes[i] {
			allMixes[k] = true
		}
	}
	wExec.Close()
	wRun.Close()
	// ---- witnesses for C06: a verdict that a rule body gave but that the framework never let through on this corpus (the object
	// is dated outside the lint's window, or outside its scope) is steered into the open - the object is re-dated to the start of
	// the lint's window (or just before its end) and run through the real framework; what is then observed joins the status stream.
	steered := 0
	want := map[string]int{} // lint|status -> index of an object whose body gave it
	for i := range targets {
		for k := range bodySeen[i] {
			if _, ok := want[k]; !ok && !allStatus[k] {
				want[k] = i
			}
		}
	}
	for k, i := range want {
		name := k[:strings.LastIndex(k, "|")]
		t := targets[i]
		var l *LintRec
		for j := range byKind[t.Kind] {
			if byKind[t.Kind][j].Name == name {
				l = &byKind[t.Kind][j]
			}
		}
		if l == nil {
			continue
		}
		var ats []time.Time
		if !l.Meta.EffectiveDate.IsZero() {
			ats = append(ats, l.Meta.EffectiveDate, l.Meta.EffectiveDate.AddDate(0, 1, 0))
		}
		if !l.Meta.IneffectiveDate.IsZero() {
			ats = append(ats, l.Meta.IneffectiveDate.Add(-time.Second))
		}
		for _, at := range ats {
			if at.Year() < 1 {
				continue
			}
			t2, _ := redate(t, at, 0)
			r := execOne(l, t2, cfg)
			allStatus[fmt.Sprintf("%s|%d", name, r.Obs)] = true
			steered++
		}
	}
	sum.Steered = steered
	sum.StatusMixes, sum.TupleClasses = len(allMixes), len(allTuples)
	// status stream for C06
	var st []string
	for k := range allStatus {
		st = append(st, k)
	}
	sort.Strings(st)
	ev.WriteJSON(out("statuses.json"), st)
	if len(execEv) > 0 {
		sum.Samples = []ev.M{compact(execEv[0]), compact(runEv[0][0])}
	}
	ev.WriteJSON(out("summary.json"), sum)
}

// compact shortens vector fields of a sample event for the evidence file.
func compact(m ev.M) ev.M {
	o := ev.M{}
	for k, v := range m {
		switch x := v.(type) {
		case []int:
			if len(x) > 6 {
				o[k] = append(append([]int{}, x[:6]...), -999)
				continue
			}
		case []string:
			if len(x) > 6 {
				o[k] = append(append([]string{}, x[:6]...), "...")
				continue
			}
		case [][]int:
			if len(x) > 6 {
				o[k] = x[:6]
				continue
			}
		case []bool:
			if len(x) > 6 {
				o[k] = x[:6]
				continue
			}
		}
		o[k] = v
	}
	return o
}

package main

import (
	"go/ast"
	"go/parser"
	"go/token"
	"math/rand"
	"net"
	"path/filepath"
	"regexp"
	"sort"
	"strconv"
	"strings"
	"time"

	"github.com/zmap/zlint/v3/lint"
	"github.com/zmap/zlint/v3/util"
	"verif/harness/internal/corpus"
	"verif/harness/internal/ev"
)

type tldEntry struct {
	Key, GTLD, Deleg, Removal string
}

var isoDate = regexp.MustCompile(`^(\d{4})-(\d{2})-(\d{2})$`)

// dateTuple: "" -> [], yyyy-mm-dd -> [y,m,d] (not validated: TLC does that), anything else -> [0]
func dateTuple(s string) []int {
	if s == "" {
		return []int{}
	}
	m := isoDate.FindStringSubmatch(s)
	if m == nil {
		return []int{0}
	}
	y, _ := strconv.Atoi(m[1])
	mo, _ := strconv.Atoi(m[2])
	d, _ := strconv.Atoi(m[3])
	return []int{y, mo, d}
}

// readTLDTable reads the delegation table from the AST of util/gtld_map.go (the map itself is unexported).
func readTLDTable() []tldEntry {
	return readTLDTableFrom(filepath.Join(corpus.Root(), "v3", "util", "gtld_map.go"))
}

func readTLDTableFrom(path string) []tldEntry {
	fset := token.NewFileSet()
	f, err := parser.ParseFile(fset, path, nil, 0)
	if err != nil {
		panic(err)
	}
	var out []tldEntry
	ast.Inspect(f, func(n ast.Node) bool {
		vs, ok := n.(*ast.ValueSpec)
		if !ok || len(vs.Names) != 1 || vs.Names[0].Name != "tldMap" || len(vs.Values) != 1 {
			return true
		}
		cl, ok := vs.Values[0].(*ast.CompositeLit)
		if !ok {
			return true
		}
		for _, el := range cl.Elts {
			kv, ok := el.(*ast.KeyValueExpr)
			if !ok {
				continue
			}
			e := tldEntry{}
			if bl, ok := kv.Key.(*ast.BasicLit); ok {
				e.Key, _ = strconv.Unquote(bl.Value)
			}
			if inner, ok := kv.Value.(*ast.CompositeLit); ok {
				for _, fe := range inner.Elts {
					fkv, ok := fe.(*ast.KeyValueExpr)
					if !ok {
						continue
					}
					name := fkv.Key.(*ast.Ident).Name
					val := ""
					if bl, ok := fkv.Value.(*ast.BasicLit); ok {
						val, _ = strconv.Unquote(bl.Value)
					}
					switch name {
					case "GTLD":
						e.GTLD = val
					case "DelegationDate":
						e.Deleg = val
					case "RemovalDate":
						e.Removal = val
					}
				}
			}
			out = append(out, e)
		}
		return false
	})
	return out
}

func mixCase(s string) string {
	b := []byte(s)
	for i := range b {
		if i%2 == 0 && b[i] >= 'a' && b[i] <= 'z' {
			b[i] -= 32
		}
	}
	return string(b)
}

// cmdTLD: C18.
func cmdTLD(args []string) {
	parseFlags(args)
	rng := rand.New(rand.NewSource(seed))
	tbl := readTLDTable()
	sort.Slice(tbl, func(i, j int) bool { return tbl[i].Key < tbl[j].Key })
	w := ev.Create(out("tld.ndjson"))
	keys, lower, gt := []string{}, []string{}, []string{}
	del, rem := [][]int{}, [][]int{}
	for _, e := range tbl {
		keys, lower, gt = append(keys, e.Key), append(lower, strings.ToLower(e.Key)), append(gt, e.GTLD)
		del, rem = append(del, dateTuple(e.Deleg)), append(rem, dateTuple(e.Removal))
	}
	w.Emit(ev.M{"ev": "TLDTable", "keys": keys, "keysLower": lower, "gtld": gt, "deleg": del, "removal": rem})
	parseDay := func(s string) (time.Time, bool) {
		t, err := time.Parse("2006-01-02", s)
		return t, err == nil
	}
	// lint template: a subscriber certificate in BR scope on which the TLD lint passes
	g := lint.GlobalRegistry()
	cfg := g.GetConfiguration()
	var tl *LintRec
	for _, l := range lintsOf(g, "cert") {
		if l.Name == "e_dnsname_not_valid_tld" {
			l := l
			tl = &l
		}
	}
	c := corpus.Load()
	var tmpl *Target
	if tl != nil {
		for _, o := range c.Certs {
			if r := execOne(tl, fromObj(o), cfg); r.Obs == 3 && len(o.Cert.DNSNames) > 0 && !o.Cert.IsCA {
				tmpl = fromObj(o)
				break
			}
		}
	}
	boundaryHits := 0
	nprobes, nlint := 0, 0
	lintProbe := func(i int, name string, dot bool, at time.Time) {
		if tmpl == nil {
			return
		}
		for v := 0; v < 4; v++ {
			cp := *tmpl.Cert
			cp.NotBefore = at
			cp.NotAfter = at.Add(90 * 24 * time.Hour)
			cnProbe, sanProbe, cnIsIP, sub := false, false, false, true
			switch v {
			case 0:
				cp.Subject.CommonName, cp.DNSNames = "www.example.com", []string{"www.example.com", name}
				sanProbe = true
			case 1:
				cp.Subject.CommonName, cp.DNSNames = name, []string{"www.example.com"}
				cnProbe = true
			case 2:
				cp.Subject.CommonName, cp.DNSNames = "192.0.2.7", []string{name, "example.com"}
				sanProbe, cnIsIP = true, true
			case 3:
				cp.Subject.CommonName, cp.DNSNames = name, []string{name}
				cp.IsCA, cp.BasicConstraintsValid = true, true
				cnProbe, sanProbe, sub = true, true, false
			}
			cnIsIP = net.ParseIP(cp.Subject.CommonName) != nil // the exemption is for a common name that is an IP address (and for nothing else)
			r := execOne(tl, &Target{Kind: "cert", ID: "tld", Cert: &cp}, cfg)
			w.Emit(ev.M{"ev": "TLDLint", "i": i, "name": name, "dot": dot, "t": ev.Inst(at), "cnProbe": cnProbe, "sanProbe": sanProbe, "cnIsIP": cnIsIP,
				"subscriber": sub, "eff": ev.Inst(tl.Meta.EffectiveDate), "ineff": ev.Inst(tl.Meta.IneffectiveDate), "status": r.Obs})
			nlint++
		}
	}
	probe := func(i int, label string, dates []time.Time) {
		var ts [][]int64
		var dots, valid, inmap []bool
		shapes := []struct {
			pre string
			cs  int
			dot bool
		}{{"", 0, false}, {"www.", 0, false}, {"a.b.c.", 1, false}, {"", 2, false}, {"www.", 0, true}, {"*.", 0, false}, {"", 1, true}}
		for _, at := range dates {
			for _, sh := range shapes {
				lab := label
				switch sh.cs {
				case 1:
					lab = strings.ToUpper(label)
				case 2:
					lab = mixCase(label)
				}
				name := sh.pre + lab
				if sh.dot {
					name += "."
				}
				ts, dots, valid = append(ts, ev.Inst(at)), append(dots, sh.dot), append(valid, util.HasValidTLD(name, at))
				nprobes++
			}
		}
		for _, lab := range []string{label, strings.ToUpper(label), mixCase(label)} {
			inmap = append(inmap, util.IsInTLDMap(lab))
		}
		w.Emit(ev.M{"ev": "Probe", "i": i, "label": label, "t": ts, "dot": dots, "valid": valid, "inmap": inmap})
	}
	far := []time.Time{time.Date(1970, 1, 1, 0, 0, 0, 0, time.UTC), time.Date(2100, 6, 1, 12, 0, 0, 0, time.UTC)}
	for idx, e := range tbl {
		dates := append([]time.Time{}, far...)
		if d, ok := parseDay(e.Deleg); ok {
			dates = append(dates, d.Add(-time.Second), d, d.Add(time.Second), d.Add(12*time.Hour).In(time.FixedZone("", 5*3600)))
			boundaryHits++
			if tier == "thorough" || idx%4 == int(seed)%4 {
				lintProbe(idx+1, "host."+e.Key, false, d.Add(-time.Second))
				lintProbe(idx+1, "host."+mixCase(e.Key), false, d)
			}
		}
		if d, ok := parseDay(e.Removal); ok && e.Removal != "" {
			dates = append(dates, d.Add(-time.Second), d, d.Add(time.Second), d.Add(24*time.Hour))
			lintProbe(idx+1, "host."+e.Key, false, d)
			lintProbe(idx+1, "host."+e.Key, false, d.Add(time.Second))
			lintProbe(idx+1, e.Key+".", true, d.Add(-time.Hour))
		}
		probe(idx+1, e.Key, dates)
	}
	// labels that are in no table
	for _, lab := range []string{"notatld", "local", "internal", "corp", "c0m", "example", "co-m", "xn--zzzzzz", "", "123"} {
		probe(0, lab, []time.Time{far[1], time.Date(2020, 1, 1, 0, 0, 0, 0, time.UTC)})
		lintProbe(0, "host."+lab, false, time.Date(2020, 1, 1, 0, 0, 0, 0, time.UTC))
	}
	// look-alikes of table keys that are not table keys: the comparison is case-insensitive and nothing else - no compatibility
	// folding (full-width letters, the roman numeral m), no removal of ignorable code points (soft hyphen, zero width space),
	// no other full stop than '.' (a label containing an ideographic full stop is one label)
	var alike []string
	for idx, e := range tbl {
		k := e.Key
		if k == "" || strings.ToLower(k) != k || strings.HasPrefix(k, "xn--") || !(k == "com" || k == "net" || k == "org" || k == "de" || idx%97 == int(seed)%97) {
			continue
		}
		ascii := true
		var fw []rune
		for _, r := range k {
			if r < 'a' || r > 'z' {
				ascii = false
				break
			}
			fw = append(fw, r-'a'+0xff41)
		}
		if !ascii {
			continue
		}
		alike = append(alike, string(fw), k[:1]+"\u00ad"+k[1:], k[:len(k)-1]+"\u200b"+k[len(k)-1:], "example\u3002"+k, "example\uff0e"+k)
		if strings.HasSuffix(k, "m") {
			alike = append(alike, k[:len(k)-1]+"\u217f")
		}
	}
	for _, lab := range alike {
		probe(0, lab, []time.Time{far[1], time.Date(2020, 1, 1, 0, 0, 0, 0, time.UTC)})
		lintProbe(0, "host."+lab, false, time.Date(2020, 1, 1, 0, 0, 0, 0, time.UTC))
	}
	// names that read as IP addresses: as a dNSName they are names like any other (their right-most label is in no table);
	// only a common name that is an IP address is exempt
	for _, lit := range []string{"192.168.1.10", "10.0.0.1", "8.8.8.8", "2001:db8::1", "::1", "1.2.3.4.5", "256.1.1.1",
		// texts that some address parsers accept and net.ParseIP does not: zones, ports, brackets, leading zeros
		"fe80::1%gw.corp", "::1%intranet.lan", "fe80::1%eth0", "[2001:db8::1]", "192.0.2.1:443", "010.001.002.003", "192.0.2.1.", "0x7f.1", "::ffff:192.0.2.1%x.y"} {
		lintProbe(0, lit, false, time.Date(2020, 1, 1, 0, 0, 0, 0, time.UTC))
	}
	_ = rng
	n := w.N
	w.Close()
	ev.WriteJSON(out("summary.json"), ev.M{"entries": len(tbl), "probes": nprobes, "lint_runs": nlint, "boundary_entries": boundaryHits, "lookalike_labels": len(alike), "events": n,
		"template": tmpl != nil, "sample": ev.M{"ev": "Probe", "label": tbl[len(tbl)/2].Key, "deleg": tbl[len(tbl)/2].Deleg, "removal": tbl[len(tbl)/2].Removal}})
}

package main

// validity: the Validity rule family as a fidelity oracle.  Subscriber (TLS, EV) templates are given notBefore on
// awkward civil dates (month ends, leap day, the rules' effective dates) and notAfter around every limit to the second;
// the validity-period lints judge them; Trace_Validity recomputes Validity!Finds from the two instants.
import (
	"time"

	"github.com/zmap/zlint/v3/lint"
	"verif/harness/internal/corpus"
	"verif/harness/internal/ev"
	"verif/harness/internal/forge"
)

func cmdValidity(args []string) {
	parseFlags(args)
	c := corpus.Load()
	g := lint.GlobalRegistry()
	cfg := g.GetConfiguration()
	names := []string{"e_tls_server_cert_valid_time_longer_than_398_days", "w_tls_server_cert_valid_time_longer_than_397_days", "e_sub_cert_valid_time_longer_than_825_days",
		"e_sub_cert_valid_time_longer_than_39_months", "e_ev_valid_time_too_long", "e_validity_time_not_positive"}
	var ls []*LintRec
	for _, l := range lintsOf(g, "cert") {
		for _, n := range names {
			if l.Name == n {
				l := l
				ls = append(ls, &l)
			}
		}
	}
	// templates: a TLS subscriber certificate and an EV one
	var tmpls []*forge.Cert
	var tids []string
	for _, want := range []func(o *corpus.Obj) bool{
		func(o *corpus.Obj) bool {
			return !o.Cert.IsCA && len(o.Cert.DNSNames) > 0 && len(o.Cert.PolicyIdentifiers) > 0
		},
		func(o *corpus.Obj) bool {
			for _, p := range o.Cert.PolicyIdentifiers {
				if p.String() == "2.23.140.1.1" {
					return !o.Cert.IsCA
				}
			}
			return false
		}} {
		for _, o := range c.Certs {
			if want(o) {
				if fc, err := forge.ParseCert(o.DER); err == nil {
					tmpls, tids = append(tmpls, fc), append(tids, o.ID)
					break
				}
			}
		}
	}
	starts := []time.Time{}
	for _, d := range [][3]int{{2016, 11, 30}, {2017, 1, 31}, {2016, 7, 2}, {2017, 5, 31}, {2018, 3, 2}, {2019, 12, 31}, {2020, 2, 29}, {2020, 9, 1}, {2021, 1, 31}, {2023, 3, 31}, {2024, 2, 29}, {2015, 8, 31}} {
		for _, clock := range [][3]int{{0, 0, 0}, {23, 59, 59}, {12, 30, 1}} {
			starts = append(starts, time.Date(d[0], time.Month(d[1]), d[2], clock[0], clock[1], clock[2], 0, time.UTC))
		}
	}
	w := ev.Create(out("validity.ndjson"))
	n := 0
	for ti, tp := range tmpls {
		for _, nb := range starts {
			var ends []time.Time
			for _, days := range []int{1, 30, 396, 397, 398, 399, 824, 825, 826} {
				for _, ds := range []int{-2, -1, 0, 1} {
					ends = append(ends, nb.Add(time.Duration(days)*24*time.Hour+time.Duration(ds)*time.Second))
				}
			}
			for _, months := range []int{27, 39} {
				base := nb.AddDate(0, months, 0)
				for _, ds := range []int{-86400, -1, 0, 1, 86400} {
					ends = append(ends, base.Add(time.Duration(ds)*time.Second))
				}
			}
			ends = append(ends, nb.Add(-time.Second), nb)
			for _, na := range ends {
				v := tp.Clone()
				v.SetNotBefore(nb)
				v.SetNotAfter(na)
				cert, ok, _ := corpus.ParseCert(v.Bytes())
				if !ok {
					continue
				}
				t := &Target{Kind: "cert", ID: tids[ti], DER: v.Bytes(), Cert: cert}
				ln, st := []string{}, []int{}
				for _, l := range ls {
					r := execOne(l, t, cfg)
					ln, st = append(ln, l.Name), append(st, r.Obs)
				}
				w.Emit(ev.M{"ev": "Validity", "tpl": tids[ti], "nb": ev.Inst(cert.NotBefore), "na": ev.Inst(cert.NotAfter), "lints": ln, "st": st})
				n++
			}
		}
	}
	w.Close()
	ev.WriteJSON(out("summary.json"), ev.M{"events": n, "templates": tids, "lints": len(ls)})
}

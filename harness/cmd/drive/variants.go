package main

import (
	"bytes"
	"crypto/ecdsa"
	"crypto/elliptic"
	crand "crypto/rand"
	"crypto/rsa"
	"crypto/sha1"
	"crypto/sha256"
	stdx509 "crypto/x509"
	"crypto/x509/pkix"
	"encoding/asn1"
	"encoding/hex"
	"fmt"
	"math/big"
	"math/rand"
	"sort"
	"strings"
	"time"

	"github.com/zmap/zlint/v3/lint"
	"verif/harness/internal/corpus"
	"verif/harness/internal/ev"
	"verif/harness/internal/forge"
)

func parseVariant(base *Target, fc *forge.Cert) *Target {
	der := fc.Bytes()
	c, ok, _ := corpus.ParseCert(der)
	if !ok {
		return nil
	}
	// A self-issued certificate that is edited would have to be signed again to stay self-signed; there is no key to do
	// that with, so the parser's self-signature verdict is carried over on the parsed object (the API takes parsed objects).
	c.SelfSigned = base.Cert.SelfSigned
	return &Target{Kind: "cert", ID: base.ID, DER: der, Cert: c}
}

func permsOf(n int, rng *rand.Rand, max int) [][]int {
	var out [][]int
	id := make([]int, n)
	for i := range id {
		id[i] = i
	}
	if n <= 4 {
		var rec func(a []int, k int)
		rec = func(a []int, k int) {
			if k == len(a) {
				out = append(out, append([]int{}, a...))
				return
			}
			for i := k; i < len(a); i++ {
				a[k], a[i] = a[i], a[k]
				rec(a, k+1)
				a[k], a[i] = a[i], a[k]
			}
		}
		rec(append([]int{}, id...), 0)
		return out[1:] // without the identity
	}
	rev := make([]int, n)
	for i := range rev {
		rev[i] = n - 1 - i
	}
	out = append(out, rev)
	for _, r := range []int{1, n / 2, n - 1} {
		rot := make([]int, n)
		for i := range rot {
			rot[i] = (i + r) % n
		}
		out = append(out, rot)
	}
	for k := 0; k < max; k++ {
		out = append(out, rng.Perm(n))
	}
	return out
}

// cmdOrder: C17 - permutations of SAN entries and of the extension list; statuses only.
func cmdOrder(args []string) {
	parseFlags(args)
	rng := rand.New(rand.NewSource(seed))
	c := corpus.Load()
	var objs []*Target
	for _, o := range c.Certs {
		objs = append(objs, fromObj(o))
	}
	// ---- vocabulary: every distinct general name of every corpus SAN (raw TLV)
	type gname struct {
		raw []byte
		tag byte
	}
	vocabSeen := map[string]bool{}
	var vocab []gname
	forged := map[string]*forge.Cert{}
	for _, t := range objs {
		fc, err := forge.ParseCert(t.DER)
		if err != nil {
			continue
		}
		forged[t.ID] = fc
		for _, n := range fc.NamesOfExt(forge.OIDSAN) {
			b := n.Bytes()
			if !vocabSeen[string(b)] && len(b) < 400 {
				vocabSeen[string(b)] = true
				vocab = append(vocab, gname{b, n.Tag()})
			}
		}
	}
	// hand-made names of the classes the property lists (unparseable for the PSL, empty labels, odd characters...)
	for _, s := range []string{"a..example.com", ".example.com", "example.com.", "*.com", "*", "xn--", "a_b.example.com", "_x.sub.example.com", "ex--ample.com",
		"-a.example.com", "a-.example.com", "co.uk", "localhost", "example", "foo.bar.invalid-tld-zzz", " space.example.com", "a\x00b.example.com",
		"com", "*.*.example.com", "www.*.example.com", "1.2.3.4", "xn--bcher-kva.example.com", "xn--zz-zz.example.com", "verylonglabel" + string(bytes.Repeat([]byte("x"), 60)) + ".example.com"} {
		b := forge.GN(forge.GNDNS, []byte(s)).Bytes()
		if !vocabSeen[string(b)] {
			vocabSeen[string(b)] = true
			vocab = append(vocab, gname{b, forge.GNDNS})
		}
	}
	h := newHistory(objs)
	h.statusOnly = true
	sanVariants, extVariants, planted, behaviourClasses := 0, 0, 0, 0
	nonTrivial := map[int]bool{}
	for oi, t := range objs {
		if only != "" && t.ID != only {
			continue
		}
		fc := forged[t.ID]
		if fc == nil {
			continue
		}
		did := false
		// (1) SAN entries
		names := fc.NamesOfExt(forge.OIDSAN)
		if len(names) >= 2 {
			ext := fc.FindExt(forge.OIDSAN)
			crit := len(ext.Children) == 3
			for _, p := range permsOf(len(names), rng, 3) {
				v := fc.Clone()
				var nn []*forge.Node
				for _, i := range p {
					nn = append(nn, names[i].Clone())
				}
				// keep the extension where it is: only the order of its entries changes
				for _, x := range v.Exts().Children {
					if forge.ExtOID(x) == forge.OIDSAN {
						forge.ExtValue(x).Content = forge.GeneralNames(nn...).Bytes()
					}
				}
				_ = crit
				if vt := parseVariant(t, v); vt != nil {
					if !did {
						h.lint(oi, 0, "original", false)
						did = true
					}
					h.lintTarget(oi, vt, 0, fmt.Sprintf("san-perm%v", p), false)
					sanVariants++
				}
			}
		}
		// (2) extension list (certificates without a duplicated extension)
		if exts := fc.Exts(); exts != nil && len(exts.Children) >= 2 {
			seen := map[string]bool{}
			dup := false
			for _, x := range exts.Children {
				if seen[forge.ExtOID(x)] {
					dup = true
				}
				seen[forge.ExtOID(x)] = true
			}
			if !dup {
				nperm := 1
				if tier == "thorough" {
					nperm = 4
				}
				for _, p := range permsOf(len(exts.Children), rng, nperm) {
					v := fc.Clone()
					ve := v.Exts()
					var nn []*forge.Node
					for _, i := range p {
						nn = append(nn, exts.Children[i].Clone())
					}
					ve.Children = nn
					if vt := parseVariant(t, v); vt != nil {
						if !did {
							h.lint(oi, 0, "original", false)
							did = true
						}
						h.lintTarget(oi, vt, 0, fmt.Sprintf("ext-perm%v", p), false)
						extVariants++
					}
				}
			}
		}
		if did {
			nonTrivial[oi] = true
		}
	}
	// (2b) sibling names: next to a dNSName of the certificate its own sub-domain (www.<name>) and its parent, in every order -
	// names that share a registrable domain are where a rule that groups names by domain lets one name decide for another.
	// Each extended list is a memo segment of its own.
	sibSeg := len(h.objs)
	siblings := 0
	for oi, t := range objs {
		if only != "" && only != "siblings:"+t.ID {
			continue
		}
		fc := forged[t.ID]
		if fc == nil || fc.FindExt(forge.OIDSAN) == nil {
			continue
		}
		names := fc.NamesOfExt(forge.OIDSAN)
		var dns *forge.Node
		for _, n := range names {
			if n.Tag() == forge.GNDNS && bytes.Count(n.Body(), []byte(".")) >= 1 && len(n.Body()) < 100 {
				dns = n
			}
		}
		onion := dns != nil && bytes.HasSuffix(dns.Body(), []byte(".onion"))
		if dns == nil || len(names) > 3 || (!onion && only == "" && oi%5 != int(seed)%5) {
			continue
		}
		ext := append([]*forge.Node{}, names...)
		ext = append(ext, forge.GN(forge.GNDNS, append([]byte("www."), dns.Body()...)))
		if labels := bytes.SplitN(dns.Body(), []byte("."), 2); len(labels) == 2 && bytes.Count(labels[1], []byte(".")) >= 1 {
			ext = append(ext, forge.GN(forge.GNDNS, labels[1]))
		}
		for cnMode := 0; cnMode < 3; cnMode++ {
			if cnMode >= 1 && !onion {
				break // (onion certificates also with a common name that is no host name - the common name is judged last of all
				// names - and, third, asserting the EV policy as well: the EV rules about onion names are stricter)
			}
			first := true
			mkv := func(p []int) *Target {
				v := fc.Clone()
				if cnMode >= 1 {
					forge.SetAttr(v.Subject(), "2.5.4.3", 0x0c, []byte("Example Service"))
				}
				if cnMode == 2 {
					v.SetExt("2.5.29.32", forge.MakeExt(forge.OID(2, 5, 29, 32), false, forge.Cons(0x10, forge.Cons(0x10, forge.OID(2, 23, 140, 1, 1))).Bytes()))
				}
				var nn []*forge.Node
				for _, i := range p {
					nn = append(nn, ext[i].Clone())
				}
				for _, x := range v.Exts().Children {
					if forge.ExtOID(x) == forge.OIDSAN {
						forge.ExtValue(x).Content = forge.GeneralNames(nn...).Bytes()
					}
				}
				return parseVariant(t, v)
			}
			id := make([]int, len(ext))
			for k := range id {
				id[k] = k
			}
			for _, p := range append([][]int{id}, permsOf(len(ext), rng, 2)...) {
				vt := mkv(p)
				if vt == nil {
					continue
				}
				vt.ID = "siblings:" + t.ID
				if first {
					h.objs = append(h.objs, vt)
					first = false
				}
				h.lintTarget(sibSeg, vt, 0, fmt.Sprintf("sibling-names%v", p), false)
				siblings++
			}
			if !first {
				sibSeg++
			}
		}
	}
	sanVariants += siblings
	// (2c) malformed twins: next to an entry of the list a second entry of the same kind whose value is malformed (an otherName whose
	// inner value is an OCTET STRING, a host name with an empty label, a mailbox without '@', a URI with a space), before the
	// list, behind it and in the middle: a rule that stops at the first entry it likes never sees the malformed one behind it.
	twins := 0
	for oi, t := range objs {
		if only != "" && only != "twin:"+t.ID {
			continue
		}
		fc := forged[t.ID]
		if fc == nil || fc.FindExt(forge.OIDSAN) == nil {
			continue
		}
		names := fc.NamesOfExt(forge.OIDSAN)
		if len(names) == 0 || len(names) > 4 {
			continue
		}
		doneTag := map[byte]bool{}
		for _, nm := range names {
			tag := nm.Tag()
			if doneTag[tag] {
				continue
			}
			doneTag[tag] = true
			if tag != 0xa0 && only == "" && oi%4 != int(seed)%4 {
				continue // (otherNames are rare in the corpus: every one of them gets its twin)
			}
			var twin *forge.Node
			switch tag {
			case 0xa0: // otherName ::= SEQUENCE { type-id OID, value [0] EXPLICIT ANY }
				tw := nm.Clone()
				if len(tw.Children) == 2 && len(tw.Children[1].Children) == 1 && tw.Children[1].Children[0].Children == nil {
					inner := tw.Children[1].Children[0]
					inner.Id[0] = 0x04 // an OCTET STRING where a string is expected: undecodable for every reader of the value
					inner.Content = append([]byte("twin."), inner.Content...)
					twin = tw
				}
			case forge.GNDNS:
				twin = forge.GN(tag, append([]byte("twin.."), nm.Body()...))
			case 0x81:
				twin = forge.GN(tag, bytes.ReplaceAll(append([]byte("twin."), nm.Body()...), []byte("@"), []byte(".")))
			case 0x86:
				twin = forge.GN(tag, append([]byte("twin ://"), nm.Body()...))
			}
			if twin == nil {
				continue
			}
			n := len(names)
			orders := [][]*forge.Node{append(append([]*forge.Node{}, names...), twin), append([]*forge.Node{twin}, names...)}
			if n >= 2 {
				orders = append(orders, append(append(append([]*forge.Node{}, names[:1]...), twin), names[1:]...))
			}
			first := true
			for k, o := range orders {
				v := fc.Clone()
				var nn []*forge.Node
				for _, x := range o {
					nn = append(nn, x.Clone())
				}
				for _, x := range v.Exts().Children {
					if forge.ExtOID(x) == forge.OIDSAN {
						forge.ExtValue(x).Content = forge.GeneralNames(nn...).Bytes()
					}
				}
				vt := parseVariant(t, v)
				if vt == nil {
					continue
				}
				vt.ID = "twin:" + t.ID
				if first {
					h.objs = append(h.objs, vt)
					first = false
				}
				h.lintTarget(sibSeg, vt, 0, fmt.Sprintf("malformed-twin-of-tag-%02x:order%d", tag, k), false)
				twins++
			}
			if !first {
				sibSeg++
			}
		}
	}
	sanVariants += twins
	// (3) planted names: every unordered pair {X, Y} of the vocabulary, in both orders, on subscriber templates
	var templates []int
	for oi, t := range objs {
		if len(templates) >= 3 {
			break
		}
		if !t.Cert.IsCA && len(t.Cert.DNSNames) >= 1 && forged[t.ID] != nil && forged[t.ID].FindExt(forge.OIDSAN) != nil && certFacts(t.Cert).Unk == 0 {
			rs, _, _ := runSet(t, h.g)
			if rs != nil && !rs.ErrorsPresent && len(t.Cert.PolicyIdentifiers) > 0 {
				templates = append(templates, oi)
			}
		}
	}
	if only == "" || only == "planted" {
		sort.Slice(vocab, func(i, j int) bool { return bytes.Compare(vocab[i].raw, vocab[j].raw) < 0 })
		V := len(vocab)
		pairs := 1200
		if tier == "thorough" {
			pairs = 60000
		}
		seg := len(h.objs)
		base := objs[templates[0]]
		fcb := forged[base.ID]
		// dated after every effective date of the registry, so that no rule is silent only because the template is old - or, with
		// early set, in late 2020: inside the window of the rules that have since been retired (ineffective dates 2021 and later)
		early := false
		cnOverride := ""
		mk := func(order []int) *Target {
			v := fcb.Clone()
			if cnOverride != "" {
				if !forge.SetAttr(v.Subject(), "2.5.4.3", 0x0c, []byte(cnOverride)) {
					forge.AddAttr(v.Subject(), forge.OID(2, 5, 4, 3), 0x0c, []byte(cnOverride))
				}
			}
			if early {
				v.SetNotBefore(time.Date(2020, 10, 1, 0, 0, 0, 0, time.UTC))
				v.SetNotAfter(time.Date(2020, 12, 30, 0, 0, 0, 0, time.UTC))
			} else {
				v.SetNotBefore(time.Date(2024, 3, 1, 0, 0, 0, 0, time.UTC))
				v.SetNotAfter(time.Date(2024, 5, 30, 0, 0, 0, 0, time.UTC))
			}
			var nn []*forge.Node
			for _, x := range order {
				nn = append(nn, forge.Raw(vocab[x].raw))
			}
			for _, x := range v.Exts().Children {
				if forge.ExtOID(x) == forge.OIDSAN {
					forge.ExtValue(x).Content = forge.GeneralNames(nn...).Bytes()
				}
			}
			vt := parseVariant(base, v)
			if vt != nil {
				vt.ID = "planted"
			}
			return vt
		}
		statusVec := func(t *Target) string {
			rs, _, _ := runSet(t, h.g)
			if rs == nil {
				return "nil"
			}
			ks := make([]string, 0, len(rs.Results))
			for k, r := range rs.Results {
				ks = append(ks, fmt.Sprintf("%s=%d", k, r.Status))
			}
			sort.Strings(ks)
			return fmt.Sprint(ks)
		}
		// which names change anything when planted alone (selection of inputs only - no verdict is derived from this)
		classOf := map[string][]int{}
		for i := 0; i < V; i++ {
			if t := mk([]int{i}); t != nil {
				sv := statusVec(t)
				classOf[sv] = append(classOf[sv], i)
			}
		}
		// one representative (two if available) of every behaviour class: all pairs among them, both orders
		var reps []int
		for _, members := range classOf {
			reps = append(reps, members[0])
			if len(members) > 1 {
				reps = append(reps, members[len(members)-1])
			}
		}
		sort.Ints(reps)
		type pr struct{ i, j int }
		var plan []pr
		for a := 0; a < len(reps); a++ {
			for b2 := a + 1; b2 < len(reps); b2++ {
				plan = append(plan, pr{reps[a], reps[b2]})
			}
		}
		// every pair of class representatives is planted (that is where "NA at the first name of one class, finding at the first of
		// another" shows); the budget only limits the random pairs added on top
		if len(plan) > pairs && len(plan) <= 8000 {
			pairs = len(plan)
		}
		rng.Shuffle(len(plan), func(a, b2 int) { plan[a], plan[b2] = plan[b2], plan[a] })
		// suffix-alike pairs, always planted: a name under a delegated TLD next to a name whose right-most label is no TLD but
		// ENDS in the letters of that TLD (example.al / host.internal, example.me / router.home): a rule that carries anything
		// over from the name before - a remembered suffix, a prefix of a sorted list - shows exactly on such neighbours
		var alike []pr
		byName := map[string]int{}
		for i, vn := range vocab {
			if vn.tag == forge.GNDNS {
				byName[string(forge.Raw(vn.raw).Body())] = i
			}
		}
		nameIdx := func(sname string) int {
			if i, ok := byName[sname]; ok {
				return i
			}
			vocab = append(vocab, gname{forge.GN(forge.GNDNS, []byte(sname)).Bytes(), forge.GNDNS})
			byName[sname] = len(vocab) - 1
			return len(vocab) - 1
		}
		tlds := readTLDTable()
		for _, lab := range []string{"internal", "local", "home", "test", "invalid", "lan", "corp", "localdomain", "intranet", "example"} {
			for _, e := range tlds {
				if k := e.Key; len(k) >= 2 && len(k) < len(lab) && strings.HasSuffix(lab, k) && e.Removal == "" && len(alike) < 24 {
					alike = append(alike, pr{nameIdx("portal.example." + k), nameIdx("host." + lab)})
				}
			}
		}
		V = len(vocab)
		plan = append(alike, plan...)
		pairs += len(alike)
		for len(plan) < pairs {
			plan = append(plan, pr{rng.Intn(V), rng.Intn(V)})
		}
		if len(plan) > pairs {
			plan = plan[:pairs]
		}
		for k, p := range plan {
			if p.i == p.j {
				continue
			}
			early = k%3 == 2 // every third pair is judged by the retired rules as well
			a, b2 := mk([]int{p.i, p.j}), mk([]int{p.j, p.i})
			if a == nil || b2 == nil {
				continue
			}
			h.objs = append(h.objs, a)
			h.lintTarget(seg, a, 0, fmt.Sprintf("planted[%d,%d]", p.i, p.j), false)
			h.lintTarget(seg, b2, 0, fmt.Sprintf("planted[%d,%d]", p.j, p.i), false)
			seg++
			if k%6 == 0 {
				t3 := reps[rng.Intn(len(reps))]
				if c3, d3 := mk([]int{p.i, p.j, t3}), mk([]int{t3, p.j, p.i}); c3 != nil && d3 != nil {
					h.objs = append(h.objs, c3)
					h.lintTarget(seg, c3, 0, fmt.Sprintf("planted[%d,%d,%d]", p.i, p.j, t3), false)
					h.lintTarget(seg, d3, 0, fmt.Sprintf("planted[%d,%d,%d]", t3, p.j, p.i), false)
					seg++
				}
			}
			planted++
		}
		behaviourClasses = len(classOf)
		// (4) long lists (16 names and more) in telling orders: ascending by bytes, descending, ascending with the ends swapped, random.
		// A rule that takes a short cut for big or sorted lists must still judge the set.  The lists hold plain names, the template's
		// common name in another letter case (with and without the exact common name) and representatives of the behaviour classes.
		cn := "shop.long-list.example.com" // the common name of the long-list certificates
		cnOverride = cn
		addV := func(sname string) int {
			b := forge.GN(forge.GNDNS, []byte(sname)).Bytes()
			vocab = append(vocab, gname{b, forge.GNDNS})
			return len(vocab) - 1
		}
		var plain []int
		for k := 0; k < 40; k++ {
			plain = append(plain, addV(fmt.Sprintf("%c%02d.long-list.example.com", 'a'+byte(k%26), k)))
		}
		upperCN, mixedCN, exactCN := -1, -1, -1
		if cn != "" && strings.Contains(cn, ".") {
			upperCN, exactCN = addV(strings.ToUpper(cn)), addV(cn)
			mixedCN = addV(strings.ToUpper(cn[:1]) + cn[1:])
		}
		early = false
		nlong := 0
		longList := func(tag string, members []int) {
			var clean []int
			for _, m := range members {
				if m >= 0 {
					clean = append(clean, m)
				}
			}
			asc := append([]int{}, clean...)
			sort.Slice(asc, func(a, b2 int) bool {
				return bytes.Compare(forge.Raw(vocab[asc[a]].raw).Body(), forge.Raw(vocab[asc[b2]].raw).Body()) < 0
			})
			desc := make([]int, len(asc))
			for k := range asc {
				desc[len(asc)-1-k] = asc[k]
			}
			swapped := append([]int{}, asc...)
			swapped[0], swapped[len(swapped)-1] = swapped[len(swapped)-1], swapped[0]
			orders := [][]int{asc, desc, swapped}
			for k := 0; k < 2; k++ {
				r := append([]int{}, asc...)
				rng.Shuffle(len(r), func(a, b2 int) { r[a], r[b2] = r[b2], r[a] })
				orders = append(orders, r)
			}
			first := true
			for oi2, o := range orders {
				t := mk(o)
				if t == nil {
					continue
				}
				if first {
					h.objs = append(h.objs, t)
					first = false
				}
				h.lintTarget(seg, t, 0, fmt.Sprintf("long-list:%s:%d-names:order%d", tag, len(o), oi2), false)
				nlong++
			}
			if !first {
				seg++
			}
		}
		for _, n := range []int{15, 16, 17, 24, 39, 16, 24} {
			early = !early
			longList("plain+UPPER-CN", append(append([]int{}, plain[:n]...), upperCN))
			longList("plain+exact-CN", append(append([]int{}, plain[:n]...), exactCN))
			longList("plain+Mixed-CN+UPPER-CN", append(append([]int{}, plain[:n]...), mixedCN, upperCN))
		}
		for k, r := range reps {
			if k%3 != int(seed)%3 && tier != "thorough" {
				continue
			}
			early = k%2 == 0
			longList(fmt.Sprintf("plain+class-representative-%d", r), append(append([]int{}, plain[:17]...), r, upperCN))
		}
		planted += nlong
	}
	n := h.write(out("history.ndjson"))
	withFinding := 0
	for _, o := range h.obs {
		for _, s := range o.st {
			if s >= 4 && s <= 6 {
				withFinding++
				break
			}
		}
	}
	var sample ev.M
	if len(h.obs) > 1 {
		o := h.obs[1]
		sample = ev.M{"tag": o.tag, "st": o.st[:min(8, len(o.st))]}
	}
	ev.WriteJSON(out("summary.json"), ev.M{"events": n, "lint_calls": h.nLint, "san_variants": sanVariants, "ext_variants": extVariants, "planted_pairs": planted,
		"vocabulary": len(vocab), "behaviour_classes": behaviourClasses, "bases": len(nonTrivial), "observations_with_finding": withFinding, "templates": len(templates), "sample": sample,
		"objects": len(objs), "pairs_with_details": withFinding})
	_ = lint.NA
}

// cmdSig: C09 - the signature bits replaced, everything else untouched.
func cmdSig(args []string) {
	parseFlags(args)
	rng := rand.New(rand.NewSource(seed))
	c := corpus.Load()
	var objs []*Target
	for _, o := range c.Certs {
		objs = append(objs, fromObj(o))
	}
	// certificates signed with their own key under another issuer name (issuer # subject, AKI = own SKI): not self-issued,
	// so inside the property's quantifier, and the only ones on which a signature check could succeed
	objs = append(objs, generatedSelfSignedNotSelfIssued()...)
	// certificates whose outer signatureAlgorithm differs from the one inside the to-be-signed part (a rule compares the two):
	// a sample of the corpus with the outer identifier replaced
	for i, o := range c.Certs {
		if i%9 != int(seed)%9 || bytes.Equal(o.Cert.RawIssuer, o.Cert.RawSubject) {
			continue
		}
		if fc, err := forge.ParseCert(o.DER); err == nil {
			other := forge.Cons(0x10, forge.OID(1, 2, 840, 10045, 4, 3, 3)) // ecdsa-with-SHA384
			if bytes.Equal(fc.OuterAlg().Bytes(), other.Bytes()) {
				other = forge.Cons(0x10, forge.OID(1, 2, 840, 113549, 1, 1, 12), forge.Prim(0x05, nil))
			}
			fc.Root.Children[1] = other
			if cert, ok, _ := corpus.ParseCert(fc.Bytes()); ok {
				objs = append(objs, &Target{Kind: "cert", ID: "forged:outer-alg:" + o.ID, DER: fc.Bytes(), Cert: cert})
			}
		}
	}
	// certificates on which some lint answers FATAL by its own decision (it could not decode something): the details of such a
	// result are part of the verdict too.  A key usage BIT STRING without content octets is one such input.
	nfatal := 0
	for _, o := range c.Certs {
		if nfatal >= 4 || bytes.Equal(o.Cert.RawIssuer, o.Cert.RawSubject) {
			continue
		}
		fc, err := forge.ParseCert(o.DER)
		if err != nil || fc.FindExt("2.5.29.15") == nil {
			continue
		}
		fc.SetExt("2.5.29.15", forge.MakeExt(forge.OID(2, 5, 29, 15), true, []byte{0x03, 0x01, 0x00}))
		cert, ok, _ := corpus.ParseCert(fc.Bytes())
		if !ok {
			continue
		}
		t := &Target{Kind: "cert", ID: "forged:fatal-ku:" + o.ID, DER: fc.Bytes(), Cert: cert}
		if rs, esc, hung := runSet(t, lint.GlobalRegistry()); rs != nil && esc == "" && !hung && rs.FatalsPresent {
			objs = append(objs, t)
			nfatal++
		}
	}
	h := newHistory(objs)
	type kept struct {
		oi int
		vn string
		t  *Target
	}
	var keep []kept
	nvar, bases, skippedSelf := 0, 0, 0
	var facts []ev.M
	nrandom := 2
	if tier == "thorough" {
		nrandom = 12
	}
	for oi, t := range objs {
		if only != "" && t.ID != only {
			continue
		}
		if bytes.Equal(t.Cert.RawIssuer, t.Cert.RawSubject) {
			skippedSelf++
			continue
		}
		fc, err := forge.ParseCert(t.DER)
		if err != nil {
			continue
		}
		variants := map[string]func(old []byte) []byte{
			"zero": func(o []byte) []byte { return make([]byte, len(o)) },
			"ones": func(o []byte) []byte { return bytes.Repeat([]byte{0xff}, len(o)) },
			"flip-first": func(o []byte) []byte {
				if len(o) > 0 {
					o[0] ^= 0x80
				}
				return o
			},
			"flip-middle": func(o []byte) []byte {
				if len(o) > 0 {
					o[len(o)/2] ^= 0x01
				}
				return o
			},
			"flip-last": func(o []byte) []byte {
				if len(o) > 0 {
					o[len(o)-1] ^= 0x01
				}
				return o
			},
			"ecdsa-shaped": func(o []byte) []byte { // SEQUENCE { INTEGER r, INTEGER s } of the same total length, if it fits
				n := len(o)
				if n < 10 || n > 120 {
					return o
				}
				half := (n - 6) / 2
				rest := n - 6 - half
				out := []byte{0x30, byte(n - 2), 0x02, byte(half)}
				out = append(out, bytes.Repeat([]byte{0x11}, half)...)
				out = append(out, 0x02, byte(rest))
				return append(out, bytes.Repeat([]byte{0x22}, rest)...)
			},
		}
		// a signature made of pieces of the certificate itself: a rule that searches raw bytes finds its needle in the signature
		fill := func(piece []byte) func(o []byte) []byte {
			return func(o []byte) []byte {
				for i := range o {
					o[i] = piece[i%len(piece)]
				}
				return o
			}
		}
		variants["embed-inner-alg"] = fill(append([]byte{}, fc.InnerAlg().Bytes()...))
		variants["embed-outer-alg"] = fill(append([]byte{}, fc.OuterAlg().Bytes()...))
		variants["embed-tbs-head"] = fill(append([]byte{}, t.Cert.RawTBSCertificate[:min(len(t.Cert.RawTBSCertificate), 200)]...))
		variants["embed-spki"] = fill(append([]byte{}, fc.SPKI().Bytes()...))
		variants["embed-validity"] = fill(append([]byte{}, fc.Validity().Bytes()...))
		variants["embed-subject-issuer"] = fill(append(append([]byte{}, fc.Subject().Bytes()...), fc.Issuer().Bytes()...))
		// the certificate's own extensions in OTHER encodings than the one it uses (criticality written out as FALSE, as TRUE,
		// or left out): what a rule about encodings looks for, present only in the signature
		if exts := fc.Exts(); exts != nil && len(exts.Children) > 0 {
			alt := func(start int) []byte {
				var out []byte
				for k := range exts.Children {
					x := exts.Children[(start+k)%len(exts.Children)]
					if len(x.Children) < 2 {
						continue
					}
					val := forge.ExtValue(x).Bytes()
					if len(val) > 6 {
						val = val[:6]
					}
					oid := x.Children[0].Bytes()
					out = append(out, oid...)
					out = append(out, 0x01, 0x01, 0x00)
					out = append(out, val...)
					out = append(out, oid...)
					if len(x.Children) == 3 {
						out = append(out, val...) // critical in the certificate: here without the flag
					} else {
						out = append(out, 0x01, 0x01, 0xff)
						out = append(out, val...)
					}
				}
				return out
			}
			if a := alt(0); len(a) > 0 {
				variants["embed-ext-other-encodings-a"] = fill(a)
				variants["embed-ext-other-encodings-b"] = fill(alt(len(exts.Children) / 2))
				variants["embed-ext-other-encodings-c"] = fill(alt(len(exts.Children) - 1))
			}
			variants["embed-extensions"] = fill(append([]byte{}, exts.Bytes()...))
		}
		for k := 0; k < nrandom; k++ {
			variants[fmt.Sprintf("random%d", k)] = func(o []byte) []byte {
				rng.Read(o)
				return o
			}
		}
		names := make([]string, 0, len(variants))
		for k := range variants {
			names = append(names, k)
		}
		sort.Strings(names)
		did := false
		for _, vn := range names {
			v := fc.Clone()
			v.SetSigBytes(variants[vn])
			vt := parseVariant(t, v)
			if vt == nil {
				continue
			}
			if !did {
				h.lint(oi, 0, "original", false)
				did = true
				bases++
			}
			facts = append(facts, ev.M{"ev": "SigVariant", "obj": t.ID, "variant": vn, "selfSigned": vt.Cert.SelfSigned,
				"sameTBS": bytes.Equal(vt.Cert.RawTBSCertificate, t.Cert.RawTBSCertificate), "sameSigLen": len(vt.Cert.Signature) == len(t.Cert.Signature),
				"sameAlg": vt.Cert.SignatureAlgorithm == t.Cert.SignatureAlgorithm})
			h.lintTarget(oi, vt, 0, "sig:"+vn, false)
			keep = append(keep, kept{oi, vn, vt})
			nvar++
		}
	}
	// third: under a configuration whose string options hold the identifiers of the base certificate (what an allow-list of
	// known certificates would hold): a rule that recognises "its" certificate by a digest over the signature stops recognising it
	identCfgs := 0
	for oi, t := range objs {
		if only != "" && t.ID != only {
			continue
		}
		var mine []kept
		for _, k := range keep {
			if k.oi == oi && (k.vn == "zero" || k.vn == "flip-last" || k.vn == "random0") {
				mine = append(mine, k)
			}
		}
		if len(mine) == 0 {
			continue
		}
		s256, s1, spki := sha256.Sum256(t.DER), sha1.Sum(t.DER), sha256.Sum256(t.Cert.RawSubjectPublicKeyInfo)
		colons := func(b []byte) string {
			parts := make([]string, len(b))
			for i, x := range b {
				parts[i] = fmt.Sprintf("%02X", x)
			}
			return strings.Join(parts, ":")
		}
		idents := []string{hex.EncodeToString(s256[:]), colons(s256[:]), strings.ToUpper(hex.EncodeToString(s256[:])), hex.EncodeToString(s1[:]), colons(s1[:]),
			hex.EncodeToString(spki[:]), t.Cert.SerialNumber.Text(16), hex.EncodeToString(t.Cert.FingerprintSHA256), hex.EncodeToString(t.Cert.FingerprintSHA1)}
		e := h.cat.identifierConfig("identifiers:"+t.ID, idents)
		if e == nil {
			break // no lint has an option that could hold them
		}
		identCfgs++
		h.setCfg(0, e.id)
		h.lint(oi, 0, "identifiers-original", false)
		for _, k := range mine {
			h.lintTarget(oi, k.t, 0, "identifiers-sig:"+k.vn, false)
		}
		h.setCfg(0, "empty")
	}
	// second pass, variant-major: the same signature value (all zero, all ones, the shaped dummy) on one certificate after
	// the other - what a pre-issuance pipeline does; the verdicts must still be those of the first pass (memo per base)
	sort.SliceStable(keep, func(i, j int) bool { return keep[i].vn < keep[j].vn })
	for _, k := range keep {
		if k.vn == "zero" || k.vn == "ones" || k.vn == "ecdsa-shaped" || tier == "thorough" {
			h.lintTarget(k.oi, k.t, 0, "sig-batch:"+k.vn, false)
		}
	}
	n := h.write(out("history.ndjson"))
	ev.WriteJSON(out("facts.json"), facts)
	nontriv := map[int]bool{}
	for _, o := range h.obs {
		for _, s := range o.st {
			if s > 1 {
				nontriv[o.obj] = true
			}
		}
	}
	ev.WriteJSON(out("summary.json"), ev.M{"events": n, "lint_calls": h.nLint, "variants": nvar, "bases": bases, "self_issued_skipped": skippedSelf, "identifier_configurations": identCfgs, "bases_nontrivial": len(nontriv),
		"objects": len(objs), "pairs_with_details": len(nontriv), "sample": ev.M{"variant": "flip-middle", "base": objs[0].ID}})
}

// generatedSelfSignedNotSelfIssued builds CA and subscriber certificates whose issuer name differs from the subject
// name although they are signed with their own key and carry their own key identifier as authority key identifier.
func generatedSelfSignedNotSelfIssued() []*Target {
	var out []*Target
	type keyT struct {
		name string
		priv interface{}
		pub  interface{}
	}
	var keys []keyT
	if k, err := rsa.GenerateKey(crand.Reader, 2048); err == nil {
		keys = append(keys, keyT{"rsa2048", k, &k.PublicKey})
	}
	if k, err := ecdsa.GenerateKey(elliptic.P256(), crand.Reader); err == nil {
		keys = append(keys, keyT{"p256", k, &k.PublicKey})
	}
	for _, k := range keys {
		spki, err := stdx509.MarshalPKIXPublicKey(k.pub)
		if err != nil {
			continue
		}
		ski := sha1.Sum(spki)
		for _, profile := range []string{"ca", "subca", "leaf", "leaf-old"} {
			nb := time.Date(2024, 3, 1, 0, 0, 0, 0, time.UTC)
			if profile == "leaf-old" {
				nb = time.Date(2015, 3, 1, 0, 0, 0, 0, time.UTC)
			}
			tpl := &stdx509.Certificate{
				SerialNumber: big.NewInt(0x5eed1234567), NotBefore: nb, NotAfter: nb.AddDate(1, 0, 0),
				Subject:      pkix.Name{Country: []string{"US"}, Organization: []string{"Verif Subject"}, CommonName: "subject.example.com"},
				SubjectKeyId: ski[:], BasicConstraintsValid: true,
			}
			parent := &stdx509.Certificate{
				Subject:      pkix.Name{Country: []string{"US"}, Organization: []string{"Verif Issuer"}, CommonName: "Verif Issuing CA"},
				SubjectKeyId: ski[:],
			}
			switch profile {
			case "ca", "subca":
				tpl.IsCA = true
				tpl.KeyUsage = stdx509.KeyUsageCertSign | stdx509.KeyUsageCRLSign
				tpl.Subject.CommonName = "Verif Subject CA"
				if profile == "subca" {
					tpl.PolicyIdentifiers = []asn1.ObjectIdentifier{{2, 23, 140, 1, 2, 2}}
					tpl.ExtKeyUsage = []stdx509.ExtKeyUsage{stdx509.ExtKeyUsageServerAuth}
					tpl.MaxPathLenZero = true
				}
			default:
				tpl.KeyUsage = stdx509.KeyUsageDigitalSignature
				tpl.ExtKeyUsage = []stdx509.ExtKeyUsage{stdx509.ExtKeyUsageServerAuth, stdx509.ExtKeyUsageClientAuth}
				tpl.DNSNames = []string{"subject.example.com", "www.subject.example.com"}
				tpl.PolicyIdentifiers = []asn1.ObjectIdentifier{{2, 23, 140, 1, 2, 2}}
				tpl.OCSPServer = []string{"http://ocsp.example.com"}
				tpl.IssuingCertificateURL = []string{"http://ca.example.com/ca.crt"}
				tpl.CRLDistributionPoints = []string{"http://crl.example.com/ca.crl"}
			}
			der, err := stdx509.CreateCertificate(crand.Reader, tpl, parent, k.pub, k.priv)
			if err != nil {
				continue
			}
			if c, ok, _ := corpus.ParseCert(der); ok {
				out = append(out, &Target{Kind: "cert", ID: "generated:own-key-other-issuer:" + k.name + ":" + profile, DER: der, Cert: c})
			}
		}
	}
	return out
}

package main

import (
	"fmt"
	"sort"
	"time"

	"github.com/zmap/zlint/v3/lint"
	"verif/harness/internal/corpus"
	"verif/harness/internal/ev"
	"verif/harness/internal/forge"
)

// redate returns the target re-dated so that its window date is exactly `at`.
// Certificates are re-encoded (DER) when the year is encodable, otherwise (and for CRL/OCSP) the parsed
// object is copied and its date field set in memory; the API under test takes parsed objects.
func redate(t *Target, at time.Time, zoneOffMin int) (*Target, string) {
	switch t.Kind {
	case "cert":
		y := at.UTC().Year()
		dur := t.Cert.NotAfter.Sub(t.Cert.NotBefore)
		na := at.Add(dur)
		if y >= 0 && y <= 9999 && na.UTC().Year() <= 9999 && na.UTC().Year() >= 0 {
			fc, err := forge.ParseCert(t.DER)
			if err == nil {
				if zoneOffMin != 0 && y >= 1950 && y < 2050 {
					fc.SetNotBeforeNode(forge.UTCTimeOffsetNode(at, zoneOffMin))
				} else {
					fc.SetNotBefore(at)
				}
				fc.SetNotAfter(na)
				der := fc.Bytes()
				if c, ok, _ := corpus.ParseCert(der); ok && c.NotBefore.Equal(at) {
					return &Target{Kind: "cert", ID: t.ID, DER: der, Cert: c}, "der"
				}
			}
		}
		cp := *t.Cert
		cp.NotBefore = at
		cp.NotAfter = na
		return &Target{Kind: "cert", ID: t.ID, DER: t.DER, Cert: &cp}, "mem"
	case "crl":
		cp := *t.CRL
		d := cp.NextUpdate.Sub(cp.ThisUpdate)
		cp.ThisUpdate = at
		if !cp.NextUpdate.IsZero() {
			cp.NextUpdate = at.Add(d)
		}
		return &Target{Kind: "crl", ID: t.ID, DER: t.DER, CRL: &cp}, "mem"
	default:
		cp := *t.OCSP
		cp.NextUpdate = at
		return &Target{Kind: "ocsp", ID: t.ID, DER: t.DER, OCSP: &cp}, "mem"
	}
}

type boundary struct {
	at   time.Time
	idx  []int // lints having this boundary
	what string
}

func boundariesOf(ls []LintRec) []boundary {
	m := map[int64]*boundary{}
	add := func(t time.Time, i int, what string) {
		if t.IsZero() {
			return
		}
		b := m[t.Unix()]
		if b == nil {
			b = &boundary{at: t, what: what}
			m[t.Unix()] = b
		}
		for _, x := range b.idx {
			if x == i {
				return
			}
		}
		b.idx = append(b.idx, i)
	}
	for i, l := range ls {
		add(l.Meta.EffectiveDate, i, "eff")
		add(l.Meta.IneffectiveDate, i, "ineff")
	}
	var out []boundary
	for _, b := range m {
		out = append(out, *b)
	}
	sort.Slice(out, func(i, j int) bool { return out[i].at.Before(out[j].at) })
	return out
}

// cmdWindow: C03 - every object re-dated to every boundary instant (+-1 s) of every lint.
func cmdWindow(args []string) {
	parseFlags(args)
	c := corpus.Load()
	g := lint.GlobalRegistry()
	cfg := g.GetConfiguration()
	w := ev.Create(out("window.ndjson"))
	kinds := []string{"cert", "crl", "ocsp"}
	byKind := map[string][]LintRec{}
	for _, k := range kinds {
		byKind[k] = lintsOf(g, k)
		w.Emit(metaEvent(k, byKind[k]))
	}
	objs := map[string][]*Target{}
	for _, o := range c.Certs {
		objs["cert"] = append(objs["cert"], fromObj(o))
	}
	for _, o := range c.CRLs {
		objs["crl"] = append(objs["crl"], fromObj(o))
	}
	for _, o := range c.OCSPs {
		objs["ocsp"] = append(objs["ocsp"], fromObj(o))
	}
	type job struct {
		kind string
		b    boundary
		d    int
		t    *Target
		zone int
		// absent: an OCSP response without nextUpdate (the field is optional): the window date is the zero instant,
		// whatever thisUpdate says
		absent bool
	}
	// objects that matter to a lint: those on which it answers anything but NA when every object is dated inside the lint's window
	// (a sequential look at the certificates, dated 2024-03-01 or as they are): a lint's own test objects are always judged at
	// its boundaries, whatever the sampling of the rest
	relevant := map[int][]int{} // lint index (certificates) -> object indices
	if only == "" {
		late := time.Date(2024, 3, 1, 0, 0, 0, 0, time.UTC)
		rel := make([][]int, len(objs["cert"]))
		parallel(len(objs["cert"]), func(oi int) {
			t := objs["cert"][oi]
			for pass := 0; pass < 2; pass++ {
				tt := t
				if pass == 1 {
					tt, _ = redate(t, late, 0)
				}
				rs, esc, hung := runSet(tt, g)
				if rs == nil || esc != "" || hung {
					continue
				}
				for li, l := range byKind["cert"] {
					if r := rs.Results[l.Name]; r != nil && r.Status != lint.NA && r.Status != lint.NE && r.Status != lint.Pass {
						rel[oi] = append(rel[oi], li)
					}
				}
			}
		})
		for oi, ls := range rel {
			for _, li := range ls {
				if len(relevant[li]) < 4 && (len(relevant[li]) == 0 || relevant[li][len(relevant[li])-1] != oi) {
					relevant[li] = append(relevant[li], oi)
				}
			}
		}
	}
	var jobs []job
	nb := 0
	stride := 4
	if tier == "thorough" {
		stride = 1
	}
	for _, k := range kinds {
		for bi, b := range boundariesOf(byKind[k]) {
			nb++
			must := map[int]bool{}
			if k == "cert" {
				for _, li := range b.idx {
					for _, oi := range relevant[li] {
						must[oi] = true
					}
				}
			}
			for di, d := range []int{-1, 0, 1} {
				for oi, t := range objs[k] {
					if only != "" && t.ID != only {
						continue
					}
					if only == "" && k == "cert" && !must[oi] && (oi+bi*3+di+int(seed))%stride != 0 {
						continue
					}
					zone := 0
					if (oi+bi)%5 == 0 {
						zone = []int{840, -720, 330}[(oi+di+1)%3]
					}
					jobs = append(jobs, job{k, b, d, t, zone, false})
					if k == "ocsp" {
						jobs = append(jobs, job{k, b, d, t, zone, true})
					}
				}
			}
		}
	}
	events := make([]ev.M, len(jobs))
	nontriv := make([][]string, len(jobs))
	modes := make([]string, len(jobs))
	parallel(len(jobs), func(i int) {
		j := jobs[i]
		at := j.b.at.Add(time.Duration(j.d) * time.Second)
		t2, mode := redate(j.t, at, j.zone)
		if j.absent {
			cp := *j.t.OCSP
			cp.NextUpdate = time.Time{}
			cp.ThisUpdate = at.Add(24 * time.Hour)
			cp.ProducedAt = at.Add(25 * time.Hour)
			t2, mode = &Target{Kind: "ocsp", ID: j.t.ID, DER: j.t.DER, OCSP: &cp}, "mem"
		}
		modes[i] = mode
		m, recs := execEvent(byKind[j.kind], j.b.idx, t2, cfg)
		m["runSt"], m["runDg"] = []int{}, []string{}
		m["mode"], m["delta"], m["zone"] = mode, j.d, j.zone
		events[i] = m
		for k, r := range recs {
			if r.Applies == 1 && r.Obs != int(lint.NA) {
				nontriv[i] = append(nontriv[i], fmt.Sprintf("%s|%d|%d", byKind[j.kind][j.b.idx[k]].Name, j.b.at.Unix(), j.d))
			}
		}
	})
	nt := map[string]bool{}
	execs, mem := 0, 0
	statuses := map[string]bool{} // what each lint reports at its own boundary instants joins the status stream of C06
	for i, e := range events {
		if obs, ok := e["obs"].([]int); ok {
			for k, st := range obs {
				if k < len(jobs[i].b.idx) && st >= 0 {
					statuses[fmt.Sprintf("%s|%d", byKind[jobs[i].kind][jobs[i].b.idx[k]].Name, st)] = true
				}
			}
		}
		w.Emit(e)
		execs += len(jobs[i].b.idx)
		for _, k := range nontriv[i] {
			nt[k] = true
		}
		if modes[i] == "mem" {
			mem++
		}
	}
	w.Close()
	lintsJudged := map[string]bool{}
	for k := range nt {
		var name string
		fmt.Sscanf(k, "%s", &name)
		for i := 0; i < len(k); i++ {
			if k[i] == '|' {
				lintsJudged[k[:i]] = true
				break
			}
		}
	}
	var sample ev.M
	if len(events) > 0 {
		sample = compact(events[len(events)/2])
	}
	var sl []string
	for k := range statuses {
		sl = append(sl, k)
	}
	sort.Strings(sl)
	ev.WriteJSON(out("statuses.json"), sl)
	ev.WriteJSON(out("summary.json"), ev.M{"boundaries": nb, "events": len(events), "execs": execs, "nontrivial": len(nt),
		"lints_judged_at_a_boundary": len(lintsJudged), "in_memory_redated": mem, "sample": sample})
}

// Package corpus loads every parseable object under /repo/v3/testdata.
package corpus

import (
	"encoding/base64"
	"encoding/pem"
	"fmt"
	"os"
	"path/filepath"
	"sort"
	"strings"

	"github.com/zmap/zcrypto/x509"
	"golang.org/x/crypto/ocsp"
)

type Obj struct {
	ID   string
	Kind string // cert | crl | ocsp
	Path string
	DER  []byte
	Cert *x509.Certificate
	CRL  *x509.RevocationList
	OCSP *ocsp.Response
}

// ParseCert runs the zcrypto parser under recover; ok=false means "not accepted by the parser".
func ParseCert(der []byte) (c *x509.Certificate, ok bool, panicked bool) {
	defer func() {
		if r := recover(); r != nil {
			c, ok, panicked = nil, false, true
		}
	}()
	c, err := x509.ParseCertificate(der)
	if err != nil {
		return nil, false, false
	}
	return c, true, false
}

func ParseCRL(der []byte) (c *x509.RevocationList, ok bool, panicked bool) {
	defer func() {
		if r := recover(); r != nil {
			c, ok, panicked = nil, false, true
		}
	}()
	c, err := x509.ParseRevocationList(der)
	if err != nil {
		return nil, false, false
	}
	return c, true, false
}

func ParseOCSP(der []byte) (o *ocsp.Response, ok bool, panicked bool) {
	defer func() {
		if r := recover(); r != nil {
			o, ok, panicked = nil, false, true
		}
	}()
	o, err := ocsp.ParseResponse(der, nil)
	if err != nil {
		return nil, false, false
	}
	return o, true, false
}

type Corpus struct {
	Certs    []*Obj
	CRLs     []*Obj
	OCSPs    []*Obj
	Unparsed int
}

func Root() string {
	if r := os.Getenv("VERIF_REPO"); r != "" {
		return r
	}
	return "/repo"
}

// Load walks testdata directories.
func Load() *Corpus {
	c := &Corpus{}
	var files []string
	filepath.Walk(filepath.Join(Root(), "v3", "testdata"), func(p string, info os.FileInfo, err error) error {
		if err == nil && !info.IsDir() {
			files = append(files, p)
		}
		return nil
	})
	sort.Strings(files)
	seen := map[string]bool{}
	for _, p := range files {
		data, err := os.ReadFile(p)
		if err != nil {
			continue
		}
		rel := strings.TrimPrefix(p, filepath.Join(Root(), "v3", "testdata")+"/")
		found := false
		rest := data
		for {
			var blk *pem.Block
			blk, rest = pem.Decode(rest)
			if blk == nil {
				break
			}
			found = true
			switch blk.Type {
			case "CERTIFICATE":
				if cert, ok, _ := ParseCert(blk.Bytes); ok {
					if !seen[string(blk.Bytes)] {
						seen[string(blk.Bytes)] = true
						c.Certs = append(c.Certs, &Obj{ID: rel, Kind: "cert", Path: p, DER: blk.Bytes, Cert: cert})
					}
				} else {
					c.Unparsed++
				}
			case "X509 CRL":
				if crl, ok, _ := ParseCRL(blk.Bytes); ok {
					c.CRLs = append(c.CRLs, &Obj{ID: rel, Kind: "crl", Path: p, DER: blk.Bytes, CRL: crl})
				} else {
					c.Unparsed++
				}
			}
			break // first block only, as the test helpers do
		}
		if !found {
			// OCSP test data: bare base64
			raw, err := base64.StdEncoding.DecodeString(strings.TrimSpace(string(data)))
			if err == nil {
				if o, ok, _ := ParseOCSP(raw); ok {
					c.OCSPs = append(c.OCSPs, &Obj{ID: rel, Kind: "ocsp", Path: p, DER: raw, OCSP: o})
				}
			}
		}
	}
	if v := os.Getenv("VERIF_SYNTH"); v != "" && v != "0" {
		n := 0
		fmt.Sscan(v, &n)
		if n <= 1 {
			n = 300
		}
		sy := Synth(1, n)
		c.Certs = append(c.Certs, sy.Certs...)
		c.CRLs = append(c.CRLs, sy.CRLs...)
	}
	return c
}

package corpus

// Synthetic, well-formed certificates and CRLs built with the Go standard library from a seeded feature matrix
// (roles, key types, EKU sets incl. unknown-only ones, policy identifiers incl. near misses of the scope identifiers,
// every general-name type in SAN and IAN, AIA / CRLDP locations of many shapes, name constraints, validity lengths,
// subject attributes in several string types ...).  The repository's corpus is one file per lint; these widen the
// input space every sweep, history and permutation driver sees.  IDs start with "synth:".
import (
	"crypto"
	"crypto/rand"
	"crypto/sha1"
	stdx509 "crypto/x509"
	"crypto/x509/pkix"
	"encoding/asn1"
	"encoding/pem"
	"fmt"
	"math/big"
	mrand "math/rand"
	"net"
	"net/url"
	"sync"
	"time"
)

type synthKey struct {
	name string
	priv crypto.Signer
}

var (
	synthOnce sync.Once
	synthKeys []synthKey
)

func keys() []synthKey {
	synthOnce.Do(func() {
		for _, n := range []string{"ca", "rsa", "p256", "p384", "ed"} {
			blk, _ := pem.Decode([]byte(synthKeyPEM[n]))
			if blk == nil {
				continue
			}
			k, err := stdx509.ParsePKCS8PrivateKey(blk.Bytes)
			if err != nil {
				continue
			}
			if sg, ok := k.(crypto.Signer); ok {
				synthKeys = append(synthKeys, synthKey{n, sg})
			}
		}
	})
	return synthKeys
}

func pick[T any](r *mrand.Rand, xs []T) T { return xs[r.Intn(len(xs))] }

func oid(arcs ...int) asn1.ObjectIdentifier { return asn1.ObjectIdentifier(arcs) }

var (
	dnsPool = []string{"www.example.com", "example.com", "*.example.com", "a.b.c.example.org", "my_host.example.com", "_srv.example.net", "xn--bcher-kva.example.com",
		"xn--109-3veba6djs1bfxlfmx6c9g.xn--f1awi.xn--p1ai", "EXAMPLE.COM", "Mixed.Case.example.com", "localhost", "host.internal", "host.local", "example.co.uk", "co.uk", "k12.ma.us",
		"test.onion", "ab--cd.example.com", "-lead.example.com", "trail-.example.com", "192.0.2.7", "foo.bar.notatld", "a.example.com.", "exa mple.com", "very-" + "longlabel-xxxxxxxxxxxxxxxxxxxxxxxxxxxxxxxxxxxxxxxxxxxxxxxxxxxxxxxxxxxx.example.com"}
	ipPool   = []string{"8.8.8.8", "10.1.2.3", "192.168.0.1", "127.0.0.1", "169.254.1.1", "100.64.0.1", "198.51.100.7", "224.0.0.1", "255.255.255.255", "0.0.0.0", "2001:db8::1", "2001:4860:4860::8888", "fe80::1", "fc00::1", "::1", "::ffff:10.0.0.1"}
	mailPool = []string{"user@example.com", "first.last@sub.example.org", "user@localhost", "UPPER@EXAMPLE.COM", "a@b.c"}
	uriPool  = []string{"http://example.com/path", "https://example.com:8443/x", "http://192.0.2.1/", "http://[2001:db8::1]/", "ldap://dir.example.com/cn=x", "urn:uuid:1234", "http://host.internal/", "ftp://user@ftp.example.com/"}
	locPool  = []string{"http://ocsp.example.com", "http://ocsp.example.com:8080/q", "http://192.0.2.9/ocsp", "http://[2001:db8::42]/ocsp", "https://secure.example.com/ca.crt", "ldap://ldap.example.com/cn=CA?cACertificate", "http://host.internal/ca.crl",
		"http://crl.example.com/a.crl", "ftp://crl.example.com/a.crl", "http://ocsp.example.notatld/"}
	polPool = []asn1.ObjectIdentifier{oid(2, 23, 140, 1, 2, 1), oid(2, 23, 140, 1, 2, 2), oid(2, 23, 140, 1, 2, 3), oid(2, 23, 140, 1, 1), oid(2, 23, 140, 1, 5, 1, 1), oid(2, 23, 140, 1, 5, 2, 2), oid(2, 23, 140, 1, 5, 3, 3),
		oid(2, 23, 140, 1, 5, 4, 1), oid(2, 23, 140, 1, 3), oid(2, 23, 140, 1, 4, 1), oid(2, 23, 140, 1, 4, 1, 1), oid(2, 23, 140, 1, 2), oid(2, 23, 140, 1, 31), oid(1, 3, 6, 1, 4, 1, 99999, 1), oid(2, 5, 29, 32, 0)}
	ekuPool     = []stdx509.ExtKeyUsage{stdx509.ExtKeyUsageServerAuth, stdx509.ExtKeyUsageClientAuth, stdx509.ExtKeyUsageEmailProtection, stdx509.ExtKeyUsageCodeSigning, stdx509.ExtKeyUsageTimeStamping, stdx509.ExtKeyUsageOCSPSigning, stdx509.ExtKeyUsageAny}
	unkEkuPool  = []asn1.ObjectIdentifier{oid(1, 3, 6, 1, 4, 1, 311, 10, 3, 12), oid(1, 3, 6, 1, 5, 5, 7, 3, 17), oid(1, 3, 6, 1, 4, 1, 99999, 7)}
	startPool   = []time.Time{time.Date(2011, 5, 1, 0, 0, 0, 0, time.UTC), time.Date(2014, 12, 31, 23, 59, 59, 0, time.UTC), time.Date(2016, 7, 2, 0, 0, 0, 0, time.UTC), time.Date(2018, 3, 1, 12, 0, 0, 0, time.UTC), time.Date(2019, 6, 15, 0, 0, 0, 0, time.UTC), time.Date(2020, 9, 1, 0, 0, 0, 0, time.UTC), time.Date(2021, 10, 1, 0, 0, 1, 0, time.UTC), time.Date(2023, 9, 15, 0, 0, 0, 0, time.UTC), time.Date(2024, 3, 15, 0, 0, 0, 0, time.UTC)}
	durPool     = []int{1, 30, 89, 90, 200, 397, 398, 399, 730, 825, 826, 1200, 3650}
	countryPool = []string{"US", "DE", "GB", "XX", "usa", ""}
)

func mustURL(s string) *url.URL {
	u, err := url.Parse(s)
	if err != nil {
		return nil
	}
	return u
}

// Synth builds n certificates (and n/10 CRLs) from the seeded feature matrix.
func Synth(seed int64, n int) *Corpus {
	c := &Corpus{}
	ks := keys()
	if len(ks) == 0 {
		return c
	}
	r := mrand.New(mrand.NewSource(seed*7919 + 17))
	caKey := ks[0]
	caSpki, _ := stdx509.MarshalPKIXPublicKey(caKey.priv.Public())
	caSki := sha1.Sum(caSpki)
	caTpl := &stdx509.Certificate{SerialNumber: big.NewInt(1), Subject: pkix.Name{Country: []string{"US"}, Organization: []string{"Synth CA"}, CommonName: "Synth Issuing CA"},
		NotBefore: time.Date(2010, 1, 1, 0, 0, 0, 0, time.UTC), NotAfter: time.Date(2040, 1, 1, 0, 0, 0, 0, time.UTC), IsCA: true, BasicConstraintsValid: true,
		KeyUsage: stdx509.KeyUsageCertSign | stdx509.KeyUsageCRLSign, SubjectKeyId: caSki[:]}
	// stratified head of the matrix: every scope document (TLS, S/MIME, code signing) and near misses of the S/MIME policy arc
	// (an unreserved validation type / generation, the bare arc) x subscriber and subordinate CA x purposes alone, with
	// e-mail protection, with server authentication, none - the combinations a rule about scope or purposes distinguishes
	type stratum struct {
		role string
		pol  asn1.ObjectIdentifier
		ekus []stdx509.ExtKeyUsage
	}
	var strata []stratum
	for _, sc := range []struct {
		pol asn1.ObjectIdentifier
		own stdx509.ExtKeyUsage
	}{{oid(2, 23, 140, 1, 2, 2), stdx509.ExtKeyUsageServerAuth}, {oid(2, 23, 140, 1, 5, 1, 1), stdx509.ExtKeyUsageEmailProtection}, {oid(2, 23, 140, 1, 4, 1), stdx509.ExtKeyUsageCodeSigning},
		{oid(2, 23, 140, 1, 5, 7, 1), stdx509.ExtKeyUsageClientAuth}, {oid(2, 23, 140, 1, 5, 1, 4), stdx509.ExtKeyUsageClientAuth}, {oid(2, 23, 140, 1, 5, 1), stdx509.ExtKeyUsageClientAuth}} {
		for _, role := range []string{"leaf", "subca"} {
			for _, ekus := range [][]stdx509.ExtKeyUsage{{sc.own}, {sc.own, stdx509.ExtKeyUsageEmailProtection}, {sc.own, stdx509.ExtKeyUsageServerAuth}, {}} {
				if len(ekus) == 2 && ekus[0] == ekus[1] {
					ekus = ekus[:1]
				}
				if sc.own == stdx509.ExtKeyUsageClientAuth && len(ekus) == 2 {
					continue // the near misses carry no indication of their own: client authentication or nothing
				}
				strata = append(strata, stratum{role, sc.pol, ekus})
			}
		}
	}
	for i := 0; i < n; i++ {
		k := pick(r, ks[1:])
		spki, _ := stdx509.MarshalPKIXPublicKey(k.priv.Public())
		ski := sha1.Sum(spki)
		role := pick(r, []string{"leaf", "leaf", "leaf", "leaf", "subca", "root"})
		if i < len(strata) {
			role = strata[i].role
		}
		if role == "root" && k.name != "rsa" && k.name != "ed" {
			role = "subca" // a self-signed certificate is signed with its own key: only deterministic signature schemes
		}
		nb := pick(r, startPool)
		if i < len(strata) {
			nb = time.Date(2024, 3, 1, 0, 0, 0, 0, time.UTC) // inside the window of every rule in force
		}
		tpl := &stdx509.Certificate{SerialNumber: new(big.Int).SetInt64(int64(1000003 + i*7919)), NotBefore: nb, NotAfter: nb.AddDate(0, 0, pick(r, durPool)).Add(time.Duration(r.Intn(3)-1) * time.Second),
			BasicConstraintsValid: r.Intn(8) != 0, SubjectKeyId: ski[:]}
		if r.Intn(12) == 0 {
			tpl.SerialNumber = new(big.Int).Lsh(big.NewInt(0x7f), uint(8*r.Intn(22)))
		}
		subj := pkix.Name{}
		if x := pick(r, countryPool); x != "" {
			subj.Country = []string{x}
		}
		if r.Intn(2) == 0 {
			subj.Organization = []string{pick(r, []string{"Example Org", " Leading Space", "Trailing Space ", "Org, Inc.", "Ünïcode Org"})}
		}
		if r.Intn(4) == 0 {
			subj.OrganizationalUnit = []string{"Unit " + fmt.Sprint(r.Intn(5))}
		}
		if r.Intn(3) == 0 {
			subj.Locality, subj.Province = []string{"Town"}, []string{"State"}
		}
		if r.Intn(6) == 0 {
			subj.StreetAddress, subj.PostalCode = []string{"1 Main St"}, []string{"12345"}
		}
		if r.Intn(5) == 0 {
			subj.SerialNumber = "SN-" + fmt.Sprint(r.Intn(1000))
		}
		if r.Intn(8) == 0 {
			subj.ExtraNames = append(subj.ExtraNames, pkix.AttributeTypeAndValue{Type: oid(2, 5, 4, 15), Value: pick(r, []string{"Private Organization", "Government Entity", "Other"})},
				pkix.AttributeTypeAndValue{Type: oid(2, 5, 4, 42), Value: "Given"}, pkix.AttributeTypeAndValue{Type: oid(2, 5, 4, 4), Value: "Surname"})
		}
		if r.Intn(10) == 0 {
			subj.ExtraNames = append(subj.ExtraNames, pkix.AttributeTypeAndValue{Type: oid(2, 5, 4, 97), Value: pick(r, []string{"NTRGB-12345678", "VATDE-123456789", "12345678", "LEIXG-529900T8BM49AURSDO55"})})
		}
		switch role {
		case "root", "subca":
			tpl.IsCA = true
			tpl.KeyUsage = stdx509.KeyUsageCertSign | stdx509.KeyUsageCRLSign
			if r.Intn(4) == 0 {
				tpl.KeyUsage |= stdx509.KeyUsageDigitalSignature
			}
			subj.CommonName = fmt.Sprintf("Synth CA %d", i)
			if role == "subca" {
				if r.Intn(2) == 0 {
					tpl.MaxPathLen, tpl.MaxPathLenZero = r.Intn(3), true
				}
				if r.Intn(3) == 0 {
					tpl.PermittedDNSDomains = []string{pick(r, []string{"example.com", ".example.org", "internal"})}
					tpl.PermittedDNSDomainsCritical = r.Intn(2) == 0
				}
				if r.Intn(3) == 0 {
					_, n1, _ := net.ParseCIDR(pick(r, []string{"10.0.0.0/8", "8.0.0.0/6", "192.0.2.0/24", "2001:db8::/32", "2600::/12", "169.252.0.0/14"}))
					if r.Intn(2) == 0 {
						tpl.PermittedIPRanges = []*net.IPNet{n1}
					} else {
						tpl.ExcludedIPRanges = []*net.IPNet{n1}
					}
				}
			}
		default:
			tpl.KeyUsage = pick(r, []stdx509.KeyUsage{stdx509.KeyUsageDigitalSignature, stdx509.KeyUsageDigitalSignature | stdx509.KeyUsageKeyEncipherment, stdx509.KeyUsageKeyEncipherment | stdx509.KeyUsageKeyAgreement,
				stdx509.KeyUsageContentCommitment | stdx509.KeyUsageKeyEncipherment, stdx509.KeyUsageDigitalSignature | stdx509.KeyUsageCertSign, 0})
			nd := r.Intn(5)
			for j := 0; j < nd; j++ {
				tpl.DNSNames = append(tpl.DNSNames, pick(r, dnsPool))
			}
			for j := 0; j < r.Intn(3); j++ {
				tpl.IPAddresses = append(tpl.IPAddresses, net.ParseIP(pick(r, ipPool)))
			}
			for j := 0; j < r.Intn(3)-1; j++ {
				tpl.EmailAddresses = append(tpl.EmailAddresses, pick(r, mailPool))
			}
			for j := 0; j < r.Intn(3)-1; j++ {
				if u := mustURL(pick(r, uriPool)); u != nil {
					tpl.URIs = append(tpl.URIs, u)
				}
			}
			switch r.Intn(5) {
			case 0:
			case 1:
				if len(tpl.DNSNames) > 0 {
					subj.CommonName = tpl.DNSNames[0]
				}
			case 2:
				subj.CommonName = pick(r, dnsPool)
			case 3:
				subj.CommonName = pick(r, ipPool)
			default:
				subj.CommonName = pick(r, []string{"Given Surname", "user@example.com", "Example Service"})
			}
		}
		// EKUs: none, known sets, unknown only, mixed
		switch r.Intn(6) {
		case 0:
		case 1:
			tpl.UnknownExtKeyUsage = []asn1.ObjectIdentifier{pick(r, unkEkuPool)}
		case 2:
			tpl.ExtKeyUsage = []stdx509.ExtKeyUsage{pick(r, ekuPool)}
			tpl.UnknownExtKeyUsage = []asn1.ObjectIdentifier{pick(r, unkEkuPool)}
		default:
			for j := 0; j < 1+r.Intn(3); j++ {
				tpl.ExtKeyUsage = append(tpl.ExtKeyUsage, pick(r, ekuPool))
			}
		}
		for j := 0; j < r.Intn(4); j++ {
			tpl.PolicyIdentifiers = append(tpl.PolicyIdentifiers, pick(r, polPool))
		}
		if i < len(strata) {
			tpl.ExtKeyUsage, tpl.UnknownExtKeyUsage = strata[i].ekus, nil
			tpl.PolicyIdentifiers = []asn1.ObjectIdentifier{strata[i].pol}
			if strata[i].pol.Equal(oid(2, 23, 140, 1, 5, 7, 1)) || strata[i].pol.Equal(oid(2, 23, 140, 1, 5, 1, 4)) || strata[i].pol.Equal(oid(2, 23, 140, 1, 5, 1)) {
				tpl.EmailAddresses = nil
			}
		}
		if r.Intn(3) != 0 {
			for j := 0; j < 1+r.Intn(2); j++ {
				tpl.OCSPServer = append(tpl.OCSPServer, pick(r, locPool))
			}
			if r.Intn(2) == 0 {
				tpl.IssuingCertificateURL = []string{pick(r, locPool)}
			}
		}
		if r.Intn(3) != 0 {
			for j := 0; j < 1+r.Intn(2); j++ {
				tpl.CRLDistributionPoints = append(tpl.CRLDistributionPoints, pick(r, locPool))
			}
		}
		if r.Intn(7) == 0 && (len(tpl.DNSNames) > 0 || len(tpl.URIs) > 0) {
			// an issuerAltName extension with the same kinds of names
			var raw []asn1.RawValue
			for _, d := range tpl.DNSNames {
				raw = append(raw, asn1.RawValue{Tag: 2, Class: 2, Bytes: []byte(d)})
			}
			for _, u := range tpl.URIs {
				raw = append(raw, asn1.RawValue{Tag: 6, Class: 2, Bytes: []byte(u.String())})
			}
			if b, err := asn1.Marshal(raw); err == nil {
				tpl.ExtraExtensions = append(tpl.ExtraExtensions, pkix.Extension{Id: oid(2, 5, 29, 18), Value: b})
			}
		}
		tpl.Subject = subj
		parent, signer := caTpl, caKey.priv
		if role == "root" {
			parent, signer = tpl, k.priv
		}
		der, err := stdx509.CreateCertificate(rand.Reader, tpl, parent, k.priv.Public(), signer)
		if err != nil {
			continue
		}
		if cert, ok, _ := ParseCert(der); ok {
			c.Certs = append(c.Certs, &Obj{ID: fmt.Sprintf("synth:%s:%s:%d", role, k.name, i), Kind: "cert", DER: der, Cert: cert})
		}
	}
	// CRLs: entries with every reason code, out of serial order, with and without nextUpdate semantics that vary
	for i := 0; i < n/10; i++ {
		tu := pick(r, startPool)
		var entries []pkix.RevokedCertificate
		for j := 0; j < r.Intn(6); j++ {
			e := pkix.RevokedCertificate{SerialNumber: big.NewInt(int64(1 + r.Intn(200))), RevocationTime: tu.Add(-time.Duration(r.Intn(1000)) * time.Hour)}
			if r.Intn(3) != 0 {
				code := pick(r, []int{1, 2, 3, 4, 5, 6, 8, 9, 10, 7, 11, 0})
				if b, err := asn1.Marshal(asn1.Enumerated(code)); err == nil {
					e.Extensions = []pkix.Extension{{Id: oid(2, 5, 29, 21), Value: b, Critical: r.Intn(6) == 0}}
				}
			}
			entries = append(entries, e)
		}
		ca := *caTpl
		if der, err := ca.CreateCRL(rand.Reader, caKey.priv, entries, tu, tu.AddDate(0, 0, pick(r, []int{1, 7, 10, 11, 365, 400}))); err == nil {
			if crl, ok, _ := ParseCRL(der); ok {
				c.CRLs = append(c.CRLs, &Obj{ID: fmt.Sprintf("synth:crl:%d", i), Kind: "crl", DER: der, CRL: crl})
			}
		}
	}
	return c
}

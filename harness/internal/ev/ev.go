// Package ev writes NDJSON trace events and small helper encodings shared by all drivers.
package ev

import (
	"bufio"
	"encoding/json"
	"fmt"
	"hash/fnv"
	"os"
	"sync"
	"time"
)

type M = map[string]any

type Writer struct {
	mu sync.Mutex
	f  *os.File
	w  *bufio.Writer
	N  int
}

var (
	allMu sync.Mutex
	all   []*Writer
)

func Create(path string) *Writer {
	f, err := os.Create(path)
	if err != nil {
		panic(err)
	}
	w := &Writer{f: f, w: bufio.NewWriterSize(f, 1<<20)}
	allMu.Lock()
	all = append(all, w)
	allMu.Unlock()
	return w
}

// FlushAll writes out what every open writer holds (used when a driver dies: what was observed so far is still judged).
func FlushAll() {
	allMu.Lock()
	defer allMu.Unlock()
	for _, w := range all {
		w.mu.Lock()
		w.w.Flush()
		w.mu.Unlock()
	}
}

func (w *Writer) Emit(m M) int {
	b, err := json.Marshal(m)
	if err != nil {
		panic(err)
	}
	w.mu.Lock()
	defer w.mu.Unlock()
	w.w.Write(b)
	w.w.WriteByte('\n')
	w.N++
	return w.N
}

func (w *Writer) Close() {
	w.w.Flush()
	w.f.Close()
}

// Inst encodes an instant as [day, second-of-day], day counted from 0001-01-01 UTC.
// Go's zero time.Time is [0,0]. Sub-second parts are dropped (X.509 times have none).
func Inst(t time.Time) []int64 {
	u := t.Unix() + 62135596800
	day := u / 86400
	sec := u % 86400
	if sec < 0 {
		sec += 86400
		day--
	}
	return []int64{day, sec}
}

// Dg is a short digest of a details string ("" stays "").
func Dg(s string) string {
	if s == "" {
		return ""
	}
	h := fnv.New32a()
	h.Write([]byte(s))
	return fmt.Sprintf("%08x", h.Sum32())
}

func WriteJSON(path string, v any) {
	b, err := json.MarshalIndent(v, "", " ")
	if err != nil {
		panic(err)
	}
	if err := os.WriteFile(path, b, 0o644); err != nil {
		panic(err)
	}
}

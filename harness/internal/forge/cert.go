package forge

import (
	"errors"
	"time"
)

// Cert is an editable view of a certificate's TLV tree.
type Cert struct {
	Root *Node
}

// ParseCert parses DER into an editable certificate; it checks only the outer shape.
func ParseCert(der []byte) (*Cert, error) {
	n, err := Parse(der)
	if err != nil {
		return nil, err
	}
	if len(n.Children) != 3 || n.Children[0].Children == nil {
		return nil, errors.New("not a certificate shape")
	}
	c := &Cert{Root: n}
	if c.base()+6 >= len(c.TBS().Children)+1 && c.base()+6 > len(c.TBS().Children) {
		return nil, errors.New("short tbs")
	}
	return c, nil
}

func (c *Cert) Clone() *Cert    { return &Cert{Root: c.Root.Clone()} }
func (c *Cert) Bytes() []byte   { return c.Root.Bytes() }
func (c *Cert) TBS() *Node      { return c.Root.Children[0] }
func (c *Cert) OuterAlg() *Node { return c.Root.Children[1] }
func (c *Cert) Sig() *Node      { return c.Root.Children[2] }

func (c *Cert) base() int {
	k := c.TBS().Children
	if len(k) > 0 && k[0].Tag() == 0xa0 {
		return 1
	}
	return 0
}
func (c *Cert) field(i int) *Node { return c.TBS().Children[c.base()+i] }
func (c *Cert) setField(i int, n *Node) {
	c.TBS().Children[c.base()+i] = n
}

func (c *Cert) Serial() *Node      { return c.field(0) }
func (c *Cert) InnerAlg() *Node    { return c.field(1) }
func (c *Cert) Issuer() *Node      { return c.field(2) }
func (c *Cert) Validity() *Node    { return c.field(3) }
func (c *Cert) Subject() *Node     { return c.field(4) }
func (c *Cert) SPKI() *Node        { return c.field(5) }
func (c *Cert) SetIssuer(n *Node)  { c.setField(2, n) }
func (c *Cert) SetSubject(n *Node) { c.setField(4, n) }
func (c *Cert) SetSPKI(n *Node)    { c.setField(5, n) }

// SetNotBefore / SetNotAfter replace the validity instants.
func (c *Cert) SetNotBefore(t time.Time) { c.Validity().Children[0] = TimeNode(t) }
func (c *Cert) SetNotAfter(t time.Time)  { c.Validity().Children[1] = TimeNode(t) }
func (c *Cert) SetNotBeforeNode(n *Node) { c.Validity().Children[0] = n }

// ExtsWrapper returns the [3] node, or nil.
func (c *Cert) ExtsWrapper() *Node {
	for _, k := range c.TBS().Children[c.base()+6:] {
		if k.Tag() == 0xa3 {
			return k
		}
	}
	return nil
}

// Exts returns the list node (SEQUENCE OF Extension), or nil.
func (c *Cert) Exts() *Node {
	w := c.ExtsWrapper()
	if w == nil || len(w.Children) != 1 {
		return nil
	}
	return w.Children[0]
}

// EnsureExts makes sure an extensions list exists (adding [3] and version v3 if needed).
func (c *Cert) EnsureExts() *Node {
	if e := c.Exts(); e != nil {
		return e
	}
	if c.base() == 0 {
		c.TBS().Children = append([]*Node{{Id: []byte{0xa0}, cons: true, Children: []*Node{Prim(0x02, []byte{2})}}}, c.TBS().Children...)
	} else {
		c.TBS().Children[0].Children[0] = Prim(0x02, []byte{2})
	}
	list := Cons(0x10)
	c.TBS().Children = append(c.TBS().Children, &Node{Id: []byte{0xa3}, cons: true, Children: []*Node{list}})
	return list
}

// ExtOID returns the dotted OID of an extension node.
func ExtOID(ext *Node) string {
	if len(ext.Children) == 0 {
		return ""
	}
	return OIDString(ext.Children[0].Content)
}

// ExtValue returns the OCTET STRING node of an extension.
func ExtValue(ext *Node) *Node {
	if len(ext.Children) == 0 {
		return nil
	}
	return ext.Children[len(ext.Children)-1]
}

// FindExt returns the first extension with the dotted OID, or nil.
func (c *Cert) FindExt(oid string) *Node {
	e := c.Exts()
	if e == nil {
		return nil
	}
	for _, x := range e.Children {
		if ExtOID(x) == oid {
			return x
		}
	}
	return nil
}

// RemoveExt removes all extensions with the OID.
func (c *Cert) RemoveExt(oid string) {
	e := c.Exts()
	if e == nil {
		return
	}
	var keep []*Node
	for _, x := range e.Children {
		if ExtOID(x) != oid {
			keep = append(keep, x)
		}
	}
	if keep == nil {
		keep = []*Node{}
	}
	e.Children = keep
}

// MakeExt builds an Extension node.
func MakeExt(oid *Node, critical bool, value []byte) *Node {
	kids := []*Node{oid}
	if critical {
		kids = append(kids, Prim(0x01, []byte{0xff}))
	}
	kids = append(kids, Prim(0x04, value))
	return Cons(0x10, kids...)
}

// SetExt replaces (or appends) the extension with the given OID.
func (c *Cert) SetExt(oidStr string, ext *Node) {
	list := c.EnsureExts()
	for i, x := range list.Children {
		if ExtOID(x) == oidStr {
			list.Children[i] = ext
			return
		}
	}
	list.Children = append(list.Children, ext)
}

// SetSigBytes replaces the signature BIT STRING payload keeping its length and unused-bit octet.
func (c *Cert) SetSigBytes(f func(old []byte) []byte) {
	s := c.Sig()
	if len(s.Content) < 1 {
		return
	}
	nw := f(append([]byte(nil), s.Content[1:]...))
	s.Content = append([]byte{s.Content[0]}, nw...)
}

const (
	OIDSAN = "2.5.29.17"
	OIDIAN = "2.5.29.18"
)

// SANNames returns the GeneralNames list node inside the SAN (or other GeneralNames-valued) extension.
func GeneralNamesOf(ext *Node) (*Node, error) {
	v := ExtValue(ext)
	if v == nil || v.Children != nil {
		return nil, errors.New("no value")
	}
	return Parse(v.Content)
}

// SetGeneralNames stores the list back into the extension.
func SetGeneralNames(ext *Node, list *Node) {
	ExtValue(ext).Content = list.Bytes()
}

package forge

// Expand descends into OCTET STRING / BIT STRING contents that themselves hold DER (extension values, the public key),
// turning them into subtrees whose lengths are recomputed when an inner node changes.
func Expand(n *Node) {
	for _, c := range n.Children {
		Expand(c)
	}
	if n.Children != nil || len(n.Content) < 2 {
		return
	}
	switch n.Tag() {
	case 0x04:
		if inner, err := Parse(n.Content); err == nil {
			Expand(inner)
			n.Children, n.Content = []*Node{inner}, nil
		}
	case 0x03:
		if n.Content[0] == 0 {
			if inner, err := Parse(n.Content[1:]); err == nil && inner.Constructed() {
				Expand(inner)
				n.bitPrefix = true
				n.Children, n.Content = []*Node{inner}, nil
			}
		}
	}
}

package forge

// GeneralName builders (context-specific tags of RFC 5280 GeneralName).
const (
	GNOther = 0xa0
	GNEmail = 0x81
	GNDNS   = 0x82
	GNDir   = 0xa4
	GNURI   = 0x86
	GNIP    = 0x87
	GNRID   = 0x88
)

// GN builds a primitive general name ([1],[2],[6],[7],[8]).
func GN(tag byte, content []byte) *Node { return Prim(tag, content) }

// GNDirName wraps a Name (RDNSequence node) as directoryName [4] (explicit).
func GNDirName(name *Node) *Node {
	return &Node{Id: []byte{GNDir}, cons: true, Children: []*Node{name.Clone()}}
}

// GeneralNames builds SEQUENCE OF GeneralName.
func GeneralNames(names ...*Node) *Node { return Cons(0x10, names...) }

// SetNamesExt sets (replaces or appends) a GeneralNames-valued extension such as SAN (2.5.29.17) or IAN (2.5.29.18).
func (c *Cert) SetNamesExt(oidStr string, oid *Node, critical bool, names []*Node) {
	c.SetExt(oidStr, MakeExt(oid, critical, GeneralNames(names...).Bytes()))
}

func OIDSANNode() *Node { return OID(2, 5, 29, 17) }
func OIDIANNode() *Node { return OID(2, 5, 29, 18) }
func OIDNCNode() *Node  { return OID(2, 5, 29, 30) }

// NamesOfExt returns the GeneralName nodes of a GeneralNames-valued extension (nil if absent / unparsable).
func (c *Cert) NamesOfExt(oidStr string) []*Node {
	ext := c.FindExt(oidStr)
	if ext == nil {
		return nil
	}
	l, err := GeneralNamesOf(ext)
	if err != nil || l.Children == nil {
		return nil
	}
	return l.Children
}

// SetPermittedIPs replaces the name constraints extension by one with the given permitted iPAddress subtrees (ip||mask).
func (c *Cert) SetPermittedIPs(ipAndMask [][]byte) {
	var subtrees []*Node
	for _, b := range ipAndMask {
		subtrees = append(subtrees, Cons(0x10, GN(GNIP, b)))
	}
	permitted := &Node{Id: []byte{0xa0}, cons: true, Children: subtrees}
	c.SetExt("2.5.29.30", MakeExt(OIDNCNode(), true, Cons(0x10, permitted).Bytes()))
}

// SetPermittedAndExcludedIPs: name constraints with permitted and excluded iPAddress subtrees (ip||mask each).
func (c *Cert) SetPermittedAndExcludedIPs(permittedIPs, excludedIPs [][]byte) {
	var ps, xs []*Node
	for _, b := range permittedIPs {
		ps = append(ps, Cons(0x10, GN(GNIP, b)))
	}
	for _, b := range excludedIPs {
		xs = append(xs, Cons(0x10, GN(GNIP, b)))
	}
	permitted := &Node{Id: []byte{0xa0}, cons: true, Children: ps}
	excluded := &Node{Id: []byte{0xa1}, cons: true, Children: xs}
	c.SetExt("2.5.29.30", MakeExt(OIDNCNode(), true, Cons(0x10, permitted, excluded).Bytes()))
}

// SetAttr replaces the value of the first attribute with the dotted OID in a Name (RDNSequence); returns false if absent.
func SetAttr(name *Node, oid string, tag byte, value []byte) bool {
	for _, rdn := range name.Children {
		for _, atv := range rdn.Children {
			if len(atv.Children) == 2 && OIDString(atv.Children[0].Content) == oid {
				atv.Children[1] = Prim(tag, value)
				return true
			}
		}
	}
	return false
}

// AddAttr appends a single-valued RDN.
func AddAttr(name *Node, oid *Node, tag byte, value []byte) {
	name.Children = append(name.Children, Cons(0x11, Cons(0x10, oid, Prim(tag, value))))
}

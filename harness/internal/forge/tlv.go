// Package forge is a minimal DER TLV tree with path edits. It uses the Go standard library only;
// it never calls into zlint.
package forge

import (
	"bytes"
	"errors"
	"fmt"
	"time"
)

// Node is one TLV. Id holds the identifier octets verbatim. A constructed node whose content
// parses as a sequence of TLVs has Children (and Content == nil); everything else keeps Content.
type Node struct {
	Id       []byte
	Content  []byte
	Children []*Node
	cons     bool
	// bitPrefix: an expanded BIT STRING; its body is 0x00 followed by the children
	bitPrefix bool
}

func (n *Node) Tag() byte         { return n.Id[0] }
func (n *Node) Constructed() bool { return n.cons }

var errTrunc = errors.New("truncated")

func parseOne(b []byte) (*Node, []byte, error) {
	if len(b) < 2 {
		return nil, nil, errTrunc
	}
	i := 1
	if b[0]&0x1f == 0x1f {
		for {
			if i >= len(b) {
				return nil, nil, errTrunc
			}
			i++
			if b[i-1]&0x80 == 0 {
				break
			}
		}
	}
	id := b[:i]
	if i >= len(b) {
		return nil, nil, errTrunc
	}
	l := int(b[i])
	i++
	if l&0x80 != 0 {
		nb := l & 0x7f
		if nb == 0 || nb > 4 || i+nb > len(b) {
			return nil, nil, errors.New("bad length")
		}
		l = 0
		for k := 0; k < nb; k++ {
			l = l<<8 | int(b[i+k])
		}
		i += nb
	}
	if l < 0 || i+l > len(b) {
		return nil, nil, errTrunc
	}
	n := &Node{Id: append([]byte(nil), id...), cons: id[0]&0x20 != 0}
	content := b[i : i+l]
	if n.cons {
		kids, err := parseAll(content)
		if err == nil {
			n.Children = kids
			if kids == nil {
				n.Children = []*Node{}
			}
		} else {
			n.Content = append([]byte(nil), content...)
		}
	} else {
		n.Content = append([]byte(nil), content...)
	}
	return n, b[i+l:], nil
}

func parseAll(b []byte) ([]*Node, error) {
	var out []*Node
	for len(b) > 0 {
		n, rest, err := parseOne(b)
		if err != nil {
			return nil, err
		}
		out = append(out, n)
		b = rest
	}
	return out, nil
}

// Parse parses exactly one TLV covering all of b.
func Parse(b []byte) (*Node, error) {
	n, rest, err := parseOne(b)
	if err != nil {
		return nil, err
	}
	if len(rest) != 0 {
		return nil, errors.New("trailing bytes")
	}
	return n, nil
}

func encLen(l int) []byte {
	switch {
	case l < 0x80:
		return []byte{byte(l)}
	case l < 0x100:
		return []byte{0x81, byte(l)}
	case l < 0x10000:
		return []byte{0x82, byte(l >> 8), byte(l)}
	case l < 0x1000000:
		return []byte{0x83, byte(l >> 16), byte(l >> 8), byte(l)}
	default:
		return []byte{0x84, byte(l >> 24), byte(l >> 16), byte(l >> 8), byte(l)}
	}
}

// Body returns the content octets (serialising children if any).
func (n *Node) Body() []byte {
	if n.Children == nil {
		return n.Content
	}
	var buf bytes.Buffer
	if n.bitPrefix {
		buf.WriteByte(0)
	}
	for _, c := range n.Children {
		buf.Write(c.Bytes())
	}
	return buf.Bytes()
}

// Bytes serialises the node in DER (minimal definite lengths).
func (n *Node) Bytes() []byte {
	body := n.Body()
	out := make([]byte, 0, len(body)+8)
	out = append(out, n.Id...)
	out = append(out, encLen(len(body))...)
	return append(out, body...)
}

// Clone deep-copies a node.
func (n *Node) Clone() *Node {
	c := &Node{Id: append([]byte(nil), n.Id...), cons: n.cons, bitPrefix: n.bitPrefix}
	if n.Children != nil {
		c.Children = make([]*Node, len(n.Children))
		for i, k := range n.Children {
			c.Children[i] = k.Clone()
		}
	} else {
		c.Content = append([]byte(nil), n.Content...)
	}
	return c
}

// Prim builds a primitive node.
func Prim(tag byte, content []byte) *Node {
	return &Node{Id: []byte{tag}, Content: append([]byte{}, content...)}
}

// Cons builds a constructed node.
func Cons(tag byte, kids ...*Node) *Node {
	if kids == nil {
		kids = []*Node{}
	}
	return &Node{Id: []byte{tag | 0x20}, Children: kids, cons: true}
}

// Raw wraps already-encoded DER as a node (parsed).
func Raw(der []byte) *Node {
	n, err := Parse(der)
	if err != nil {
		panic(fmt.Sprintf("forge.Raw: %v", err))
	}
	return n
}

// Walk visits every node depth-first (pre-order).
func (n *Node) Walk(f func(*Node)) {
	f(n)
	for _, c := range n.Children {
		c.Walk(f)
	}
}

// TimeNode encodes t as UTCTime (1950..2049) or GeneralizedTime, always "Z".
func TimeNode(t time.Time) *Node {
	t = t.UTC()
	if y := t.Year(); y >= 1950 && y < 2050 {
		return Prim(0x17, []byte(t.Format("060102150405Z")))
	}
	return Prim(0x18, []byte(fmt.Sprintf("%04d", t.Year())+t.Format("0102150405Z")))
}

// UTCTimeOffsetNode encodes the instant t as UTCTime written in a zone with the given offset
// (e.g. +0200). zcrypto accepts this form; the instant is unchanged.
func UTCTimeOffsetNode(t time.Time, offMin int) *Node {
	loc := time.FixedZone("", offMin*60)
	lt := t.In(loc)
	sign := byte('+')
	o := offMin
	if o < 0 {
		sign = '-'
		o = -o
	}
	return Prim(0x17, []byte(lt.Format("060102150405")+string(sign)+fmt.Sprintf("%02d%02d", o/60, o%60)))
}

// OID encodes a dotted OID given as ints.
func OID(arcs ...int) *Node {
	var b []byte
	b = append(b, byte(arcs[0]*40+arcs[1]))
	for _, a := range arcs[2:] {
		var tmp []byte
		tmp = append(tmp, byte(a&0x7f))
		a >>= 7
		for a > 0 {
			tmp = append([]byte{byte(a&0x7f) | 0x80}, tmp...)
			a >>= 7
		}
		b = append(b, tmp...)
	}
	return Prim(0x06, b)
}

// OIDString decodes the content of an OID node into dotted form.
func OIDString(content []byte) string {
	if len(content) == 0 {
		return ""
	}
	var arcs []int
	v := 0
	first := true
	for _, c := range content {
		v = v<<7 | int(c&0x7f)
		if c&0x80 == 0 {
			if first {
				if v < 80 {
					arcs = append(arcs, v/40, v%40)
				} else {
					arcs = append(arcs, 2, v-80)
				}
				first = false
			} else {
				arcs = append(arcs, v)
			}
			v = 0
		}
	}
	s := ""
	for i, a := range arcs {
		if i > 0 {
			s += "."
		}
		s += fmt.Sprint(a)
	}
	return s
}

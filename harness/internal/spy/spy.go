// Package spy runs a real lint body under the real framework (lint.CertificateLint.Execute etc.)
// while recording the framework->lint calls. No hook in zlint is needed: the driver builds its own
// lint.*Lint value with the real metadata and a constructor that wraps the real instance.
package spy

import (
	"fmt"

	"github.com/zmap/zcrypto/x509"
	"github.com/zmap/zlint/v3/lint"
	"golang.org/x/crypto/ocsp"
)

// Log is what one framework execution did to the lint.
type Log struct {
	Calls      []string
	Instances  int
	AppliesRet []bool
	BodyRet    *lint.LintResult
	BodyPanic  string // non-empty iff the body (or CheckApplies) panicked
	BodyNil    bool
}

func (l *Log) add(s string) { l.Calls = append(l.Calls, s) }

type certSpy struct {
	in  lint.CertificateLintInterface
	log *Log
}

func (s *certSpy) CheckApplies(c *x509.Certificate) bool {
	s.log.add("applies")
	defer s.log.onPanic()
	r := s.in.CheckApplies(c)
	s.log.AppliesRet = append(s.log.AppliesRet, r)
	return r
}
func (s *certSpy) Execute(c *x509.Certificate) *lint.LintResult {
	s.log.add("execute")
	defer s.log.onPanic()
	r := s.in.Execute(c)
	s.log.BodyRet = r
	s.log.BodyNil = r == nil
	return r
}

func (l *Log) onPanic() {
	if r := recover(); r != nil {
		l.BodyPanic = fmt.Sprint(r)
		panic(r)
	}
}

type certSpyCfg struct{ certSpy }

func (s *certSpyCfg) Configure() interface{} {
	s.log.add("configure")
	return s.in.(lint.Configurable).Configure()
}

// Cert returns a CertificateLint with the real metadata whose instances are spied on.
func Cert(real *lint.CertificateLint, log *Log) *lint.CertificateLint {
	return &lint.CertificateLint{LintMetadata: real.LintMetadata, Lint: func() lint.CertificateLintInterface {
		log.add("construct")
		log.Instances++
		in := real.Lint()
		if _, ok := in.(lint.Configurable); ok {
			return &certSpyCfg{certSpy{in, log}}
		}
		return &certSpy{in, log}
	}}
}

type crlSpy struct {
	in  lint.RevocationListLintInterface
	log *Log
}

func (s *crlSpy) CheckApplies(c *x509.RevocationList) bool {
	s.log.add("applies")
	defer s.log.onPanic()
	r := s.in.CheckApplies(c)
	s.log.AppliesRet = append(s.log.AppliesRet, r)
	return r
}
func (s *crlSpy) Execute(c *x509.RevocationList) *lint.LintResult {
	s.log.add("execute")
	defer s.log.onPanic()
	r := s.in.Execute(c)
	s.log.BodyRet = r
	s.log.BodyNil = r == nil
	return r
}

type crlSpyCfg struct{ crlSpy }

func (s *crlSpyCfg) Configure() interface{} {
	s.log.add("configure")
	return s.in.(lint.Configurable).Configure()
}

func CRL(real *lint.RevocationListLint, log *Log) *lint.RevocationListLint {
	return &lint.RevocationListLint{LintMetadata: real.LintMetadata, Lint: func() lint.RevocationListLintInterface {
		log.add("construct")
		log.Instances++
		in := real.Lint()
		if _, ok := in.(lint.Configurable); ok {
			return &crlSpyCfg{crlSpy{in, log}}
		}
		return &crlSpy{in, log}
	}}
}

type ocspSpy struct {
	in  lint.OcspResponseLintInterface
	log *Log
}

func (s *ocspSpy) CheckApplies(c *ocsp.Response) bool {
	s.log.add("applies")
	defer s.log.onPanic()
	r := s.in.CheckApplies(c)
	s.log.AppliesRet = append(s.log.AppliesRet, r)
	return r
}
func (s *ocspSpy) Execute(c *ocsp.Response) *lint.LintResult {
	s.log.add("execute")
	defer s.log.onPanic()
	r := s.in.Execute(c)
	s.log.BodyRet = r
	s.log.BodyNil = r == nil
	return r
}

type ocspSpyCfg struct{ ocspSpy }

func (s *ocspSpyCfg) Configure() interface{} {
	s.log.add("configure")
	return s.in.(lint.Configurable).Configure()
}

func OCSP(real *lint.OcspResponseLint, log *Log) *lint.OcspResponseLint {
	return &lint.OcspResponseLint{LintMetadata: real.LintMetadata, Lint: func() lint.OcspResponseLintInterface {
		log.add("construct")
		log.Instances++
		in := real.Lint()
		if _, ok := in.(lint.Configurable); ok {
			return &ocspSpyCfg{ocspSpy{in, log}}
		}
		return &ocspSpy{in, log}
	}}
}

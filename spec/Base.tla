------------------------------- MODULE Base -------------------------------
(* Vocabulary shared by every module: statuses, instants, effective window, scope           *)
(* predicates from raw parsed facts, and the reference semantics of one lint execution.     *)
EXTENDS Integers, Sequences, FiniteSets

\* ---- statuses; ordinals are Go's lint.LintStatus values
Reserved == 0  NA == 1  NE == 2  Pass == 3  Notice == 4  Warn == 5  Error == 6  Fatal == 7
Status   == 0..7
Defined  == 1..7
Finding  == {Notice, Warn, Error}
Judged   == Finding \cup {Pass}
Label(s) == CASE s = 0 -> "reserved" [] s = 1 -> "NA" [] s = 2 -> "NE" [] s = 3 -> "pass"
              [] s = 4 -> "info" [] s = 5 -> "warn" [] s = 6 -> "error" [] s = 7 -> "fatal" [] OTHER -> ""

\* ---- severity contract of lint names (C06)
Forbidden(prefix) == CASE prefix = "e" -> {Warn, Notice}
                       [] prefix = "w" -> {Error, Notice}
                       [] prefix = "n" -> {Warn, Error}
                       [] OTHER -> Status            \* no proper prefix: nothing is allowed

\* ---- instants: <<day, second-of-day>>, day counted from 0001-01-01 UTC (may be negative).
\*      Go's zero time.Time is <<0,0>>.
Zero == <<0, 0>>
Lt(a, b) == a[1] < b[1] \/ (a[1] = b[1] /\ a[2] < b[2])
Le(a, b) == ~Lt(b, a)
InWindow(eff, ineff, t) == (eff = Zero \/ Le(eff, t)) /\ (ineff = Zero \/ Lt(t, ineff))
PlusSec(t, d) == LET s == t[2] + d IN
                 IF s < 0 THEN <<t[1] - 1, s + 86400>> ELSE IF s >= 86400 THEN <<t[1] + 1, s - 86400>> ELSE <<t[1], s>>

\* ---- scope, from raw parsed facts  f = [ekus : SUBSET Int, unk : Nat, pols : SUBSET STRING, email : BOOLEAN]
EkuAny == 0  EkuServerAuth == 1  EkuEmailProtection == 4
BRPolicies    == {"2.23.140.1.1", "2.23.140.1.2.1", "2.23.140.1.2.2", "2.23.140.1.2.3"}
SMIMEPolicies == {"2.23.140.1.5.1.1","2.23.140.1.5.1.2","2.23.140.1.5.1.3",
                  "2.23.140.1.5.2.1","2.23.140.1.5.2.2","2.23.140.1.5.2.3",
                  "2.23.140.1.5.3.1","2.23.140.1.5.3.2","2.23.140.1.5.3.3",
                  "2.23.140.1.5.4.1","2.23.140.1.5.4.2","2.23.140.1.5.4.3"}
CSPolicies    == {"2.23.140.1.3", "2.23.140.1.4.1"}
NoEku(f)      == f.ekus = {} /\ f.unk = 0
ServerAuth(f) == NoEku(f) \/ f.ekus \cap {EkuAny, EkuServerAuth} # {} \/ f.pols \cap BRPolicies # {}
EmailProt(f)  == (f.email /\ (NoEku(f) \/ f.ekus \cap {EkuAny, EkuEmailProtection} # {})) \/ f.pols \cap SMIMEPolicies # {}
CodeSign(f)   == f.pols \cap CSPolicies # {}
InScope(kind, source, f) ==
    IF kind # "cert" THEN TRUE
    ELSE CASE source = "CABF_BR"       -> ServerAuth(f)
           [] source = "CABF_SMIME_BR" -> EmailProt(f)
           [] source = "CABF_CS_BR"    -> CodeSign(f)
           [] OTHER -> TRUE

\* ---- reference semantics of one lint execution
\* cfg \in {"none","ok","err","panic"} ("panic": applying the configuration panics, e.g. the zero-value Configuration{});
\* body = [k |-> "ret", st |-> s] | [k |-> "panic"] | [k |-> "nil"]
BodyDue(kind, m, f, cfg, applies, t) ==
    InScope(kind, m.source, f) /\ cfg \notin {"err", "panic"} /\ applies /\ InWindow(m.eff, m.ineff, t)
AppliesDue(kind, m, f, cfg) == InScope(kind, m.source, f) /\ cfg \notin {"err", "panic"}
Outcome(kind, m, f, cfg, applies, t, body) ==
   IF ~InScope(kind, m.source, f) THEN [st |-> NA, why |-> "scope"]
   ELSE IF cfg = "err" THEN [st |-> Fatal, why |-> "config"]
   ELSE IF cfg = "panic" THEN (IF kind = "cert" THEN [st |-> Fatal, why |-> "panicked"] ELSE [st |-> -1, why |-> "escape"])
   ELSE IF ~applies THEN [st |-> NA, why |-> "applies"]
   ELSE IF ~InWindow(m.eff, m.ineff, t) THEN [st |-> NE, why |-> "window"]
   ELSE IF body.k = "panic" THEN (IF kind = "cert" THEN [st |-> Fatal, why |-> "panicked"] ELSE [st |-> -1, why |-> "escape"])
   ELSE IF body.k = "nil" THEN [st |-> -1, why |-> "nil"]
   ELSE [st |-> body.st, why |-> "body"]
\* the framework -> lint call log of one execution (configure only for configurable lints)
Calls(kind, m, cfgable, f, cfg, applies, t) ==
   IF ~InScope(kind, m.source, f) THEN <<>>
   ELSE <<"construct">> \o (IF cfgable THEN <<"configure">> ELSE <<>>)
        \o (IF cfg \in {"err", "panic"} THEN <<>>
            ELSE <<"applies">> \o (IF applies /\ InWindow(m.eff, m.ineff, t) THEN <<"execute">> ELSE <<>>))

\* the same, with a panicking applicability test (appl \in {1, 0, -1}); a panic anywhere inside the
\* recover net of a certificate lint is reported the same way, outside it escapes
OutcomeA(kind, m, f, cfg, appl, t, body) ==
   IF appl = -1 /\ InScope(kind, m.source, f) /\ cfg # "err"
     THEN (IF kind = "cert" THEN [st |-> Fatal, why |-> "panicked"] ELSE [st |-> -1, why |-> "escape"])
     ELSE Outcome(kind, m, f, cfg, appl = 1, t, body)
CallCode(c) == CASE c = "construct" -> 1 [] c = "configure" -> 2 [] c = "applies" -> 3 [] c = "execute" -> 4
CallCodes(s) == [j \in 1..Len(s) |-> CallCode(s[j])]

ToSet(s) == {s[i] : i \in 1..Len(s)}
=============================================================================

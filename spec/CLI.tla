--------------------------------- MODULE CLI ---------------------------------
(* The command-line tool (v3/cmd/zlint/main.go) as a pipeline:                                  *)
(*   load configuration -> build the lint selection -> for each input: read, decode by format,  *)
(*   dispatch on the PEM type, parse, lint, print  -> exit.                                      *)
(* Any failing step terminates the process with a non-zero status; nothing is printed for the   *)
(* failing input or after it (results of earlier inputs are already out).                       *)
EXTENDS Integers, Sequences, FiniteSets, TLC
CONSTANTS Scenarios      \* set of records [fmt, chan, inputs, sel, cfg, mode]
VARIABLES scn, pc, i, printed, exit
vars == <<scn, pc, i, printed, exit>>

GoodSel == {"none", "incSources", "excSources", "incNames", "excNames", "nameFilter"}
BadSel  == {"unknownName", "unknownSource", "badRegexp", "filterAndNames", "unknownProfile", "emptyName", "emptyNameAmongNames"}
GoodCfg == {"none", "ok"}
BadCfg  == {"missing", "badtoml"}
\* the format an input is read with: a .der / .pem file suffix overrides the -format flag
EffFormat(s, it) == IF s.chan = "file" /\ it.suffix = "der" THEN "der"
                    ELSE IF s.chan = "file" /\ it.suffix = "pem" THEN "pem" ELSE s.fmt
\* an input is linted iff it is intact, is encoded the way it is read, and - for a CRL - arrives in its PEM armor
ItemOK(s, it) == it.corrupt = "none" /\ it.enc = EffFormat(s, it) /\ (it.obj = "crl" => it.enc = "pem")
SetupOK(s) == s.sel \in GoodSel /\ s.cfg \in GoodCfg

Init == scn \in Scenarios /\ pc = "setup" /\ i = 1 /\ printed = 0 /\ exit = -1
Setup == /\ pc = "setup"
         /\ IF SetupOK(scn) THEN pc' = "inputs" /\ UNCHANGED exit ELSE pc' = "exited" /\ exit' = 1
         /\ UNCHANGED <<scn, i, printed>>
Process == /\ pc = "inputs" /\ i <= Len(scn.inputs)
           /\ IF ItemOK(scn, scn.inputs[i]) THEN printed' = printed + 1 /\ i' = i + 1 /\ UNCHANGED <<pc, exit>>
              ELSE pc' = "exited" /\ exit' = 1 /\ UNCHANGED <<i, printed>>
           /\ UNCHANGED scn
Finish == /\ pc = "inputs" /\ i > Len(scn.inputs) /\ pc' = "exited" /\ exit' = 0 /\ UNCHANGED <<scn, i, printed>>
Next == Setup \/ Process \/ Finish
Spec == Init /\ [][Next]_vars

LeadingOK(s) == LET bad == {j \in 1..Len(s.inputs) : ~ItemOK(s, s.inputs[j])} IN
                IF bad = {} THEN Len(s.inputs) ELSE (CHOOSE j \in bad : \A k \in bad : j <= k) - 1
ExitZeroIffAllPrinted == pc = "exited" => (exit = 0 <=> (SetupOK(scn) /\ printed = Len(scn.inputs)))
FailClosed == pc = "exited" => printed = (IF SetupOK(scn) THEN LeadingOK(scn) ELSE 0)
NothingAfterFailure == [][pc = "exited" => UNCHANGED vars]_vars
=============================================================================

-------------------------------- MODULE Codec --------------------------------
(* C14: the JSON codec of statuses, result sets and the registry listing.                     *)
EXTENDS Base, TLC
Labels == {Label(s) : s \in Status}
Decode(lbl) == CHOOSE s \in Status : Label(s) = lbl           \* defined exactly on Labels
\* the design of the codec (checked by TLC in MC_Codec)
LabelInjective == \A a, b \in Status : Label(a) = Label(b) => a = b
NoEmptyLabel   == \A s \in Status : Label(s) # ""
DecodeEncode   == \A s \in Status : Decode(Label(s)) = s
OutOfRangeHasNoLabel == \A s \in {-1, 8, 9, 100} : Label(s) = ""
\* ---- judging recorded codec uses
LabelReasons(e) == IF e.status \in Status
                     THEN (IF e.label = Label(e.status) /\ e.marshalOK /\ e.json = Label(e.status) THEN {} ELSE {"label"})
                     ELSE {}                                                   \* out-of-range values: nothing promised
DecodeReasons(e) == IF e.token \in Labels
                      THEN (IF e.accepted /\ e.value = Decode(e.token) THEN {} ELSE {"known-label-not-decoded"})
                      ELSE (IF e.accepted THEN {"unknown-label-accepted"} ELSE {})
RoundTripReasons(e) == (IF e.marshalOK /\ e.unmarshalOK THEN {} ELSE {"not-encodable-or-decodable"}) \cup
                       (IF e.unmarshalOK /\ ~e.sameKeys THEN {"lints-lost-or-added"} ELSE {}) \cup
                       (IF e.unmarshalOK /\ ~e.sameStatus THEN {"status-changed"} ELSE {}) \cup
                       (IF e.unmarshalOK /\ ~e.sameDetails THEN {"details-changed"} ELSE {}) \cup
                       (IF e.unmarshalOK /\ ~e.sameFlags THEN {"flags-changed"} ELSE {}) \cup
                       (IF e.unmarshalOK /\ ~e.stable THEN {"fid-reencoding-differs"} ELSE {})
\* what the tool prints for an object it could read is the library's result set in JSON: it decodes, and to the same content
CliOutReasons(e) == (IF e.printed /\ e.exit = 0 THEN {} ELSE {"tool-output-is-not-a-result-set"}) \cup
                    (IF e.printed /\ ~e.sameKeys THEN {"lints-lost-or-added"} ELSE {}) \cup
                    (IF e.printed /\ ~e.sameStatus THEN {"status-changed"} ELSE {}) \cup
                    (IF e.printed /\ ~e.sameDetails THEN {"details-changed"} ELSE {}) \cup
                    (IF e.printed /\ ~e.sameFlags THEN {"flags-changed"} ELSE {})
ListingReasons(e) == (IF e.lines = e.registered THEN {} ELSE {"listing-line-count"}) \cup
                     (IF e.allDecode THEN {} ELSE {"listing-line-not-json"}) \cup
                     (IF e.allMatch THEN {} ELSE {"listing-fields-differ"}) \cup
                     (IF e.allSourcesKnown THEN {} ELSE {"listing-unknown-source"}) \cup
                     (IF e.distinctNames = e.registered THEN {} ELSE {"listing-duplicate-or-missing-lint"})
=============================================================================

----------------------------- MODULE Concurrent -----------------------------
(* Goroutines over shared registries (v3/lint/lint_lookup.go, registration.go, v3/resultset.go). *)
(*                                                                                              *)
(* Every goroutine runs a fixed program of operations; each operation is cut at the code's real *)
(* synchronisation points: RLock / the read / RUnlock of a lookup, the unlocked reads of        *)
(* registryImpl.Names(), one step per lint of a run, and - for Filter - `register` on a         *)
(* registry that is PRIVATE to the caller until Filter returns.                                  *)
(*                                                                                              *)
(* The step of one goroutine is a FUNCTION of the state (StepG): all nondeterminism is in the   *)
(* schedule.  The same function is used three ways: Next of the bounded model (every            *)
(* interleaving), the schedule exporter (Sched_Concurrent), and the trace specification         *)
(* (Trace_Concurrent advances a goroutine with Advance until it reaches the recorded point).    *)
(*                                                                                              *)
(* Deviation of the code that is modelled as written: `register` mutates the lookup tables      *)
(* while holding only the READ lock (mode "w" under lock type "R").  The model shows why it is  *)
(* harmless (the registry is private, or registration happens in init()) and what breaks it     *)
(* (Flaw = "publish-early").                                                                     *)
EXTENDS RegistryOps
SX == INSTANCE SequencesExt

CONSTANTS G,               \* goroutines: a set of positive integers
          Progs,           \* set of program assignments [G -> Seq(operation record)]; a behaviour starts from any of them (st.prog)
          RecOf(_),        \* the lint record [name, kind, source] of a name (names are integers: ranks in sorted order)
          GlobalReg,       \* slot 0: [Kinds -> [lints : Seq(name) in registration order, names : sorted Seq(name), has : set of names]]
          NSlots,          \* slots 1..NSlots receive the registries made by Filter (field `into`, unique per Filter)
          Selects(_, _),   \* Selects(f, x): does filter f select lint record x
          VerdictOf(_, _), \* the model's ground truth: status of lint name n on object o
          Flaw             \* "none" | "publish-early" | "reentrant-lock" | "scratch"
VARIABLE st

LookupOrder == <<"cert", "ocsp", "crl">>          \* Filter asks the three lookups in this order
NoReg == [k \in Kinds |-> [lints |-> <<>>, names |-> <<>>, has |-> {}]]
\* `register`: append to the listing, insert into the sorted name list (the code appends and re-sorts)
InsertAsc(q, n) == IF q = <<>> \/ q[Len(q)] < n THEN Append(q, n) ELSE InsertSorted(q, n)
AddLint(reg, n) == [reg EXCEPT ![RecOf(n).kind] = [lints |-> Append(@.lints, n), names |-> InsertAsc(@.names, n), has |-> @.has \cup {n}]]
NamesAll(reg) == SX!SetToSortSeq(reg["cert"].has \cup reg["crl"].has \cup reg["ocsp"].has, LAMBDA a, b : a < b)
HasName(reg, k, n) == n \in reg[k].has

\* ---- the locked readers of a registry: what = "KNames" | "ByName" | "BySource" | "Lints" | "Sources" | "Listing";
\*      ks = the lookups locked one after the other (Listing = WriteJSON: cert, ocsp, crl; Sources: cert, crl, ocsp)
NamesOfLints(q) == q
PartRead(reg, c, k) == CASE c.what = "KNames"   -> reg[k].names
                         [] c.what = "ByName"   -> IF HasName(reg, k, c.n) THEN <<c.n>> ELSE <<>>
                         [] c.what = "BySource" -> SelectSeq(reg[k].lints, LAMBDA n : RecOf(n).source = c.src)
                         [] c.what \in {"Lints", "Listing"} -> reg[k].lints
                         [] c.what = "Sources"  -> {RecOf(n).source : n \in reg[k].has}
Combine(c, parts) == IF c.what = "Sources" THEN UNION {parts[i] : i \in 1..Len(parts)}
                     ELSE LET RECURSIVE Cat(_)
                              Cat(i) == IF i > Len(parts) THEN <<>> ELSE parts[i] \o Cat(i + 1)
                          IN Cat(1)

\* ---------------------------------------------------------------- sequential meaning of every operation
FilterOps(P) == UNION {{P[g][i] : i \in {j \in 1..Len(P[g]) : P[g][j].op = "Filter"}} : g \in G}
RECURSIVE SeqReg(_, _)
SeqFilter(reg, f) == LET sel == SelectSeq(NamesAll(reg), LAMBDA n : Selects(f, RecOf(n)))
                         RECURSIVE Build(_, _)
                         Build(r, q) == IF q = <<>> THEN r ELSE Build(AddLint(r, Head(q)), Tail(q))
                     IN Build(NoReg, sel)
SeqReg(P, s) == IF s = 0 THEN GlobalReg ELSE LET c == CHOOSE c \in FilterOps(P) : c.into = s IN SeqFilter(SeqReg(P, c.r), c.f)
SeqReply(P, c) == CASE c.op = "Lint"   -> LET q == SeqReg(P, c.r)[c.k].lints IN [j \in 1..Len(q) |-> <<q[j], VerdictOf(c.o, q[j])>>]
                 [] c.op = "Names"  -> NamesAll(SeqReg(P, c.r))
                 [] c.op = "Read"   -> Combine(c, [i \in 1..Len(c.ks) |-> PartRead(SeqReg(P, c.r), c, c.ks[i])])
                 [] c.op = "Filter" -> NamesAll(SeqReg(P, c.into))

\* ---------------------------------------------------------------- state
\* held : set of [g, s, k, m, lk]   lock of lookup k of the registry in slot s, held by g; m = what g does under it
\*        ("r" read, "w" write), lk = lock type ("R" RLock, "W" Lock)
\* ur   : set of [g, s]              g is inside the unlocked reads of the three name tables of slot s
PC0 == [i |-> 1, at |-> "start", j |-> 1, kk |-> 1, todo |-> <<>>, acc |-> <<>>]
InitState(P) == [prog |-> P, regs |-> [s \in 0..NSlots |-> IF s = 0 THEN GlobalReg ELSE NoReg],
              pub |-> [s \in 0..NSlots |-> s = 0],
              held |-> {}, ur |-> {}, scratch |-> 0,
              pc |-> [g \in G |-> PC0], reply |-> [g \in G |-> <<>>]]
Finished(s, g) == s.pc[g].i > Len(s.prog[g])
Cur(s, g) == s.prog[g][s.pc[g].i]
At(s, g) == IF Finished(s, g) THEN "done" ELSE s.pc[g].at
\* the Go RWMutex: a reader is admitted unless a writer holds the lock; a writer needs it alone (not re-entrant)
CanRLock(s, g, sl, k) == ~\E h \in s.held : h.s = sl /\ h.k = k /\ h.lk = "W"
CanLock(s, g, sl, k)  == ~\E h \in s.held : h.s = sl /\ h.k = k
\* the lookup a locked step of the current operation works on
LockTarget(s, g) == LET c == Cur(s, g) a == s.pc[g].at IN
   CASE a = "Llock" -> <<c.r, c.k>>
     [] a = "Klock" -> <<c.r, c.ks[s.pc[g].kk]>>
     [] a = "Flk" -> <<c.r, LookupOrder[s.pc[g].kk]>>
     [] a \in {"Fwl", "Fwr"} -> <<c.into, RecOf(s.pc[g].todo[s.pc[g].j]).kind>>
     [] OTHER -> <<0, "cert">>
Enabled(s, g) ==
   /\ ~Finished(s, g)
   /\ LET a == s.pc[g].at t == LockTarget(s, g) IN
      CASE a = "start" -> s.pub[Cur(s, g).r]                               \* a registry is used only after it was handed out
        [] a \in {"Llock", "Klock", "Flk", "Fwr"} -> CanRLock(s, g, t[1], t[2])
        [] a = "Fwl" -> IF Flaw = "reentrant-lock" THEN CanLock(s, g, t[1], t[2]) ELSE CanRLock(s, g, t[1], t[2])
        [] OTHER -> TRUE

Goto(s, g, lab) == [s EXCEPT !.pc[g].at = lab]
Hold(s, g, sl, k, m, lk) == [s EXCEPT !.held = @ \cup {[g |-> g, s |-> sl, k |-> k, m |-> m, lk |-> lk]}]
Release(s, g, sl, k) == [s EXCEPT !.held = {h \in @ : ~(h.g = g /\ h.s = sl /\ h.k = k)}]
EndOp(s, g, rep) == [s EXCEPT !.reply[g] = Append(@, rep), !.pc[g] = [PC0 EXCEPT !.i = s.pc[g].i + 1]]

\* ---------------------------------------------------------------- one step of goroutine g (a function of the state)
StepG(s, g) ==
  LET c == Cur(s, g)  p == s.pc[g]  a == p.at IN
  CASE
  \* ---- Lint*Ex(o, registry r): registry.Names() for the map size, Lints() under RLock, then one step per lint
       a = "start" /\ c.op = "Lint"   -> Goto(s, g, "Lsz1")
    [] a = "Lsz1" -> Goto([s EXCEPT !.ur = @ \cup {[g |-> g, s |-> c.r]}], g, "Lsz2")
    [] a = "Lsz2" -> Goto([s EXCEPT !.ur = @ \ {[g |-> g, s |-> c.r]}], g, "Llock")
    [] a = "Llock" -> Goto(Hold(s, g, c.r, c.k, "r", "R"), g, "Lread")
    [] a = "Lread" -> [s EXCEPT !.pc[g].at = "Lunl", !.pc[g].todo = s.regs[c.r][c.k].lints, !.pc[g].j = 1, !.pc[g].acc = <<>>]
    [] a = "Lunl" -> Goto(Release(s, g, c.r, c.k), g, "Lloop")
    [] a = "Lloop" -> IF p.j > Len(p.todo) THEN EndOp(s, g, p.acc)
                      ELSE IF Flaw = "scratch" THEN [s EXCEPT !.pc[g].at = "Lbody", !.scratch = c.o]   \* package-level scratch variable
                      ELSE Goto(s, g, "Lbody")                                                       \* gate: run.lint
    [] a = "Lbody" -> LET n == p.todo[p.j]  obj == IF Flaw = "scratch" THEN s.scratch ELSE c.o IN
                      [s EXCEPT !.pc[g].at = "Lloop", !.pc[g].j = p.j + 1, !.pc[g].acc = Append(p.acc, <<n, VerdictOf(obj, n)>>)]
  \* ---- registry.Names(): the three name tables are read without any lock
    [] a = "start" /\ c.op = "Names"  -> Goto([s EXCEPT !.ur = @ \cup {[g |-> g, s |-> c.r]}], g, "Ne")
    [] a = "Ne" -> EndOp([s EXCEPT !.ur = @ \ {[g |-> g, s |-> c.r]}], g, NamesAll(s.regs[c.r]))
  \* ---- the readers of the lookups (Names, ByName, BySource, Lints, Sources, WriteJSON): per lookup RLock, read, RUnlock
    [] a = "start" /\ c.op = "Read" -> Goto(s, g, "Klock")
    [] a = "Klock" -> Goto(Hold(s, g, c.r, c.ks[p.kk], "r", "R"), g, "Kread")
    [] a = "Kread" -> [s EXCEPT !.pc[g].at = "Kunl", !.pc[g].acc = Append(p.acc, PartRead(s.regs[c.r], c, c.ks[p.kk]))]
    [] a = "Kunl" -> LET s1 == Release(s, g, c.r, c.ks[p.kk]) IN
                     IF p.kk < Len(c.ks) THEN [s1 EXCEPT !.pc[g].at = "Klock", !.pc[g].kk = p.kk + 1]
                     ELSE EndOp(s1, g, Combine(c, p.acc))
  \* ---- Filter(r, f) -> slot `into`: a fresh registry, private until the call returns
    [] a = "start" /\ c.op = "Filter" -> Goto([s EXCEPT !.regs[c.into] = NoReg, !.pub[c.into] = (Flaw = "publish-early")], g, "Fb")
    [] a = "Fb" -> Goto([s EXCEPT !.ur = @ \cup {[g |-> g, s |-> c.r]}], g, "Fe")                  \* r.Names(), unlocked
    [] a = "Fe" -> [s EXCEPT !.ur = @ \ {[g |-> g, s |-> c.r]}, !.pc[g].at = "Floop", !.pc[g].j = 1, !.pc[g].kk = 1,
                             !.pc[g].todo = NamesAll(s.regs[c.r])]
    [] a = "Floop" -> IF p.j > Len(p.todo) THEN Goto(s, g, "Ffin") ELSE Goto(s, g, "Flk")
    [] a = "Flk" -> Goto(Hold(s, g, c.r, LookupOrder[p.kk], "r", "R"), g, "Flu")                    \* ByName on lookup kk
    [] a = "Flu" -> LET k == LookupOrder[p.kk]  n == p.todo[p.j]  s1 == Release(s, g, c.r, k) IN
                    IF HasName(s.regs[c.r], k, n)
                      THEN IF Selects(c.f, RecOf(n)) THEN Goto(s1, g, "Freg")
                           ELSE [s1 EXCEPT !.pc[g].at = "Floop", !.pc[g].j = p.j + 1, !.pc[g].kk = 1]
                      ELSE IF p.kk < 3 THEN [s1 EXCEPT !.pc[g].at = "Flk", !.pc[g].kk = p.kk + 1]
                      ELSE [s1 EXCEPT !.pc[g].at = "Floop", !.pc[g].j = p.j + 1, !.pc[g].kk = 1]
    [] a = "Freg" -> Goto(s, g, "Fwl")                                                              \* gate: filter.register
    [] a = "Fwl" -> Goto(Hold(s, g, c.into, RecOf(p.todo[p.j]).kind, "w", IF Flaw = "reentrant-lock" THEN "W" ELSE "R"), g,
                         IF Flaw = "reentrant-lock" THEN "Fwr" ELSE "Fww")
    [] a = "Fwr" -> Goto(s, g, "Fww")                                                               \* a lookup call made while holding Lock: never enabled
    [] a = "Fww" -> Goto([s EXCEPT !.regs[c.into] = AddLint(@, p.todo[p.j])], g, "Fwu")
    [] a = "Fwu" -> [Release(s, g, c.into, RecOf(p.todo[p.j]).kind) EXCEPT !.pc[g].at = "Floop", !.pc[g].j = p.j + 1, !.pc[g].kk = 1]
    [] a = "Ffin" -> EndOp([s EXCEPT !.pub[c.into] = TRUE], g, NamesAll(s.regs[c.into]))

\* the steps at which the real code passes a gate where a scheduler may hold the goroutine (no lock is held there)
IsControl(s, g) == ~Finished(s, g) /\ (s.pc[g].at \in {"start", "Freg"} \/ (s.pc[g].at = "Lloop" /\ s.pc[g].j <= Len(s.pc[g].todo)))
HoldsNothing(s, g) == ~\E h \in s.held : h.g = g

Init == st \in {InitState(P) : P \in Progs}
AllDone == \A g \in G : Finished(st, g)
Next == \/ \E g \in G : Enabled(st, g) /\ st' = StepG(st, g)
        \/ (AllDone /\ UNCHANGED st)
Spec == Init /\ [][Next]_st

\* ---------------------------------------------------------------- properties (C10)
Creator(sl) == CHOOSE g \in G : \E i \in 1..Len(st.prog[g]) : st.prog[g][i].op = "Filter" /\ st.prog[g][i].into = sl
Accesses(s) == s.held \cup UNION {{[g |-> u.g, s |-> u.s, k |-> k, m |-> "r", lk |-> "-"] : k \in Kinds} : u \in s.ur}
\* no table is written while another goroutine reads or writes it (what the race detector reports)
NoConflictingAccess == \A a, b \in Accesses(st) : (a.g # b.g /\ a.s = b.s /\ a.k = b.k) => (a.m = "r" /\ b.m = "r")
LockSane == \A a, b \in st.held : (a # b /\ a.s = b.s /\ a.k = b.k) => (a.lk = "R" /\ b.lk = "R")
\* a registry under construction is touched by its creator only
PrivateUntilReturned == \A a \in Accesses(st) : st.pub[a.s] \/ a.g = Creator(a.s)
\* every finished operation replied what the same call replies when made alone
Linearizable == \A g \in G : \A i \in 1..Len(st.reply[g]) : st.reply[g][i] = SeqReply(st.prog, st.prog[g][i])
\* gates sit at lock-free points: holding a goroutine there can never block another one
GatesAreLockFree == \A g \in G : IsControl(st, g) => HoldsNothing(st, g)
\* published registries never change again (what makes concurrent use equal to sequential use)
Immutable == [][\A sl \in 0..NSlots : (st.pub[sl] /\ st'.pub[sl]) => st'.regs[sl] = st.regs[sl]]_st
=============================================================================

----------------------------- MODULE ConfigDoc -----------------------------
(* The configuration as a DOCUMENT and its resolution into the option struct of one lint        *)
(* (v3/lint/configuration.go: Configure -> deserializeConfigInto -> resolveHigherScopedReferences;*)
(* v3/lint/registration.go: DefaultConfiguration / stripGlobalsFromExample).                     *)
(*                                                                                              *)
(* A document maps top-level keys to sections:                                                   *)
(*     [k |-> "absent"] | [k |-> "scalar"] | [k |-> "array"] | [k |-> "table", kv |-> [key -> class]]*)
(* where the class of a key inside a table says what is written there for that option:           *)
(*     "def"  a well-typed value equal to the default      "new"  a well-typed other value        *)
(*     "bad"  a value of the wrong type (a string for a number, a number for a table ...)          *)
(* A lint's option struct is a SHAPE:                                                            *)
(*     opts     the option keys the section may set (exported fields, nested ones as "Inner.Depth")*)
(*     globals  references to higher-scoped configurations: [ns, ptr, reach]                      *)
(*              ns = the top-level key of that configuration, ptr = held by pointer (nil until    *)
(*              resolved), reach = FALSE for a reference in an unexported field (never resolved)   *)
(* Resolve is the reference semantics: what the lint instance holds after Configure, or an error. *)
(* C11 in these terms: the outcome is a function of the lint's own section and of the sections of  *)
(* the higher-scoped configurations it references - of nothing else in the document; a section     *)
(* that cannot be applied is an error for exactly the lints that read it.                           *)
EXTENDS Integers, Sequences, FiniteSets, TLC

Absent == [k |-> "absent"]
IsTable(s) == s.k = "table"
NotATable(s) == s.k \in {"scalar", "array"}
Get(D, key) == IF key \in DOMAIN D THEN D[key] ELSE Absent

\* ---- reading one section into the option struct
OwnError(shape, sec) == NotATable(sec) \/ (IsTable(sec) /\ \E o \in DOMAIN sec.kv \cap shape.opts : sec.kv[o] = "bad")
Reached(shape) == {g \in shape.globals : g.reach}
GlobalError(shape, D) == \E g \in Reached(shape) : NotATable(Get(D, g.ns))
OptionValue(sec, o) == IF IsTable(sec) /\ o \in DOMAIN sec.kv THEN sec.kv[o] ELSE "def"       \* unknown keys of the table are ignored
Resolve(shape, D, name) ==
   LET sec == Get(D, name) IN
   IF OwnError(shape, sec) THEN [ok |-> FALSE, why |-> "own-section"]
   ELSE IF GlobalError(shape, D) THEN [ok |-> FALSE, why |-> "global-section"]
   ELSE [ok |-> TRUE,
         vals |-> [o \in shape.opts |-> IF OptionValue(sec, o) = "new" THEN "new" ELSE "def"],
         \* a reference held by pointer is non-nil afterwards iff it was reached
         ptrs |-> {g.id : g \in {x \in shape.globals : x.ptr /\ x.reach}}]
\* the sections a lint's outcome may depend on
Reads(shape, name) == {name} \cup {g.ns : g \in Reached(shape)}

\* ---- the generated example configuration: one table per configurable lint holding its defaults (references to
\*      higher-scoped configurations stripped), one (empty) table per higher-scoped configuration of the list
ExampleDoc(Shapes, ExampleGlobals) ==
   [key \in DOMAIN Shapes \cup ExampleGlobals |->
       IF key \in DOMAIN Shapes THEN [k |-> "table", kv |-> [o \in Shapes[key].opts |-> "def"]]
       ELSE [k |-> "table", kv |-> <<>>]]

\* ---- design properties (checked by TLC over a bounded space of documents: MC_ConfigDoc)
Locality(Shapes, Docs) ==
   \A D1, D2 \in Docs : \A l \in DOMAIN Shapes :
      (\A key \in Reads(Shapes[l], l) : Get(D1, key) = Get(D2, key)) => Resolve(Shapes[l], D1, l) = Resolve(Shapes[l], D2, l)
DefaultsNeutral(Shapes, Docs) ==
   \A D \in Docs : \A l \in DOMAIN Shapes :
      (Get(D, l).k = "absent" /\ \A g \in Reached(Shapes[l]) : ~NotATable(Get(D, g.ns))) =>
          LET r == Resolve(Shapes[l], D, l) IN r.ok /\ \A o \in Shapes[l].opts : r.vals[o] = "def"
ErrorsExactlyWhenUnapplicable(Shapes, Docs) ==
   \A D \in Docs : \A l \in DOMAIN Shapes :
      ~Resolve(Shapes[l], D, l).ok <=> (OwnError(Shapes[l], Get(D, l)) \/ GlobalError(Shapes[l], D))
ExampleIsNeutral(Shapes, ExampleGlobals) ==
   \A l \in DOMAIN Shapes : Resolve(Shapes[l], ExampleDoc(Shapes, ExampleGlobals), l) = Resolve(Shapes[l], <<>>, l)
=============================================================================

---------------------------- MODULE ConfigShapes ----------------------------
(* The option structs of the six mock lints the driver registers (harness/cmd/drive/cfgdoc.go),  *)
(* as shapes of ConfigDoc.tla, and the higher-scoped configurations the example lists.            *)
EXTENDS ConfigDoc
G(id, ns, ptr, reach) == [id |-> id, ns |-> ns, ptr |-> ptr, reach |-> reach]
Shapes == [e_verif_cfg_plain  |-> [opts |-> {"Value", "Flag", "Text"}, globals |-> {}],
           e_verif_cfg_gval   |-> [opts |-> {"Value"}, globals |-> {G("G", "Global", FALSE, TRUE), G("BR", "CABFBaselineRequirementsConfig", FALSE, TRUE)}],
           e_verif_cfg_gptr   |-> [opts |-> {"Value"}, globals |-> {G("G", "Global", TRUE, TRUE), G("R", "RFC5280Config", TRUE, TRUE)}],
           e_verif_cfg_nested |-> [opts |-> {"Value", "Inner.Depth"}, globals |-> {G("Inner.G", "Global", TRUE, TRUE), G("hidden", "RFC5280Config", TRUE, FALSE)}],
           e_verif_cfg_crl    |-> [opts |-> {"Value"}, globals |-> {G("G", "Global", TRUE, TRUE)}],
           e_verif_cfg_ocsp   |-> [opts |-> {"Value"}, globals |-> {}]]
GlobalKeys == {"Global", "RFC5280Config", "CABFBaselineRequirementsConfig"}
\* the higher-scoped configurations listed by the example (registration.go defaultGlobals, Global itself is flattened away)
ExampleGlobals == {"CABFBaselineRequirementsConfig", "RFC5280Config", "RFC5480Config", "RFC5891Config", "CABFEVGuidelinesConfig",
                   "MozillaRootStorePolicyConfig", "AppleRootStorePolicyConfig", "CommunityConfig"}
=============================================================================

--------------------------------- MODULE Env ---------------------------------
(* C05, I/O freedom.  While linting, the process takes no step that touches the file system,   *)
(* the network, other processes or the environment.  The only steps the specification has are  *)
(* the Go runtime's own (threads, memory, scheduling, signals, timers, its epoll/pipe fds).     *)
EXTENDS Base
RuntimeSyscalls == {"futex", "nanosleep", "clock_nanosleep", "tgkill", "rt_sigreturn", "getpid", "gettid", "sched_yield", "epoll_pwait", "epoll_wait",
                    "madvise", "mmap", "munmap", "mprotect", "rt_sigprocmask", "sigaltstack", "clone", "clone3", "brk", "mremap",
                    "sched_getaffinity", "rt_sigaction", "restart_syscall", "exit", "membarrier", "rseq", "set_robust_list", "prctl",
                    "getrandom", "timer_settime", "timer_create", "timer_delete", "epoll_ctl", "eventfd2", "pipe2", "read", "write", "close"}
\* read/write/close are allowed only on descriptors the runtime itself created (the harness reports the class)
SyscallOK(e) == /\ e.name \in RuntimeSyscalls
                /\ (e.name \in {"read", "write", "close"} => e.fdclass \in {"runtime", "marker"})
                /\ (e.name \in {"clone", "clone3"} => e.thread)
\* static side: calls into os / net / exec / syscall / time reachable from a lint's methods
ClockLints == {"w_sub_cert_aia_contains_internal_names", "w_smime_aia_contains_internal_names"}   \* "today's TLD table"
CallOK(lint, callee) == callee = "time.Now" /\ lint \in ClockLints
FrameworkCallOK(callee) == callee = "time.Now"          \* the result set's Timestamp; no verdict depends on it
=============================================================================

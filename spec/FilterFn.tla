------------------------------ MODULE FilterFn ------------------------------
(* Filter as a pure function on sets of lints (v3/lint/registration.go, registryImpl.Filter):   *)
(* the five selection options with their precedence, the trimming of listed names, the two      *)
(* documented errors.  Kept free of RECURSIVE so that TLAPS can read it (Proofs_Registry.tla).   *)
EXTENDS Integers, Sequences, FiniteSets

\* ---------------------------------------------------------------- Filter as a function (C08)
\* option record: xs, is : sets of sources; nf : "nil" or a match-set id; xn, inn : sets of <<name, pad>>
\* (pad is whatever TrimSpace removes; the name is what is left).  listsGiven: any token at all.
TrimTok(e) == e[1]
EmptyOpts(o) == o.nf = "nil" /\ o.xn = {} /\ o.inn = {} /\ o.xs = {} /\ o.is = {}
NamesOf(R) == {x.name : x \in R}
FilterResult(R, o, MatchSets) ==
  IF EmptyOpts(o) THEN [err |-> "none", same |-> TRUE, sel |-> R]
  ELSE LET ex == {TrimTok(e) : e \in o.xn}  inc == {TrimTok(e) : e \in o.inn} IN
       IF \E n \in ex \cup inc : n \notin NamesOf(R) THEN [err |-> "unknown", same |-> FALSE, sel |-> {}]
       ELSE IF o.nf # "nil" /\ (ex # {} \/ inc # {}) THEN [err |-> "conflict", same |-> FALSE, sel |-> {}]
       ELSE [err |-> "none", same |-> FALSE,
             sel |-> {x \in R : /\ x.source \notin o.xs
                                /\ (o.is = {} \/ x.source \in o.is)
                                /\ (o.nf = "nil" \/ x.name \in MatchSets[o.nf])
                                /\ x.name \notin ex
                                /\ (inc = {} \/ x.name \in inc)}]
=============================================================================

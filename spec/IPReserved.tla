----------------------------- MODULE IPReserved -----------------------------
(* C19: reserved-address verdicts for hosts and networks.  An address is a tuple of 16-bit     *)
(* groups (2 for IPv4, 8 for IPv6); a network is [base, len].                                  *)
EXTENDS Integers, Sequences, FiniteSets, TLC
Pow2(n) == CASE n = 0 -> 1 [] n = 1 -> 2 [] n = 2 -> 4 [] n = 3 -> 8 [] n = 4 -> 16 [] n = 5 -> 32 [] n = 6 -> 64 [] n = 7 -> 128
             [] n = 8 -> 256 [] n = 9 -> 512 [] n = 10 -> 1024 [] n = 11 -> 2048 [] n = 12 -> 4096 [] n = 13 -> 8192
             [] n = 14 -> 16384 [] n = 15 -> 32768 [] n = 16 -> 65536
Min(a, b) == IF a < b THEN a ELSE b
Max(a, b) == IF a > b THEN a ELSE b
\* number of prefix bits that fall into group j (1-based)
BitsIn(len, j) == Max(0, Min(16, len - 16 * (j - 1)))
\* network n contains address a (same family)
Contains(n, a) == /\ Len(a) = Len(n.base)
                  /\ \A j \in 1..Len(a) : LET k == 16 - BitsIn(n.len, j) IN a[j] \div Pow2(k) = n.base[j] \div Pow2(k)
\* n contains every address of m
NetContainsNet(n, m) == Len(n.base) = Len(m.base) /\ n.len <= m.len /\ Contains(n, m.base)
NetsIntersect(n, m) == NetContainsNet(n, m) \/ NetContainsNet(m, n)
FirstAddr(n) == [j \in 1..Len(n.base) |-> LET k == 16 - BitsIn(n.len, j) IN (n.base[j] \div Pow2(k)) * Pow2(k)]
LastAddr(n)  == [j \in 1..Len(n.base) |-> LET k == 16 - BitsIn(n.len, j) IN (n.base[j] \div Pow2(k)) * Pow2(k) + Pow2(k) - 1]
\* the block next to n in address space (last prefix bit flipped), len >= 1
Sibling(n) == LET j == ((n.len - 1) \div 16) + 1
                  bit == Pow2(16 - ((n.len - 1) % 16) - 1)
                  f == FirstAddr(n) IN
              [base |-> [f EXCEPT ![j] = IF (f[j] \div bit) % 2 = 1 THEN f[j] - bit ELSE f[j] + bit], len |-> n.len]
Prefix(a, len) == [base |-> FirstAddr([base |-> a, len |-> len]), len |-> len]
MaxLen(a) == 16 * Len(a)

\* ---- the special-purpose blocks the property names
V4(a, b, c, d, len) == [base |-> <<a * 256 + b, c * 256 + d>>, len |-> len]
MustBeReserved ==
  { V4(10,0,0,0,8), V4(172,16,0,0,12), V4(192,168,0,0,16),          \* RFC 1918
    V4(127,0,0,0,8),                                                  \* loopback
    V4(169,254,0,0,16),                                               \* link-local
    V4(100,64,0,0,10),                                                \* shared address space
    V4(192,0,2,0,24), V4(198,51,100,0,24), V4(203,0,113,0,24),       \* documentation
    V4(198,18,0,0,15),                                                \* benchmarking
    V4(224,0,0,0,4),                                                  \* multicast
    V4(240,0,0,0,4),                                                  \* class E, broadcast included
    V4(0,0,0,0,32),                                                   \* unspecified
    [base |-> <<0,0,0,0,0,0,0,1>>, len |-> 128],                      \* ::1
    [base |-> <<64512,0,0,0,0,0,0,0>>, len |-> 7],                    \* fc00::/7 unique local
    [base |-> <<65152,0,0,0,0,0,0,0>>, len |-> 10],                   \* fe80::/10 link-local
    [base |-> <<65280,0,0,0,0,0,0,0>>, len |-> 8],                    \* ff00::/8 multicast
    [base |-> <<8193,3512,0,0,0,0,0,0>>, len |-> 32],                 \* 2001:db8::/32 documentation
    [base |-> <<8194,0,0,0,0,0,0,0>>, len |-> 16],                    \* 2002::/16 6to4
    [base |-> <<256,0,0,0,0,0,0,0>>, len |-> 64],                     \* 100::/64 discard
    [base |-> <<0,0,0,0,0,0,0,0>>, len |-> 128] }                     \* ::
MustBePublic == { <<8*256+8, 8*256+8>>, <<1*256+1, 1*256+1>>, <<9*256+9, 9*256+9>>, <<93*256+184, 216*256+34>>, <<151*256+101, 1*256+140>>,
                  <<8193,18528,18528,0,0,0,0,34952>>,     \* 2001:4860:4860::8888
                  <<9734,18176,18176,0,0,0,0,4369>>,      \* 2606:4700:4700::1111
                  <<9760,254,0,0,0,0,0,254>> }            \* 2620:fe::fe
ReservedByName(a) == \E b \in MustBeReserved : Contains(b, a)
NetTouchesNamed(n) == \E b \in MustBeReserved : NetsIntersect(n, b)
\* what network P keeps of the named blocks when its sub-network E is excluded (nested prefixes: P and a block share the longer one)
StillTouches(P, E) == \E b \in MustBeReserved : NetsIntersect(P, b) /\ ~NetContainsNet(E, IF NetContainsNet(P, b) THEN b ELSE P)
\* sanity of the oracle itself (checked by TLC in MC_IPReserved)
OracleSane == /\ \A a \in MustBePublic : ~ReservedByName(a)
              /\ \A b \in MustBeReserved : Contains(b, FirstAddr(b)) /\ Contains(b, LastAddr(b)) /\ ReservedByName(LastAddr(b))
              /\ \A b \in MustBeReserved : b.len >= 1 => ~Contains(b, FirstAddr(Sibling(b))) /\ Sibling(Sibling(b)).base = FirstAddr(b)
              /\ \A b \in MustBeReserved : \A p \in 0..b.len : NetContainsNet(Prefix(b.base, p), b)

\* ---- judging recorded answers of the code
\* one address: e.g = groups, e.reserved = the code's answer, e.mappedReserved = the answer for the IPv4-mapped form (IPv4 only)
AddrReasons(e) ==
   (IF ReservedByName(e.g) /\ ~e.reserved THEN {"special-purpose-address-not-reserved"} ELSE {}) \cup
   (IF e.g \in MustBePublic /\ e.reserved THEN {"public-address-reserved"} ELSE {}) \cup
   (IF Len(e.g) = 2 /\ e.mappedReserved # e.reserved THEN {"mapped-form-differs"} ELSE {})
\* a prefix chain a/0 .. a/max: e.inter[p+1] = the code's "intersects reserved space" for a/p
ChainReasons(e) ==          \* reasons are <<why, prefix length of the offending network>>
  LET mx == MaxLen(e.g) IN
   (IF e.inter[mx + 1] # e.reserved THEN {<<"single-address-network-differs-from-address", mx>>} ELSE {}) \cup                        \* L2
   {<<"supernet-of-intersecting-network-does-not-intersect", p - 1>> : p \in {q \in 1..mx : e.inter[q + 1] /\ ~e.inter[q]}} \cup    \* L4
   {<<"network-contains-reserved-address-but-does-not-intersect", p>> : p \in {q \in 0..mx : e.reserved /\ ~e.inter[q + 1]}} \cup   \* L3, the code's own address answer
   {<<"network-contains-special-purpose-block", p>> : p \in {q \in 0..mx : ~e.inter[q + 1] /\ NetTouchesNamed(Prefix(e.g, q))}} \cup  \* L3, named blocks
   \* the IPv4 network written in IPv4-mapped form contains the same (mapped) addresses: L3 again, L1 for what "reserved" means
   {<<"mapped-network-contains-reserved-address-but-does-not-intersect", p>> :
        p \in {q \in 0..mx : Len(e.interMapped) = mx + 1 /\ ~e.interMapped[q + 1] /\ (e.reserved \/ NetTouchesNamed(Prefix(e.g, q)))}}
\* a network and an address inside it (not necessarily on the network's own chain)
NetAddrReasons(e) == IF Contains([base |-> e.base, len |-> e.len], e.g) /\ e.addrReserved /\ ~e.intersects
                       THEN {"network-contains-reserved-address-but-does-not-intersect"} ELSE {}
\* the lints: Error exactly when the code's own predicate holds of what the certificate carries (and the named expectations on top)
LintReasons(e) ==
   (IF e.what # "net-excl" /\ e.status \in {3, 6} /\ ((e.status = 6) # e.util) THEN {"lint-disagrees-with-address-test"} ELSE {}) \cup
   (IF e.what = "addr" /\ ReservedByName(e.g) /\ e.status = 3 THEN {"lint-missed-special-purpose-address"} ELSE {}) \cup
   (IF e.what = "addr" /\ e.g \in MustBePublic /\ e.status = 6 THEN {"lint-flagged-public-address"} ELSE {}) \cup
   (IF e.what = "net" /\ e.status = 3 /\ NetTouchesNamed(Prefix(e.g, e.len)) THEN {"lint-missed-network-containing-special-purpose-block"} ELSE {}) \cup
   \* a permitted network with a strictly smaller network at its base excluded: it still contains reserved addresses unless the
   \* excluded part contains everything the permitted network shares with the block
   (IF e.what = "net-excl" /\ e.status = 3 /\ StillTouches(Prefix(e.g, e.len), Prefix(e.g, e.xlen))
      THEN {"lint-missed-reserved-addresses-left-after-an-exclusion"} ELSE {})
=============================================================================

------------------------------ MODULE Intervals ------------------------------
(* Interval arithmetic on instants <<day, second>> shared by the TLD table (TLD.tla) and the     *)
(* validity rule family (Validity.tla); free of RECURSIVE so that TLAPS can read it               *)
(* (Proofs_Intervals.tla).                                                                        *)
EXTENDS Base
SecOfDay == 86400
\* seconds from a to b (small enough for TLC's integers up to ~68 years)
Diff(a, b) == (b[1] - a[1]) * SecOfDay + (b[2] - a[2])
\* a validity period includes both ends (RFC 5280 4.1.2.5)
InclusiveSeconds(nb, na) == Diff(nb, na) + 1
OverDays(nb, na, n) == InclusiveSeconds(nb, na) > n * SecOfDay
NotPositive(nb, na) == Lt(na, nb)
\* not before dl and, when an end rm is recorded, not after it (the end instant itself is still inside)
ValidBetween(dl, hasRm, rm, t) == Le(dl, t) /\ (~hasRm \/ Le(t, rm))
=============================================================================

------------------------------ MODULE KeyUsage ------------------------------
(* Rule family: consistency of the keyUsage and extendedKeyUsage extensions (RFC 5280 4.2.1.12),  *)
(* the table of e_key_usage_and_extended_key_usage_inconsistent transcribed as a relation.        *)
(* KU bits are numbered as in X.509: 0 digitalSignature, 1 contentCommitment (nonRepudiation),     *)
(* 2 keyEncipherment, 3 dataEncipherment, 4 keyAgreement, 5 keyCertSign, 6 cRLSign,                *)
(* 7 encipherOnly, 8 decipherOnly.  A key usage is a set of bits.                                  *)
EXTENDS Integers, Sequences, FiniteSets
DS == 0  CC == 1  KE == 2  DE == 3  KA == 4
Purposes == {"serverAuth", "clientAuth", "codeSigning", "emailProtection", "timeStamping", "OCSPSigning"}
Allowed(e) == CASE e = "serverAuth"      -> {{DS}, {KE}, {KA}, {DS, KE}, {DS, KA}}
                [] e = "clientAuth"      -> {{DS}, {KA}, {DS, KA}}
                [] e = "codeSigning"     -> {{DS}}
                [] e = "emailProtection" -> {{DS}, {CC}, {KE}, {KA}, {DS, CC}, {DS, KE}, {DS, KA}, {DS, CC, KE}, {DS, CC, KA}, {CC, KE}, {CC, KA}}
                [] e = "timeStamping"    -> {{DS}, {CC}, {DS, CC}}
                [] e = "OCSPSigning"     -> {{DS}, {CC}, {DS, CC}}
                [] OTHER -> {}                        \* a purpose the table does not know
Known(e) == e \in Purposes
\* one purpose: the key usage must be one of its combinations; unknown purposes are skipped
StrictOK(ku, ekus) == \A i \in 1..Len(ekus) : Known(ekus[i]) => ku \in Allowed(ekus[i])
\* several purposes ("the application need not recognize all purposes indicated, as long as the intended purpose is
\* present"): every combination allowed for one of the purposes, merged with every combination gathered so far - the
\* closure under union of all the combinations of all the purposes (order-free by construction)
RECURSIVE Merged(_)
Merged(ekus) == IF ekus = <<>> THEN {}
                ELSE LET prev == Merged(SubSeq(ekus, 1, Len(ekus) - 1))
                         RECURSIVE Add(_, _)
                         Add(mp, A) == IF A = {} THEN mp ELSE LET a == CHOOSE y \in A : TRUE IN Add(mp \cup {a} \cup {x \cup a : x \in mp}, A \ {a})
                     IN Add(prev, Allowed(ekus[Len(ekus)]))
MultiOK(ku, ekus) == (\E i \in 1..Len(ekus) : ~Known(ekus[i])) \/ ku \in Merged(ekus)
Consistent(ku, ekus) == IF Len(ekus) > 1 THEN MultiOK(ku, ekus) ELSE StrictOK(ku, ekus)
\* laws of the relation
Monotone(ekus) == \A i \in 1..Len(ekus) : Known(ekus[i]) => Allowed(ekus[i]) \subseteq Merged(ekus)
OrderFree(e1, e2) == Merged(<<e1, e2>>) = Merged(<<e2, e1>>)
=============================================================================

----------------------------- MODULE Lifecycle -----------------------------
(* One lint execution, one action per step of v3/lint/base.go:                               *)
(*   scope gate -> construct -> configure -> applicability -> effective window -> rule body  *)
(* with the recover net for certificate lints only.  Named deviations of the code that the   *)
(* model keeps: a panicking CRL/OCSP body escapes; a nil body result is returned as is.      *)
EXTENDS Base, TLC
CONSTANTS Kinds, SourceClasses, Windows, Times, FactsSet, Bodies
VARIABLES kind, m, cfgable, f, t, pc, cfg, applies, called, inst, result
vars == <<kind, m, cfgable, f, t, pc, cfg, applies, called, inst, result>>

NoResult == [st |-> -2, why |-> "none"]
Init == /\ kind \in Kinds /\ cfgable \in BOOLEAN
        /\ m \in [source : SourceClasses, eff : {w[1] : w \in Windows}, ineff : {w[2] : w \in Windows}]
        /\ <<m.eff, m.ineff>> \in Windows
        /\ f \in FactsSet /\ t \in Times
        /\ pc = "start" /\ cfg = "none" /\ applies = FALSE /\ called = <<>> /\ inst = 0 /\ result = NoResult
Finish(r) == pc' = "done" /\ result' = r
ScopeGate == /\ pc = "start"
             /\ IF InScope(kind, m.source, f) THEN pc' = "gated" /\ UNCHANGED result
                                              ELSE Finish([st |-> NA, why |-> "scope"])
             /\ UNCHANGED <<kind, m, cfgable, f, t, cfg, applies, called, inst>>
Construct == /\ pc = "gated" /\ pc' = "constructed" /\ inst' = inst + 1 /\ called' = Append(called, "construct")
             /\ UNCHANGED <<kind, m, cfgable, f, t, cfg, applies, result>>
Configure == /\ pc = "constructed"
             /\ \E o \in (IF cfgable THEN {"ok", "err", "panic"} ELSE {"none"}) :
                  /\ cfg' = o
                  /\ called' = IF cfgable THEN Append(called, "configure") ELSE called
                  /\ CASE o = "err" -> Finish([st |-> Fatal, why |-> "config"])
                       [] o = "panic" -> IF kind = "cert" THEN Finish([st |-> Fatal, why |-> "panicked"])     \* inside the recover net
                                         ELSE pc' = "escaped" /\ result' = [st |-> -1, why |-> "escape"]      \* deviation: no net
                       [] OTHER -> pc' = "configured" /\ UNCHANGED result
             /\ UNCHANGED <<kind, m, cfgable, f, t, applies, inst>>
CheckApplies == /\ pc = "configured"
                /\ \E a \in BOOLEAN : /\ applies' = a /\ called' = Append(called, "applies")
                                      /\ IF a THEN pc' = "applied" /\ UNCHANGED result
                                              ELSE Finish([st |-> NA, why |-> "applies"])
                /\ UNCHANGED <<kind, m, cfgable, f, t, cfg, inst>>
CheckEffective == /\ pc = "applied"
                  /\ IF InWindow(m.eff, m.ineff, t) THEN pc' = "windowed" /\ UNCHANGED result
                                                     ELSE Finish([st |-> NE, why |-> "window"])
                  /\ UNCHANGED <<kind, m, cfgable, f, t, cfg, applies, called, inst>>
ExecuteBody == /\ pc = "windowed"
               /\ \E b \in Bodies :
                    /\ called' = Append(called, "execute")
                    /\ CASE b.k = "panic" ->
                              IF kind = "cert" THEN Finish([st |-> Fatal, why |-> "panicked"])        \* recover net
                              ELSE pc' = "escaped" /\ result' = [st |-> -1, why |-> "escape"]         \* deviation: no net
                         [] b.k = "nil" -> pc' = "escaped" /\ result' = [st |-> -1, why |-> "nil"]    \* deviation: nil returned as is
                         [] OTHER -> Finish([st |-> b.st, why |-> "body"])
               /\ UNCHANGED <<kind, m, cfgable, f, t, cfg, applies, inst>>
Next == ScopeGate \/ Construct \/ Configure \/ CheckApplies \/ CheckEffective \/ ExecuteBody
Spec == Init /\ [][Next]_vars

\* ---- properties
Has(x) == \E i \in 1..Len(called) : called[i] = x
Terminal == pc \in {"done", "escaped"}
BodyOnlyWhenDue == Has("execute") => BodyDue(kind, m, f, cfg, applies, t)                                       \* C04
NoFindingOutsideWindow == (pc = "done" /\ result.st \in Judged) => InWindow(m.eff, m.ineff, t)                  \* C03
NAWhenOutOfScopeOrInapplicable ==                                                                               \* C04
    (pc = "done" /\ (~InScope(kind, m.source, f) \/ (Has("applies") /\ ~applies))) => result.st = NA /\ ~Has("execute")
FreshInstance == Has("execute") => inst = 1                                                                     \* C04/C05
ResultIsOutcome ==                                                                                              \* C04
    Terminal => \E b \in Bodies \cup {[k |-> "ret", st |-> result.st]} :
                    result = Outcome(kind, m, f, cfg, applies, t, b)
CallsAreCalls == Terminal => called = Calls(kind, m, cfgable, f, cfg, applies, t)
BoundaryExact ==                                                                                                \* C03 boundary lemmas
    (pc = "done" /\ InScope(kind, m.source, f) /\ cfg \notin {"err", "panic"} /\ Has("applies") /\ applies) =>
        /\ (m.eff # Zero /\ t = m.eff /\ (m.ineff = Zero \/ Lt(t, m.ineff)) => result.why # "window")
        /\ (m.eff # Zero /\ t = PlusSec(m.eff, -1) => result = [st |-> NE, why |-> "window"])
        /\ (m.ineff # Zero /\ t = m.ineff => result = [st |-> NE, why |-> "window"])
        /\ (m.ineff # Zero /\ t = PlusSec(m.ineff, -1) /\ (m.eff = Zero \/ Le(m.eff, t)) => result.why # "window")
TypeOK == /\ pc \in {"start","gated","constructed","configured","applied","windowed","done","escaped"}
          /\ inst \in 0..1
          /\ (pc = "done" => result.st \in Status)
=============================================================================

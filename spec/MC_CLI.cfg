SPECIFICATION Spec
CONSTANTS
  Scenarios <- MCScenarios
INVARIANTS
  ExitZeroIffAllPrinted
  FailClosed
PROPERTIES
  NothingAfterFailure
CHECK_DEADLOCK FALSE

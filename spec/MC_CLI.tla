------------------------------- MODULE MC_CLI -------------------------------
EXTENDS CLI, Json
EncCorrupt == {<<"pem", "none">>, <<"pem", "badarmor">>, <<"pem", "wrongtype">>, <<"pem", "truncated">>, <<"pem", "empty">>,
               <<"der", "none">>, <<"der", "truncated">>, <<"der", "empty">>,
               <<"base64", "none">>, <<"base64", "badb64">>, <<"base64", "truncated">>, <<"base64", "empty">>}
Items == {[obj |-> o, enc |-> ec[1], corrupt |-> ec[2], suffix |-> sx] : o \in {"cert", "crl"}, ec \in EncCorrupt, sx \in {"none", "pem", "der"}}
ItemsNoSuffix == {it \in Items : it.suffix = "none"}
Flags == {"pem", "der", "base64", "bogus"}
First == {[obj |-> "cert", enc |-> "pem", corrupt |-> "none", suffix |-> "none"], [obj |-> "crl", enc |-> "pem", corrupt |-> "none", suffix |-> "pem"],
          [obj |-> "cert", enc |-> "pem", corrupt |-> "badarmor", suffix |-> "none"], [obj |-> "cert", enc |-> "der", corrupt |-> "none", suffix |-> "der"]}
Second == {it \in Items : it.obj = "cert" /\ it.suffix \in {"none", "der"} /\ it.corrupt \in {"none", "truncated"}}
OneOK == [obj |-> "cert", enc |-> "pem", corrupt |-> "none", suffix |-> "none"]
CrlOK == [obj |-> "crl", enc |-> "pem", corrupt |-> "none", suffix |-> "none"]
Modes == {"json", "pretty", "summary", "longSummary", "bothSummaries"}
\* family A: how inputs are read
FamA == {[fmt |-> f, chan |-> "stdin", inputs |-> <<it>>, sel |-> "none", cfg |-> "none", mode |-> "json"] : f \in Flags, it \in ItemsNoSuffix}
   \cup {[fmt |-> f, chan |-> "file", inputs |-> <<it>>, sel |-> "none", cfg |-> "none", mode |-> "json"] : f \in Flags, it \in Items}
   \cup {[fmt |-> f, chan |-> "file", inputs |-> <<a, b>>, sel |-> "none", cfg |-> "none", mode |-> "json"] : f \in {"pem", "der"}, a \in First, b \in Second}
\* family B: selection, configuration, output mode
FamB == {[fmt |-> "pem", chan |-> c, inputs |-> <<it>>, sel |-> s, cfg |-> g, mode |-> m] :
            c \in {"file", "stdin"}, it \in {OneOK, CrlOK}, s \in GoodSel \cup BadSel, g \in GoodCfg \cup BadCfg, m \in Modes}
\* family C: several inputs reported in one process, every output mode (tables and objects must not run into each other)
FamC == {[fmt |-> "pem", chan |-> "file", inputs |-> <<a, b>>, sel |-> s, cfg |-> "none", mode |-> m] :
            a \in {OneOK, CrlOK}, b \in {OneOK, CrlOK}, s \in {"none", "incSources"}, m \in Modes}
   \cup {[fmt |-> "pem", chan |-> "file", inputs |-> <<OneOK, CrlOK, OneOK>>, sel |-> "none", cfg |-> "none", mode |-> m] : m \in Modes}
\* family D: a failing input after a good one under a narrow selection (small reports), every output mode
BadSecond == {[obj |-> "cert", enc |-> "pem", corrupt |-> c, suffix |-> "none"] : c \in {"badarmor", "truncated", "empty"}}
FamD == {[fmt |-> "pem", chan |-> "file", inputs |-> <<OneOK, b>>, sel |-> s, cfg |-> "none", mode |-> m] : b \in BadSecond, s \in {"incNames", "nameFilter"}, m \in Modes}
   \cup {[fmt |-> "pem", chan |-> "file", inputs |-> <<OneOK, OneOK, b>>, sel |-> "incNames", cfg |-> "none", mode |-> "json"] : b \in BadSecond}
MCScenarios == FamA \cup FamB \cup FamC \cup FamD
Export == pc = "exited" => PrintT(ToJson([scn |-> scn, printed |-> printed, exit |-> exit]))
=============================================================================

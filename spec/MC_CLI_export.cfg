SPECIFICATION Spec
CONSTANTS
  Scenarios <- MCScenarios
INVARIANTS
  Export
CHECK_DEADLOCK FALSE

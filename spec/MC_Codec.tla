------------------------------ MODULE MC_Codec ------------------------------
EXTENDS Codec
VARIABLE x
Init == x = 0
Next == UNCHANGED x
Spec == Init /\ [][Next]_x
Inv == LabelInjective /\ NoEmptyLabel /\ DecodeEncode /\ OutOfRangeHasNoLabel
=============================================================================

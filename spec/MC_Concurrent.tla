---------------------------- MODULE MC_Concurrent ----------------------------
(* Bounded instances of Concurrent.tla: a 4-lint universe over the three kinds, programs that    *)
(* lint, read and filter the global registry (slot 0) and hand filtered registries to each other. *)
EXTENDS Concurrent
L1 == [name |-> 1, kind |-> "cert", source |-> "S1"]
L2 == [name |-> 2, kind |-> "crl",  source |-> "S1"]
L3 == [name |-> 3, kind |-> "cert", source |-> "S2"]
L4 == [name |-> 4, kind |-> "ocsp", source |-> "S2"]
MCRecOf(n) == CASE n = 1 -> L1 [] n = 2 -> L2 [] n = 3 -> L3 [] n = 4 -> L4
MCGlobal == AddLint(AddLint(AddLint(AddLint(NoReg, 3), 1), 4), 2)       \* registration order differs from name order (as in the real global registry)
MCSelects(f, x) == CASE f = "S1" -> x.source = "S1" [] f = "cert" -> x.kind = "cert" [] f = "not1" -> x.name # 1 [] OTHER -> FALSE
\* statuses depend on the object and on the lint: any mix-up of objects or lints between goroutines changes a reply
MCVerdictOf(o, n) == 3 + ((o + n) % 4)
Lint(o, k, r) == [op |-> "Lint", o |-> o, k |-> k, r |-> r]
Rd(what, r, ks, n, src) == [op |-> "Read", what |-> what, r |-> r, ks |-> ks, n |-> n, src |-> src]
Flt(r, f, into) == [op |-> "Filter", r |-> r, f |-> f, into |-> into]
\* program sets (every one is explored: TLC starts from each)
P2a == (1 :> <<Lint(1, "cert", 0), [op |-> "Names", r |-> 0]>>) @@ (2 :> <<Flt(0, "S1", 1), Lint(2, "cert", 1)>>)
P2b == (1 :> <<Flt(0, "cert", 1), Rd("KNames", 1, <<"cert">>, 0, "")>>) @@ (2 :> <<Lint(2, "cert", 1), Rd("ByName", 0, <<"crl">>, 2, "")>>)
P2c == (1 :> <<Flt(0, "not1", 1), Flt(1, "S1", 2)>>) @@ (2 :> <<Lint(1, "crl", 2), [op |-> "Names", r |-> 1]>>)
P3a == (1 :> <<Lint(1, "cert", 0)>>) @@ (2 :> <<Flt(0, "cert", 1), Lint(2, "cert", 1)>>) @@ (3 :> <<[op |-> "Names", r |-> 0], Lint(3, "cert", 1)>>)
P3b == (1 :> <<Flt(0, "S1", 1), Rd("Listing", 2, <<"cert", "ocsp", "crl">>, 0, "")>>) @@ (2 :> <<Flt(0, "not1", 2), Rd("Sources", 1, <<"cert", "crl", "ocsp">>, 0, "")>>) @@ (3 :> <<Lint(1, "crl", 1), Lint(2, "ocsp", 2), Rd("BySource", 0, <<"cert">>, 0, "S2")>>)
Pad3(P) == [g \in {1, 2, 3} |-> IF g \in DOMAIN P THEN P[g] ELSE <<>>]
\* thorough tier: three goroutines with three operations each, chains of filters, every reader
P3c == (1 :> <<Flt(0, "not1", 1), Lint(1, "cert", 1), Rd("Lints", 2, <<"cert">>, 0, "")>>) @@
       (2 :> <<Lint(2, "cert", 0), Flt(1, "cert", 2), Lint(3, "cert", 2)>>) @@
       (3 :> <<[op |-> "Names", r |-> 0], Lint(1, "ocsp", 1), [op |-> "Names", r |-> 2]>>)
P3d == (1 :> <<Lint(1, "cert", 0), Lint(2, "crl", 0), Lint(3, "ocsp", 0)>>) @@
       (2 :> <<Flt(0, "S1", 1), Flt(0, "cert", 2), Rd("Sources", 1, <<"cert", "crl", "ocsp">>, 0, "")>>) @@
       (3 :> <<Rd("ByName", 0, <<"cert">>, 3, ""), Lint(2, "cert", 2), Rd("Listing", 1, <<"cert", "ocsp", "crl">>, 0, "")>>)
ProgramsHuge == {P3c, P3d}
ProgList == <<Pad3(P2a), Pad3(P2b), Pad3(P2c), P3a, P3b>>
Programs2 == {P2a, P2b, P2c}
ProgramsBig == {P3a, P3b}
ProgramsAll == {ProgList[i] : i \in 1..Len(ProgList)}
=============================================================================

SPECIFICATION Spec
CONSTANTS
  G = {1, 2}
  Progs <- Programs2
  RecOf <- MCRecOf
  GlobalReg <- MCGlobal
  NSlots = 2
  Selects <- MCSelects
  VerdictOf <- MCVerdictOf
  Flaw = "reentrant-lock"
INVARIANTS
  NoConflictingAccess
  LockSane
  PrivateUntilReturned
  Linearizable
  GatesAreLockFree
PROPERTIES
  Immutable

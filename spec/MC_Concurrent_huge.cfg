SPECIFICATION Spec
CONSTANTS
  G = {1, 2, 3}
  Progs <- ProgramsHuge
  RecOf <- MCRecOf
  GlobalReg <- MCGlobal
  NSlots = 2
  Selects <- MCSelects
  VerdictOf <- MCVerdictOf
  Flaw = "none"
INVARIANTS
  NoConflictingAccess
  LockSane
  PrivateUntilReturned
  Linearizable
  GatesAreLockFree
PROPERTIES
  Immutable

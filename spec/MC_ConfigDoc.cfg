SPECIFICATION Spec
INVARIANTS Laws NonVacuous

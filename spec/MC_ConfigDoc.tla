---------------------------- MODULE MC_ConfigDoc ----------------------------
(* Bounded instance of ConfigDoc: the option structs of the six mock lints the driver registers *)
(* (harness/cmd/drive/cfgdoc.go) and every document with at most two sections present.           *)
EXTENDS ConfigShapes, Json
VARIABLE x
T(kv) == [k |-> "table", kv |-> kv]
LintSections(l) == LET O == Shapes[l].opts IN
   {[k |-> "scalar"], [k |-> "array"], T(<<>>), T([o \in O |-> "def"]), T([o \in O |-> "new"]), T([o \in {"Unknown"} |-> "new"])}
   \cup {T([o \in {p} |-> "new"]) : p \in O} \cup {T([o \in {p} |-> "bad"]) : p \in O}
   \cup {T([o \in {p, "Unknown"} |-> "new"]) : p \in O}
   \cup {T([o \in O |-> IF o = p THEN "bad" ELSE "new"]) : p \in O}
GlobalSections == {[k |-> "scalar"], [k |-> "array"], T(<<>>), T([o \in {"X"} |-> "new"])}
Singles == UNION {{<<l, s>> : s \in LintSections(l)} : l \in DOMAIN Shapes}
           \cup {<<g, s>> : g \in GlobalKeys \cup {"verif_unrelated"}, s \in GlobalSections}
Docs == {<<>>} \cup {(p[1] :> p[2]) : p \in Singles} \cup UNION {{(p[1] :> p[2]) @@ (q[1] :> q[2]) : q \in {r \in Singles : r[1] # p[1]}} : p \in Singles}
Without(D, key) == [k2 \in DOMAIN D \ {key} |-> D[k2]]
\* Locality, stated linearly: a section the lint does not read may be removed without changing the outcome
LocalityByRemoval == \A D \in Docs : \A l \in DOMAIN Shapes : \A key \in DOMAIN D \ Reads(Shapes[l], l) :
                         Resolve(Shapes[l], D, l) = Resolve(Shapes[l], Without(D, key), l)
Init == x = 0
Next == UNCHANGED x
Spec == Init /\ [][Next]_x
Laws == /\ LocalityByRemoval
        /\ DefaultsNeutral(Shapes, Docs)
        /\ ErrorsExactlyWhenUnapplicable(Shapes, Docs)
        /\ ExampleIsNeutral(Shapes, ExampleGlobals)
        \* a private reference is never resolved; a reached pointer always is
        /\ \A D \in Docs : LET r == Resolve(Shapes["e_verif_cfg_nested"], D, "e_verif_cfg_nested") IN r.ok => r.ptrs = {"Inner.G"}
\* anti-vacuity: the space contains errors of both origins and option changes
NonVacuous == /\ \E D \in Docs : ~Resolve(Shapes["e_verif_cfg_gptr"], D, "e_verif_cfg_gptr").ok /\ Get(D, "e_verif_cfg_gptr").k = "absent"
              /\ \E D \in Docs : Resolve(Shapes["e_verif_cfg_plain"], D, "e_verif_cfg_plain").ok /\ Resolve(Shapes["e_verif_cfg_plain"], D, "e_verif_cfg_plain").vals["Flag"] = "new"
=============================================================================

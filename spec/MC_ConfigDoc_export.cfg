SPECIFICATION Spec
INVARIANTS Export

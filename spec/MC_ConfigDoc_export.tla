------------------------- MODULE MC_ConfigDoc_export -------------------------
(* Prints every document of the bounded space (binding G: the driver renders each as TOML).     *)
EXTENDS MC_ConfigDoc
Export == \A D \in Docs : PrintT(ToJson([doc |-> [key \in DOMAIN D |-> D[key]]]))
=============================================================================

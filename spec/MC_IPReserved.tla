--------------------------- MODULE MC_IPReserved ---------------------------
(* Sanity of the oracle and the TLC-enumerated probe plan (exported for the driver).            *)
EXTENDS IPReserved, Json
VARIABLE x
Init == x = 0
Next == UNCHANGED x
Spec == Init /\ [][Next]_x
Inv == OracleSane
Mid(b) == [j \in 1..Len(b.base) |-> (FirstAddr(b)[j] + LastAddr(b)[j]) \div 2]
ProbesOf(b) == {FirstAddr(b), LastAddr(b), Mid(b)} \cup (IF b.len >= 1 THEN {FirstAddr(Sibling(b)), LastAddr(Sibling(b))} ELSE {})
\* super-nets of every block, and of its sibling: base addresses for chains
Plan == [addrs |-> UNION {ProbesOf(b) : b \in MustBeReserved} \cup MustBePublic,
         nets  |-> {Prefix(b.base, p) : b \in MustBeReserved, p \in 0..32} ]
Export == PrintT(ToJson([addrs |-> Plan.addrs, blocks |-> MustBeReserved, public |-> MustBePublic]))
=============================================================================

---------------------------- MODULE MC_Lifecycle ----------------------------
EXTENDS Lifecycle
E  == <<730000, 0>>          \* an effective date (midnight, like most of the registry's)
E2 == <<730500, 43200>>      \* an effective date at noon
I  == <<731000, 0>>          \* an ineffective date
MCKinds   == {"cert", "crl", "ocsp"}
MCSources == {"CABF_BR", "CABF_SMIME_BR", "CABF_CS_BR", "RFC5280"}
MCWindows == {<<Zero, Zero>>, <<E, Zero>>, <<Zero, I>>, <<E, I>>, <<E2, I>>,
              <<I, E>>, <<E, E>>}     \* declared windows that are empty (ineffective not after effective): nothing is ever judged
MCTimes   == {PlusSec(E, -1), E, PlusSec(E, 1), PlusSec(E2, -1), E2, <<730700, 5>>, PlusSec(I, -1), I, PlusSec(I, 1)}
MCFacts   == [ekus : SUBSET {0, 1, 4}, unk : {0, 1},
              pols : {{}, {"2.23.140.1.2.1"}, {"2.23.140.1.5.1.1"}, {"2.23.140.1.4.1"}, {"1.2.3"}, {"2.23.140.1.2.1", "2.23.140.1.4.1"},
                      \* near misses: an identifier that extends or truncates a scope identifier is no indication
                      {"2.23.140.1.4.1.1", "2.23.140.1.3.7"}, {"2.23.140.1.2.1.1", "2.23.140.1.5.1.1.1"}, {"2.23.140.1.4", "2.23.140.1.2", "2.23.140.1.5.1"}, {"2.23.140.1", "2.23.140", "2.23"}},
              email : BOOLEAN]
MCFactsBig == [ekus : SUBSET {0, 1, 4, 2}, unk : {0, 1},
              pols : SUBSET {"2.23.140.1.2.1", "2.23.140.1.5.1.1", "2.23.140.1.4.1", "1.2.3"}, email : BOOLEAN]
MCBodies  == {[k |-> "ret", st |-> s] : s \in Status} \cup {[k |-> "panic"], [k |-> "nil"]}
\* quick tier: scope and window dimensions explored separately (they are independent in Outcome)
MCWindows1 == {<<E, I>>}
MCTimes2   == {PlusSec(E, -1), <<730700, 5>>}
MCFacts4   == {[ekus |-> {}, unk |-> 0, pols |-> {}, email |-> FALSE], [ekus |-> {2}, unk |-> 0, pols |-> {}, email |-> TRUE],
               [ekus |-> {4}, unk |-> 1, pols |-> {"2.23.140.1.4.1"}, email |-> TRUE], [ekus |-> {}, unk |-> 1, pols |-> {"1.2.3"}, email |-> FALSE]}
=============================================================================

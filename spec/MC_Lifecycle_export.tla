------------------------ MODULE MC_Lifecycle_export ------------------------
(* Binding G for Lifecycle.tla: every terminal state of the bounded model, one JSON line each. *)
EXTENDS MC_Lifecycle, Json
Export == Terminal => PrintT(ToJson([kind |-> kind, src |-> m.source, eff |-> m.eff, ineff |-> m.ineff, cfgable |-> cfgable,
                                      ekus |-> f.ekus, unk |-> f.unk, pols |-> f.pols, email |-> f.email, t |-> t,
                                      cfg |-> cfg, applies |-> applies, called |-> called, inst |-> inst,
                                      st |-> result.st, why |-> result.why, pc |-> pc]))
=============================================================================

SPECIFICATION Spec
CONSTANTS
  Kinds <- MCKinds
  SourceClasses <- MCSources
  Windows <- MCWindows1
  Times <- MCTimes2
  FactsSet <- MCFacts
  Bodies <- MCBodies
INVARIANTS
  Export
CHECK_DEADLOCK FALSE

SPECIFICATION Spec
CONSTANTS
  Kinds <- MCKinds
  SourceClasses <- MCSources
  Windows <- MCWindows
  Times <- MCTimes
  FactsSet <- MCFacts4
  Bodies <- MCBodies
INVARIANTS
  Export
CHECK_DEADLOCK FALSE

SPECIFICATION Spec
CONSTANTS
  Kinds <- MCKinds
  SourceClasses <- MCSources
  Windows <- MCWindows1
  Times <- MCTimes2
  FactsSet <- MCFacts
  Bodies <- MCBodies
INVARIANTS
  TypeOK
  BodyOnlyWhenDue
  NoFindingOutsideWindow
  NAWhenOutOfScopeOrInapplicable
  FreshInstance
  ResultIsOutcome
  CallsAreCalls
  BoundaryExact
CHECK_DEADLOCK FALSE

SPECIFICATION Spec
CONSTANTS
  Kinds <- MCKinds
  SourceClasses <- MCSources
  Windows <- MCWindows
  Times <- MCTimes
  FactsSet <- MCFacts4
  Bodies <- MCBodies
INVARIANTS
  TypeOK
  BodyOnlyWhenDue
  NoFindingOutsideWindow
  NAWhenOutOfScopeOrInapplicable
  FreshInstance
  ResultIsOutcome
  CallsAreCalls
  BoundaryExact
CHECK_DEADLOCK FALSE

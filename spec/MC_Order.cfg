SPECIFICATION Spec
INVARIANTS
  BagIsOrderFree
CHECK_DEADLOCK FALSE

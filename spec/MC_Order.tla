------------------------------- MODULE MC_Order -------------------------------
(* The bag semantics is order-free for every list up to length 4; the first-stop shape is not    *)
(* (counter-model: it is the defect class C17 is about).                                          *)
EXTENDS NameRules
VARIABLE s
Lists == UNION {[1..n -> PerName] : n \in 1..4}
Init == s \in Lists
Next == UNCHANGED s
Spec == Init /\ [][Next]_s
BagIsOrderFree == OrderFree(ListVerdict, s)
FirstStopIsOrderFree == OrderFree(FirstStop, s)      \* expected to FAIL (MC_Order_bad.cfg)
=============================================================================

SPECIFICATION Spec
INVARIANTS
  FirstStopIsOrderFree
CHECK_DEADLOCK FALSE

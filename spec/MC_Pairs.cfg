SPECIFICATION Spec
INVARIANTS
  Inv
  Export
CHECK_DEADLOCK FALSE

------------------------------- MODULE MC_Pairs -------------------------------
EXTENDS Pairs, Json
VARIABLE x
Init == x = 0
Next == UNCHANGED x
Spec == Init /\ [][Next]_x
Inv == RelationsSane
Export == PrintT(ToJson([pairs |-> PairTable]))
=============================================================================

----------------------------- MODULE MC_Process -----------------------------
EXTENDS Process, Json
MCObjects == {[id |-> "o1", kind |-> "cert"], [id |-> "o2", kind |-> "crl"]}
MCLints == {"A", "B", "C"}
MCKindOf == [l \in MCLints |-> IF l = "C" THEN "crl" ELSE "cert"]
MCConfigurable == {"A", "C"}
MCCfgs == {"empty", "Av1", "Aill", "Cscalar", "unrelated", "defaults"}
MCSectionOf == [c \in MCCfgs |-> [l \in MCConfigurable |->
                  CASE c = "Av1" /\ l = "A" -> "v1" [] c = "Aill" /\ l = "A" -> "ill" [] c = "Cscalar" /\ l = "C" -> "scalar"
                    [] c = "defaults" -> "default" [] OTHER -> "absent"]]
MCFilters == {"onlyA", "notA", "crl"}
MCSelectedBy == [f \in MCFilters |-> CASE f = "onlyA" -> {"A"} [] f = "notA" -> {"B", "C"} [] f = "crl" -> {"C"}]
\* a ground truth in which the option matters for A on o1 and nothing else
MCVerdict == [k \in ({"o1", "o2"} \X MCLints \X Sections) |->
                 CASE k[2] = "A" /\ k[3] = "v1" -> Error [] k[2] = "A" -> Pass [] k[2] = "B" -> Warn [] OTHER -> Notice]
\* behaviours for the replayer: printed when a history is complete
ExportHist == nops = MaxOps => PrintT(ToJson(hist))
=============================================================================

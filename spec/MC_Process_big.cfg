SPECIFICATION Spec
CONSTANTS
  Objects <- MCObjects
  Lints <- MCLints
  KindOf <- MCKindOf
  Configurable <- MCConfigurable
  Cfgs <- MCCfgs
  SectionOf <- MCSectionOf
  Filters <- MCFilters
  SelectedBy <- MCSelectedBy
  Verdict <- MCVerdict
  MaxOps = 5
  MaxRegs = 3
INVARIANTS
  FilteredAgreesWithFull
  CfgLocal
PROPERTIES
  LintIsPure
  CfgDoesNotLeak
  ChildKeepsBirthCfg
CHECK_DEADLOCK FALSE

SPECIFICATION SpecSim
CONSTANTS
  Objects <- MCObjects
  Lints <- MCLints
  KindOf <- MCKindOf
  Configurable <- MCConfigurable
  Cfgs <- MCCfgs
  SectionOf <- MCSectionOf
  Filters <- MCFilters
  SelectedBy <- MCSelectedBy
  Verdict <- MCVerdict
  MaxOps = 12
  MaxRegs = 4
INVARIANTS
  ExportHist
CHECK_DEADLOCK FALSE

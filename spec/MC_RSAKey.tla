------------------------------ MODULE MC_RSAKey ------------------------------
(* The plan of small keys (exact arithmetic) and lemmas about the predicates.                  *)
EXTENDS RSAKey, Json, TLC
VARIABLE x
PrimesBelow752 == {p \in 2..751 : IsPrime(p)}
\* divisor-based and prime-based readings of "a factor below 752" agree
Lemma1 == \A n \in {757 * d : d \in 2..60} \cup {757 * 761, 757 * 757, 751 * 757, 2 * 1009, 1009 * 1013} :
             SmallFactorAny(n) <=> \E p \in PrimesBelow752 : n % p = 0
Lemma2 == Cardinality(PrimesBelow752) = 133 /\ 751 \in PrimesBelow752 /\ ~IsPrime(753)
\* Fermat finds p*q exactly at a = (p+q)/2
FermatIdx(p, q) == (p + q) \div 2 - ISqrt(p * q) - 1
Lemma3 == \A pq \in {<<757, 761>>, <<1009, 1013>>, <<1009, 1031>>, <<10007, 10009>>, <<10007, 10103>>, <<45979, 45989>>} :
             \A r \in 0..6 : FermatFound(pq[1] * pq[2], r) <=> FermatIdx(pq[1], pq[2]) < r
Init == x = 0
Next == UNCHANGED x
Spec == Init /\ [][Next]_x
Inv == Lemma1 /\ Lemma2 /\ Lemma3
\* ---- the plan
PrimesIn(lo, hi) == {p \in lo..hi : IsPrime(p)}
NextPrime(p, S) == CHOOSE q \in S : q > p /\ \A r \in S : r > p => q <= r
Pairs(S) == {<<p, NextPrime(p, S)>> : p \in {q \in S : \E r \in S : r > q}}
Moduli == {757 * d : d \in 2..751} \cup {761 * d : d \in PrimesBelow752}
          \cup {757 * 761, 757 * 757, 761 * 769, 769 * 773, 2 * 1009, 4 * 1009, 1009, 757, 761, 3 * 5 * 7, 751 * 751, 751 * 757}
          \cup {pq[1] * pq[2] : pq \in Pairs(PrimesIn(752, 1300)) \cup Pairs(PrimesIn(10000, 10300)) \cup Pairs(PrimesIn(45500, 46300))}
          \cup {p * q : p \in {1009, 10007}, q \in {1013, 1019, 1031, 1051, 1103, 1201, 10009, 10037, 10103, 10301}}
Exponents == {1, 2, 3, 4, 5, 17, 65535, 65536, 65537, 65538, 65539, 131073}
Export == PrintT(ToJson([moduli |-> Moduli, exponents |-> Exponents, rounds |-> {0, 1, 2, 3, 5, 20, 100}]))
=============================================================================

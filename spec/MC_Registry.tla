----------------------------- MODULE MC_Registry -----------------------------
EXTENDS Registry
\* a 5-lint universe over 3 kinds and 3 sources, one nameable source without lints
\* (the pattern is realisable with real lints: see cmd/drive/regreplay.go)
MCUniverse == {[name |-> 1, kind |-> "cert", source |-> "S1"], [name |-> 2, kind |-> "crl", source |-> "S1"],
               [name |-> 3, kind |-> "crl", source |-> "S2"], [name |-> 4, kind |-> "cert", source |-> "S2"],
               [name |-> 5, kind |-> "ocsp", source |-> "S3"]}
MCSourcesNameable == {"S1", "S2", "S4"}
MCUnknown == {0}
MCPads == {"", "lead"}
MCMatchIds == {"m1"}
MCMatchSetOf == [x \in {"m1"} |-> {2, 3}]
MCCfgs == {"empty", "A"}
MCOrder == <<[name |-> 4, kind |-> "cert", source |-> "S2"], [name |-> 1, kind |-> "cert", source |-> "S1"],
             [name |-> 3, kind |-> "crl", source |-> "S2"], [name |-> 2, kind |-> "crl", source |-> "S1"],
             [name |-> 5, kind |-> "ocsp", source |-> "S3"], [name |-> 1, kind |-> "cert", source |-> "S3"]>>   \* the last one is a duplicate
MCSourcesSmall == {"S1", "S4"}
MCPadsNone == {""}
=============================================================================

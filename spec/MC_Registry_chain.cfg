SPECIFICATION Spec
CONSTANTS
  Universe <- MCUniverse
  RegOrder <- MCOrder
  SourcesNameable <- MCSourcesSmall
  UnknownNames <- MCUnknown
  Pads <- MCPadsNone
  MatchSetIds <- MCMatchIds
  MatchSetOf <- MCMatchSetOf
  MaxOps = 3
  MaxXn = 0
  MaxInn = 1
  Cfgs <- MCCfgs
INVARIANTS
  TablesOK
  FilterSound
  FilterErrIffDocumented
PROPERTIES
  OthersUnchanged
  CfgOnlyBySet
CHECK_DEADLOCK FALSE

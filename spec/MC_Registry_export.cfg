SPECIFICATION Spec
CONSTANTS
  Universe <- MCUniverse
  RegOrder <- MCOrder
  SourcesNameable <- MCSourcesNameable
  UnknownNames <- MCUnknown
  Pads <- MCPads
  MatchSetIds <- MCMatchIds
  MatchSetOf <- MCMatchSetOf
  MaxOps = 1
  MaxXn = 1
  MaxInn = 2
  Cfgs <- MCCfgs
INVARIANTS
  Export
CHECK_DEADLOCK FALSE

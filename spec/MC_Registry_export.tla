--------------------------- MODULE MC_Registry_export ---------------------------
(* Binding G for Registry.tla: every Filter call of the bounded option space with the model's answer. *)
EXTENDS MC_Registry, Json
TokSeq(T) == LET RECURSIVE B(_)
                 B(S) == IF S = {} THEN <<>> ELSE LET x == CHOOSE y \in S : TRUE IN <<x>> \o B(S \ {x})
             IN B(T)
Export == lastFilter.src # 0 =>
    PrintT(ToJson([xs |-> lastFilter.o.xs, is |-> lastFilter.o.is, nf |-> lastFilter.o.nf,
                   xn |-> TokSeq(lastFilter.o.xn), inn |-> TokSeq(lastFilter.o.inn), err |-> lastFilter.err,
                   sel |-> IF lastFilter.new = 0 THEN {} ELSE AllNames(regs[lastFilter.new]),
                   same |-> (lastFilter.new = 0 /\ lastFilter.err = "none")]))
=============================================================================

SPECIFICATION Spec
CONSTANTS
  Universe <- MCUniverse
  RegOrder <- MCOrder
  SourcesNameable <- MCSourcesNameable
  UnknownNames <- MCUnknown
  Pads <- MCPads
  MatchSetIds <- MCMatchIds
  MatchSetOf <- MCMatchSetOf
  MaxOps = 0
  MaxXn = 1
  MaxInn = 2
  Cfgs <- MCCfgs
INVARIANTS
  FilterLaws
CHECK_DEADLOCK FALSE

SPECIFICATION Spec
CONSTANTS
  Universe <- MCUniverse
  RegOrder <- MCOrder
  SourcesNameable <- MCSourcesNameable
  UnknownNames <- MCUnknown
  Pads <- MCPadsNone
  MatchSetIds <- MCMatchIds
  MatchSetOf <- MCMatchSetOf
  MaxOps = 1
  MaxXn = 1
  MaxInn = 2
  Cfgs <- MCCfgs
INVARIANTS
  TablesOK
  FilterSound
  FilterErrIffDocumented
PROPERTIES
  OthersUnchanged
  CfgOnlyBySet
CHECK_DEADLOCK FALSE

SPECIFICATION Spec
CONSTANTS
  LintIds <- MCIds3
  Order <- MCOrder3
INVARIANTS
  ReturnedComplete
  MetaOwn
  FlagsConsistent
  StampedVersion
  DefinedIfBodiesDefined
  EscapeOnlyByDeviation
  NilInNilOut
CHECK_DEADLOCK FALSE

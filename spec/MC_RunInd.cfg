CONSTANTS
  LintIds = {1, 2, 3}
  RegSeq <- MCRegSeq
INIT Init
NEXT Next
PROPERTY Refines
INVARIANTS SameInvariants IndInv ReturnedOK
CHECK_DEADLOCK FALSE

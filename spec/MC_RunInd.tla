----------------------------- MODULE MC_RunInd -----------------------------
(* TLC cross-check: every step of RunInd (the Apalache-typed restatement of the Lint*Ex loop) is a step of Run.tla under the   *)
(* obvious mapping (registry given as it is, object present), so the inductive invariant proved by Apalache is about the same   *)
(* machine that the traces are validated against.                                                                               *)
EXTENDS RunInd, TLC
MCRegSeq == <<3, 1, 2>>
R == INSTANCE Run WITH LintIds <- LintIds, Order <- RegSeq, sel <- LintIds, regarg <- "nil", obj <- "obj",
                       meta <- [k \in DOMAIN st |-> k]
Refines == [][R!Next]_<<kind, outc, pc, i, keys, st, flags, version, pending>>
SameInvariants == R!ReturnedComplete /\ R!FlagsConsistent /\ R!StampedVersion /\ R!MetaOwn
=============================================================================

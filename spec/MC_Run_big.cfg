SPECIFICATION Spec
CONSTANTS
  LintIds <- MCIds4
  Order <- MCOrder4
INVARIANTS
  ReturnedComplete
  MetaOwn
  FlagsConsistent
  StampedVersion
  DefinedIfBodiesDefined
  EscapeOnlyByDeviation
  NilInNilOut
CHECK_DEADLOCK FALSE

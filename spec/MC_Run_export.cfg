SPECIFICATION Spec
CONSTANTS
  LintIds <- MCIds3
  Order <- MCOrder3
INVARIANTS
  Export
CHECK_DEADLOCK FALSE

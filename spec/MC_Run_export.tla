--------------------------- MODULE MC_Run_export ---------------------------
(* Binding G for Run.tla: every terminal state of the bounded model is printed as one JSON line; *)
(* the Go replayer performs that run on the real entry points with mock lints and compares.      *)
EXTENDS MC_Run, Json
Terminal == pc \in {"returned", "escaped", "returned_nil"}
Export == Terminal => PrintT(ToJson([kind |-> kind, sel |-> sel, outc |-> outc, obj |-> obj, regarg |-> regarg, pc |-> pc,
                                      keys |-> keys, st |-> st, flags |-> flags, version |-> version, order |-> Order]))
=============================================================================

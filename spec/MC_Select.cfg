SPECIFICATION Spec
CONSTANTS
  ListedNames = {"n1", "n2", "n3"}
  OtherNames = {"n1x", "N1", ""}
  ListedSources = {"S1", "S2"}
  DefinedSources = {"S1", "S2", "S3", "Unknown"}
  OtherSources = {"s1", "S9", ""}
  Entries = {"lib-include", "lib-exclude", "sourcelist", "json", "cli-include", "cli-exclude"}
INVARIANTS
  ListedIsAccepted
  UnknownIsRejected
CHECK_DEADLOCK FALSE

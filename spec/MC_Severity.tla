---------------------------- MODULE MC_Severity ----------------------------
EXTENDS Severity
VARIABLE x
Init == x = 0
Next == UNCHANGED x
Spec == Init /\ [][Next]_x
Inv == ContractSane
=============================================================================

SPECIFICATION Spec
INVARIANTS Laws

------------------------------ MODULE MC_Summary ------------------------------
EXTENDS Summary, TLC
VARIABLE x
RECURSIVE Seqs(_)
Seqs(n) == IF n = 0 THEN {<<>>} ELSE LET S == Seqs(n - 1) IN S \cup {Append(s, v) : s \in {t \in S : Len(t) = n - 1}, v \in 1..7}
Init == x = 0
Next == UNCHANGED x
Spec == Init /\ [][Next]_x
Laws == \A sts \in Seqs(4) :
          /\ CountsPartition(sts)
          /\ TableReasons([long |-> TRUE, levels |-> LevelNames, counts |-> [k \in 1..4 |-> Rows(sts)[k].count],
                           nlines |-> [k \in 1..4 |-> Rows(sts)[k].count], namesOK |-> TRUE], sts) = {}
          /\ (Len(sts) > 0 /\ sts[1] = 5) => TableReasons([long |-> FALSE, levels |-> LevelNames, counts |-> [k \in 1..4 |-> IF k = 2 THEN Rows(sts)[k].count - 1 ELSE Rows(sts)[k].count],
                                                           nlines |-> <<0, 0, 0, 0>>, namesOK |-> TRUE], sts) # {}
=============================================================================

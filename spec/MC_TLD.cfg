SPECIFICATION Spec
INVARIANTS
  Lemmas
CHECK_DEADLOCK FALSE

------------------------------- MODULE MC_TLD -------------------------------
(* Boundary lemmas of ValidAt and the calendar arithmetic, over a small family of entries.     *)
EXTENDS TLD
VARIABLE x
Entries == {[key |-> "a", keyLower |-> "a", gtld |-> "a", deleg |-> d, removal |-> r] :
               d \in {<<2015, 8, 28>>, <<2016, 2, 29>>, <<1985, 1, 1>>}, r \in {<<>>, <<2023, 6, 5>>, <<2016, 2, 29>>}}
Init == x \in Entries
Next == UNCHANGED x
Spec == Init /\ [][Next]_x
Lemmas ==
  /\ DayNumber(<<1, 1, 1>>) = 0 /\ DayNumber(<<1970, 1, 1>>) = 719162 /\ DayNumber(<<2000, 3, 1>>) = 730179
  /\ CalendarValid(<<2016, 2, 29>>) /\ ~CalendarValid(<<2015, 2, 29>>) /\ ~CalendarValid(<<2015, 13, 1>>) /\ ~CalendarValid(<<2015, 4, 31>>)
  /\ (EntryWellFormed(x) =>
        /\ ValidAt(x, Midnight(x.deleg)) /\ ~ValidAt(x, PlusSec(Midnight(x.deleg), -1))
        /\ (x.removal # <<>> => ValidAt(x, Midnight(x.removal)) /\ ~ValidAt(x, PlusSec(Midnight(x.removal), 1))))
  /\ (x.removal # <<>> /\ Lt(Midnight(x.removal), Midnight(x.deleg)) => ~EntryWellFormed(x))
=============================================================================

SPECIFICATION Spec
INVARIANTS
  Inv
CHECK_DEADLOCK FALSE

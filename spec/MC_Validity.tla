---------------------------- MODULE MC_Validity ----------------------------
EXTENDS Validity, TLC
VARIABLE x
Init == x = 0
Next == UNCHANGED x
Spec == Init /\ [][Next]_x
Inv == Laws
=============================================================================

------------------------------ MODULE NameRules ------------------------------
(* Bag semantics of name rules (C17) and the shared abstract rule behind duplicated lints (C20). *)
(* A rule judges each name on its own: Verdict(name) \in {"ok", "bad", "cannot-judge"}.            *)
(* The verdict of the rule on a list of names is a function of the BAG of per-name verdicts:       *)
(*    some name bad            -> finding                                                          *)
(*    else some cannot-judge   -> NA (nothing found, and something could not be judged)            *)
(*    else                     -> pass                                                             *)
EXTENDS Integers, Sequences, FiniteSets, TLC
PerName == {"ok", "bad", "cannot"}
ListVerdict(s) == IF \E i \in 1..Len(s) : s[i] = "bad" THEN "finding"
                  ELSE IF \E i \in 1..Len(s) : s[i] = "cannot" THEN "NA" ELSE "pass"
\* the implementation shape the property forbids: stop at the first name that cannot be judged
RECURSIVE FirstStop(_)
FirstStop(s) == IF s = <<>> THEN "pass" ELSE IF Head(s) = "cannot" THEN "NA" ELSE IF Head(s) = "bad" THEN "finding" ELSE FirstStop(Tail(s))
Perms(s) == {t \in [1..Len(s) -> 1..Len(s)] : \A i, j \in 1..Len(s) : i # j => t[i] # t[j]}
Permute(s, p) == [i \in 1..Len(s) |-> s[p[i]]]
OrderFree(F(_), s) == \A p \in Perms(s) : F(Permute(s, p)) = F(s)
=============================================================================

-------------------------------- MODULE Pairs --------------------------------
(* C20: rules that exist twice never contradict each other.                                    *)
EXTENDS Base, TLC
\* relation kinds
\*   "same"    : same status whenever both ran
\*   "iff"     : finding versus no finding agree (the two carry different severities on purpose)
\*   "implies" : an error from the first always comes with a finding from the second
PairTable == <<
  [a |-> "e_dnsname_hyphen_in_sld",      b |-> "e_rfc_dnsname_hyphen_in_sld",      cls |-> "dns", rel |-> "same"],
  [a |-> "e_dnsname_underscore_in_sld",  b |-> "e_rfc_dnsname_underscore_in_sld",  cls |-> "dns", rel |-> "same"],
  [a |-> "w_dnsname_underscore_in_trd",  b |-> "w_rfc_dnsname_underscore_in_trd",  cls |-> "dns", rel |-> "same"],
  [a |-> "e_dnsname_label_too_long",     b |-> "e_rfc_dnsname_label_too_long",     cls |-> "dns", rel |-> "same"],
  [a |-> "e_dnsname_empty_label",        b |-> "e_rfc_dnsname_empty_label",        cls |-> "dns", rel |-> "same"],
  [a |-> "e_prohibit_dsa_usage",         b |-> "e_br_prohibit_dsa_usage",          cls |-> "any", rel |-> "same"],
  [a |-> "w_sub_cert_aia_contains_internal_names", b |-> "w_smime_aia_contains_internal_names", cls |-> "any", rel |-> "same"],
  [a |-> "e_ext_san_dns_not_ia5_string",      b |-> "e_ext_ian_dns_not_ia5_string",      cls |-> "sanian", rel |-> "same"],
  [a |-> "e_ext_san_empty_name",              b |-> "e_ext_ian_empty_name",              cls |-> "sanian", rel |-> "same"],
  [a |-> "e_ext_san_no_entries",              b |-> "e_ext_ian_no_entries",              cls |-> "sanian", rel |-> "same"],
  [a |-> "e_ext_san_rfc822_format_invalid",   b |-> "e_ext_ian_rfc822_format_invalid",   cls |-> "sanian", rel |-> "same"],
  [a |-> "e_ext_san_space_dns_name",          b |-> "e_ext_ian_space_dns_name",          cls |-> "sanian", rel |-> "same"],
  [a |-> "e_ext_san_uri_format_invalid",      b |-> "e_ext_ian_uri_format_invalid",      cls |-> "sanian", rel |-> "same"],
  [a |-> "e_ext_san_uri_host_not_fqdn_or_ip", b |-> "e_ext_ian_uri_host_not_fqdn_or_ip", cls |-> "sanian", rel |-> "same"],
  [a |-> "e_ext_san_uri_not_ia5",             b |-> "e_ext_ian_uri_not_ia5",             cls |-> "sanian", rel |-> "same"],
  [a |-> "e_ext_san_uri_relative",            b |-> "e_ext_ian_uri_relative",            cls |-> "sanian", rel |-> "same"],
  [a |-> "w_subject_dn_leading_whitespace",   b |-> "w_issuer_dn_leading_whitespace",    cls |-> "dn", rel |-> "same"],
  [a |-> "w_subject_dn_trailing_whitespace",  b |-> "w_issuer_dn_trailing_whitespace",   cls |-> "dn", rel |-> "same"],
  [a |-> "e_subject_dn_country_not_printable_string", b |-> "e_issuer_dn_country_not_printable_string", cls |-> "dn", rel |-> "same"],
  [a |-> "n_multiple_subject_rdn",            b |-> "w_multiple_issuer_rdn",             cls |-> "dn", rel |-> "iff"],
  [a |-> "e_tls_server_cert_valid_time_longer_than_398_days", b |-> "w_tls_server_cert_valid_time_longer_than_397_days", cls |-> "any", rel |-> "implies"],
  [a |-> "e_subject_given_name_max_length",   b |-> "w_subject_given_name_recommended_max_length", cls |-> "any", rel |-> "implies"],
  [a |-> "e_subject_surname_max_length",      b |-> "w_subject_surname_recommended_max_length",    cls |-> "any", rel |-> "implies"] >>
Ran(s) == s \in Judged                                  \* neither NA, NE nor fatal
IsFinding(s) == s \in Finding
Holds(rel, sa, sb) == CASE rel = "same"    -> (Ran(sa) /\ Ran(sb)) => sa = sb
                        [] rel = "iff"     -> (Ran(sa) /\ Ran(sb)) => (IsFinding(sa) <=> IsFinding(sb))
                        [] rel = "implies" -> (sa = Error /\ sb \in Judged \cup {NA}) => IsFinding(sb) \/ sb = NA
\* ("implies": when the companion did not run at all nothing is claimed; when it ran it must not pass)
HoldsStrict(rel, sa, sb) == IF rel = "implies" THEN (sa = Error /\ Ran(sb)) => IsFinding(sb) ELSE Holds(rel, sa, sb)
\* sanity of the relations: reflexive on equal verdicts, and the weaker ones follow from "same" for same-severity pairs
RelationsSane == /\ \A s \in Status : Holds("same", s, s) /\ Holds("iff", s, s)
                 /\ \A sa, sb \in Status : Holds("same", sa, sb) => Holds("iff", sa, sb)
                 /\ ~HoldsStrict("implies", Error, Pass) /\ HoldsStrict("implies", Error, Warn) /\ HoldsStrict("implies", Pass, Pass)
                 /\ ~Holds("same", Error, Pass) /\ Holds("same", Error, NA) /\ ~Holds("iff", Notice, Pass) /\ Holds("iff", Notice, Warn)
\* "on the same content": what both members look at is equal (established by construction or by byte comparison in the harness)
\*   dns    : the BR variant also judges the common name, so it must be empty, an IP address, or one of the SAN names
\*   sanian : the SAN and IAN extension values are byte-identical;   dn : subject and issuer are byte-identical
SameContent(cls, e) == CASE cls = "dns" -> e.cnCovered [] cls = "sanian" -> e.sameSANIAN [] cls = "dn" -> e.sameDN [] OTHER -> TRUE
\* pairs discovered by name among the registered lints (the families of the property are open): same judgement
ExtraReasons(e, X) == {<<X[i].a, e.xa[i], e.xb[i]>> :
                         i \in {j \in 1..Len(X) : j <= Len(e.xa) /\ SameContent(X[j].cls, e) /\ ~HoldsStrict(X[j].rel, e.xa[j], e.xb[j])}}
PairReasons(e) == {<<PairTable[i].a, e.a[i], e.b[i]>> :
                      i \in {j \in 1..Len(PairTable) : j <= Len(e.a) /\ SameContent(PairTable[j].cls, e) /\ ~HoldsStrict(PairTable[j].rel, e.a[j], e.b[j])}}
=============================================================================

SPECIFICATION Spec
CONSTANTS
  MaxEku = 2
INVARIANTS
  Laws
  Export
CHECK_DEADLOCK FALSE

----------------------------- MODULE Plan_Multi -----------------------------
(* C05 (and the KeyUsage rule family): inputs with SEVERAL offenders of the same kind, which is   *)
(* where iteration-order nondeterminism shows.  TLC enumerates the recipes; the driver applies    *)
(* them to corpus templates.                                                                       *)
(*   kueku     a key usage (set of bits) with a list of 1..MaxEku distinct purposes (plus one     *)
(*             purpose unknown to the table), planted on subscriber templates; `ok` is the verdict *)
(*             of KeyUsage!Consistent (a fidelity oracle for the lint, not a listed property)      *)
(*   san-vary  n extra dNSNames derived from an existing one (distinct registrable domains)        *)
(*   dup-ext   n distinct extensions duplicated                                                    *)
(*   rdn-vary  n extra subject attributes derived from existing ones                               *)
(*   elem-vary in every SEQUENCE-valued extension, each element gets n siblings of its own kind    *)
(*             (same leading OID or tag) with other content from the corpus vocabulary, behind or  *)
(*             in front of the originals: the same statement / policy / access method twice        *)
(*   str-blank every character string inside an extension value (a notice text, a state or province *)
(*             of an identifier, a qualifier) made blank (n = 1) or given a trailing blank (n = 2):  *)
(*             what a rule that trims, compares or measures text meets                             *)
(*   san-case  n dNSNames, the first in upper case and repeated verbatim as common name (a list    *)
(*             of 3 or 5 entries leaves spare capacity in the parsed slice: in-place edits show)    *)
EXTENDS KeyUsage, TLC, Json
CONSTANTS MaxEku
VARIABLE x
Bits == {DS, CC, KE, DE, KA}
AllPurposes == Purposes \cup {"anyOther"}
RECURSIVE Lists(_)
Lists(n) == IF n = 0 THEN {<<>>} ELSE Lists(n - 1) \cup {Append(s, e) : s \in {t \in Lists(n - 1) : Len(t) = n - 1}, e \in AllPurposes}
Distinct(s) == \A i, j \in 1..Len(s) : i # j => s[i] # s[j]
EkuLists == {s \in Lists(MaxEku) : Len(s) >= 1 /\ Distinct(s)}
SetToSeq(S) == LET RECURSIVE B(_)
                   B(T) == IF T = {} THEN <<>> ELSE LET m == CHOOSE y \in T : \A z \in T : y <= z IN <<m>> \o B(T \ {m})
               IN B(S)
KuEku == {[r |-> "kueku", ku |-> SetToSeq(k), ekus |-> s, ok |-> Consistent(k, s)] : k \in (SUBSET Bits) \ {{}}, s \in EkuLists}
Others == {[r |-> rr, n |-> n] : rr \in {"san-vary", "dup-ext", "rdn-vary"}, n \in {2, 3}} \cup
          {[r |-> "elem-vary", n |-> n] : n \in {1, 2}} \cup
          {[r |-> "san-case", n |-> n] : n \in {3, 5}} \cup
          {[r |-> "str-blank", n |-> n] : n \in {1, 2}}
Init == x = 0
Next == UNCHANGED x
Spec == Init /\ [][Next]_x
\* the relation is order-free and monotone on every pair / list of the plan
Laws == /\ \A a, b \in Purposes : OrderFree(a, b)
        /\ \A s \in EkuLists : Monotone(s)
        /\ \A p \in KuEku : (Len(p.ekus) > 1 /\ \E i \in 1..Len(p.ekus) : p.ekus[i] = "anyOther") => p.ok
Export == PrintT(ToJson([kueku |-> KuEku, others |-> Others]))
=============================================================================

SPECIFICATION Spec
CONSTANTS
  MaxEku = 3
INVARIANTS
  Laws
  Export
CHECK_DEADLOCK FALSE

SPECIFICATION Spec
INVARIANTS
  PlanSane
  Export
CHECK_DEADLOCK FALSE

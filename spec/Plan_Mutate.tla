----------------------------- MODULE Plan_Mutate -----------------------------
(* C02: the mutation space, enumerated by TLC.  A mutation = (class of the TLV node, operator).  *)
(* The driver applies every enabled (class, operator) at every node of that class of every        *)
(* carrier object (nodes inside extension values, names, keys, CRL entries included).              *)
EXTENDS Integers, Sequences, FiniteSets, TLC, Json
TagClasses == {"utf8", "printable", "ia5", "bmp", "teletex", "universal", "integer", "enumerated", "boolean", "oid", "octets", "bits", "null", "time",
               "context-prim", "sequence", "set", "context-cons"}
StringClasses == {"utf8", "printable", "ia5", "bmp", "teletex", "universal"}
Operators == {"drop-last-byte", "drop-first-byte", "empty", "append-c2", "append-e0a0", "append-f0", "last-byte-c2", "set-high-bits", "double-content",
              "retag-utf8", "retag-printable", "retag-ia5", "retag-bmp", "retag-teletex", "retag-universal", "odd-length",
              "duplicate-node", "delete-node", "delete-first-child", "duplicate-first-child", "reverse-children", "swap-with-next",
              "all-ff", "min-negative", "max-positive", "all-zero", "inc-last-byte",
              "mid-percent", "mid-space", "mid-control", "mid-colon", "mid-at", "mid-bracket", "drop-last-2", "drop-last-3", "keep-first-2",
              "label-empty-first", "label-empty-mid", "label-empty-last", "label-drop-mid", "label-dup-mid", "label-long-mid", "label-two-chars", "label-nondigit"}
LabelOperators == {"label-empty-first", "label-empty-mid", "label-empty-last", "label-drop-mid", "label-dup-mid", "label-long-mid", "label-two-chars", "label-nondigit"}
NumberClasses == {"integer", "enumerated", "boolean"}
Enabled(c, op) ==
   CASE op \in {"retag-utf8", "retag-printable", "retag-ia5", "retag-bmp", "retag-teletex", "retag-universal"} -> c \in StringClasses /\ op # ("retag-" \o c)
     [] op \in {"append-c2", "append-e0a0", "append-f0", "last-byte-c2", "set-high-bits"} -> c \in StringClasses \cup {"context-prim", "octets"}
     [] op = "odd-length" -> c \in {"bmp", "universal"}
     [] op \in {"drop-last-2", "drop-last-3", "keep-first-2"} -> c \in {"oid", "octets", "integer"}
     [] op \in {"mid-percent", "mid-space", "mid-control", "mid-colon", "mid-at", "mid-bracket"} -> c \in {"ia5", "utf8", "printable", "context-prim"}
     [] op \in LabelOperators -> c \in {"ia5", "utf8", "printable", "context-prim"}     \* dotted names: one label emptied / dropped / repeated / too long / ...
     [] op \in {"all-ff", "min-negative", "max-positive", "all-zero", "inc-last-byte"} -> c \in NumberClasses
     [] op \in {"delete-first-child", "duplicate-first-child", "reverse-children"} -> c \in {"sequence", "set", "context-cons"}
     [] op \in {"drop-last-byte", "drop-first-byte", "empty", "double-content"} -> c \notin {"sequence", "set", "context-cons", "null"}
     [] OTHER -> TRUE
Plan == {<<c, op>> \in TagClasses \X Operators : Enabled(c, op)}
VARIABLE x
Init == x = 0
Next == UNCHANGED x
Spec == Init /\ [][Next]_x
\* every operator and every class is used somewhere; string retagging covers every ordered pair of distinct string types
PlanSane == /\ \A op \in Operators : \E c \in TagClasses : <<c, op>> \in Plan
            /\ \A c \in TagClasses : \E op \in Operators : <<c, op>> \in Plan
            /\ \A a, b \in StringClasses : a # b => <<a, "retag-" \o b>> \in Plan
            /\ \A c \in NumberClasses : <<c, "all-ff">> \in Plan /\ <<c, "min-negative">> \in Plan
Export == PrintT(ToJson([plan |-> Plan]))
=============================================================================

------------------------------ MODULE Process ------------------------------
(* A process history over registries and configurations: Lint / Filter / SetConfiguration in   *)
(* any order.  The verdict of a lint on an object is a function of                              *)
(*        <<object, lint, what the registry's configuration says to that lint>>                 *)
(* and of nothing else - not of the other lints run (C07), of earlier calls (C05), or of other  *)
(* sections / registries (C11).  The memo variable states exactly that: the first observation   *)
(* for a key is stored, every later one must reproduce it.                                      *)
EXTENDS Base, TLC
CONSTANTS Objects,        \* set of records [id, kind]
          Lints, KindOf, Configurable,
          Cfgs, SectionOf, \* SectionOf[c][l] \in Sections for configurable l
          Filters, SelectedBy,
          Verdict,        \* the model's ground truth: [<<object id, lint, section>> -> Status]
          MaxOps, MaxRegs
Sections == {"absent", "default", "v1", "ill", "scalar"}
VARIABLES regs, memo, nops, hist
vars == <<regs, memo, nops, hist>>

\* what a configuration says to a lint; a section holding the default values says nothing new
Eff(c, l) == IF l \in Configurable THEN (IF SectionOf[c][l] = "default" THEN "absent" ELSE SectionOf[c][l]) ELSE "absent"
\* a section that cannot be applied makes exactly that lint fatal (C11)
StatusOf(o, l, sec) == IF sec \in {"ill", "scalar"} THEN Fatal ELSE Verdict[<<o, l, sec>>]
RunResult(o, r) == [l \in {x \in regs[r].lints : KindOf[x] = o.kind} |-> StatusOf(o.id, l, Eff(regs[r].cfg, l))]
FlagsOf(res) == LET S == {res[l] : l \in DOMAIN res} IN <<Notice \in S, Warn \in S, Error \in S, Fatal \in S>>

Init == regs = <<[lints |-> Lints, cfg |-> "empty"]>> /\ memo = <<>> /\ nops = 0 /\ hist = <<>>
Lint(o, r) ==
   LET res  == RunResult(o, r)
       keys == {<<o.id, l, Eff(regs[r].cfg, l)>> : l \in DOMAIN res} IN
   /\ \A k \in keys \cap DOMAIN memo : memo[k] = res[k[2]]                        \* function of the key
   /\ memo' = [k \in DOMAIN memo \cup keys |-> IF k \in DOMAIN memo THEN memo[k] ELSE res[k[2]]]
   /\ UNCHANGED regs                                                              \* linting is pure
   /\ hist' = Append(hist, [op |-> "Lint", o |-> o.id, r |-> r])
Filter(r, f) == /\ Len(regs) < MaxRegs
                /\ regs' = Append(regs, [lints |-> regs[r].lints \cap SelectedBy[f], cfg |-> regs[r].cfg])   \* inherits the configuration
                /\ UNCHANGED memo /\ hist' = Append(hist, [op |-> "Filter", r |-> r, f |-> f])
SetCfg(r, c) == /\ regs' = [regs EXCEPT ![r].cfg = c]                               \* this registry only
                /\ UNCHANGED memo /\ hist' = Append(hist, [op |-> "SetCfg", r |-> r, c |-> c])
Next == /\ nops < MaxOps /\ nops' = nops + 1
        /\ \/ \E o \in Objects, r \in 1..Len(regs) : Lint(o, r)
           \/ \E r \in 1..Len(regs), f \in Filters : Filter(r, f)
           \/ \E r \in 1..Len(regs), c \in Cfgs : SetCfg(r, c)
Spec == Init /\ [][Next]_vars
\* for simulation (behaviours handed to the replayer): every second operation is a Lint, so histories observe what they change
NextSim == /\ nops < MaxOps /\ nops' = nops + 1
           /\ IF nops % 2 = 1 THEN \E o \in Objects, r \in 1..Len(regs) : Lint(o, r)
              ELSE \/ \E r \in 1..Len(regs), f \in Filters : Filter(r, f)
                   \/ \E r \in 1..Len(regs), c \in Cfgs : SetCfg(r, c)
SpecSim == Init /\ [][NextSim]_vars

\* ---- consequences (checked by TLC on the bounded model)
\* C07: a filtered registry with the same configuration agrees with its parent on every selected lint, reports nothing else,
\*      and raises no flag the full run does not raise
FilteredAgreesWithFull ==
   \A o \in Objects, r \in 1..Len(regs) : regs[r].cfg = regs[1].cfg =>
       LET a == RunResult(o, r) b == RunResult(o, 1) IN
         /\ DOMAIN a \subseteq DOMAIN b /\ \A l \in DOMAIN a : a[l] = b[l] /\ l \in regs[r].lints
         /\ \A i \in 1..4 : FlagsOf(a)[i] => FlagsOf(b)[i]
\* C11: a configuration changes only the lints it names
CfgLocal == \A o \in Objects, r1, r2 \in 1..Len(regs) : \A l \in regs[r1].lints \cap regs[r2].lints :
               KindOf[l] = o.kind /\ Eff(regs[r1].cfg, l) = Eff(regs[r2].cfg, l) => RunResult(o, r1)[l] = RunResult(o, r2)[l]
CfgErrorsLocal == \A o \in Objects, r \in 1..Len(regs) : \A l \in DOMAIN RunResult(o, r) :
               Eff(regs[r].cfg, l) \in {"ill", "scalar"} <=> (RunResult(o, r)[l] = Fatal /\ Verdict[<<o.id, l, "absent">>] # Fatal) \/ (Eff(regs[r].cfg, l) \in {"ill", "scalar"})
\* C05: Lint changes no registry; C11: SetCfg touches one registry, Filter none of the existing ones
LintIsPure == [][\A i \in 1..Len(regs) : (Len(hist') > Len(hist) /\ hist'[Len(hist')].op = "Lint") => regs'[i] = regs[i]]_vars
CfgDoesNotLeak == [][\A i \in 1..Len(regs) : regs'[i].cfg # regs[i].cfg => (hist'[Len(hist')].op = "SetCfg" /\ hist'[Len(hist')].r = i)]_vars
ChildKeepsBirthCfg == [][Len(regs') > Len(regs) => regs'[Len(regs')].cfg = regs[hist'[Len(hist')].r].cfg]_vars
=============================================================================

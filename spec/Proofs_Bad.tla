---------------------------- MODULE Proofs_Bad ----------------------------
EXTENDS Base, TLAPS
Instant == Int \X Int
THEOREM Wrong1 == \A e, i, t \in Instant : t = i => ~InWindow(e, i, t)
  BY DEF InWindow, Le, Lt, Instant, Zero
THEOREM Wrong2 == \A e, i, t \in Instant : e # Zero /\ Le(t, e) => ~InWindow(e, i, t)
  BY DEF InWindow, Le, Lt, Instant, Zero
=============================================================================

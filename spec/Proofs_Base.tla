---------------------------- MODULE Proofs_Base ----------------------------
(* Unbounded facts about the vocabulary of Base.tla, proved with TLAPS (tlapm).  TLC checks the *)
(* same statements on bounded instances (MC_Lifecycle); these proofs remove the bound for the   *)
(* window arithmetic and for the reference semantics Outcome.                                   *)
EXTENDS Base, TLAPS
Instant == Int \X Int
Clock   == {t \in Instant : t[2] \in 0..86399}

THEOREM LeRefl   == \A a \in Instant : Le(a, a)                                   BY DEF Le, Lt, Instant
THEOREM LtIrrefl == \A a \in Instant : ~Lt(a, a)                                  BY DEF Lt, Instant
THEOREM LtTrans  == \A a, b, c \in Instant : Lt(a, b) /\ Lt(b, c) => Lt(a, c)     BY DEF Lt, Instant
THEOREM LtTotal  == \A a, b \in Instant : Lt(a, b) \/ a = b \/ Lt(b, a)           BY DEF Lt, Instant

\* ---- the window is half-open and exact to the instant (C03)
THEOREM AtEff == \A e, i, t \in Instant : t = e /\ (i = Zero \/ Lt(t, i)) => InWindow(e, i, t)
  BY DEF InWindow, Le, Lt, Instant, Zero
THEOREM AtIneff == \A e, i, t \in Instant : i # Zero /\ t = i => ~InWindow(e, i, t)
  BY DEF InWindow, Le, Lt, Instant, Zero
THEOREM BeforeEff == \A e, i, t \in Instant : e # Zero /\ Lt(t, e) => ~InWindow(e, i, t)
  BY DEF InWindow, Le, Lt, Instant, Zero
THEOREM AfterIneff == \A e, i, t \in Instant : i # Zero /\ Le(i, t) => ~InWindow(e, i, t)
  BY DEF InWindow, Le, Lt, Instant, Zero
THEOREM Convex == \A e, i, a, b, c \in Instant :
                     InWindow(e, i, a) /\ InWindow(e, i, c) /\ Le(a, b) /\ Le(b, c) => InWindow(e, i, b)
  BY DEF InWindow, Le, Lt, Instant, Zero
THEOREM Unbounded == \A t \in Instant : InWindow(Zero, Zero, t)
  BY DEF InWindow
\* one second is the grain: t-1s is the immediate predecessor of t
THEOREM PredIsClock == \A t \in Clock : PlusSec(t, -1) \in Clock
  BY DEF PlusSec, Clock, Instant
THEOREM PredBelow == \A t \in Clock : Lt(PlusSec(t, -1), t)
  BY DEF PlusSec, Clock, Instant, Lt
THEOREM PredImmediate == \A t, x \in Clock : ~(Lt(PlusSec(t, -1), x) /\ Lt(x, t))
  BY DEF PlusSec, Clock, Instant, Lt
THEOREM OneSecondBeforeEff == \A e, i \in Clock : e # Zero => ~InWindow(e, i, PlusSec(e, -1))
  BY DEF InWindow, Le, Lt, PlusSec, Clock, Instant, Zero
THEOREM OneSecondBeforeIneff == \A e, i \in Clock : i # Zero /\ (e = Zero \/ Lt(e, i)) => InWindow(e, i, PlusSec(i, -1))
  BY DEF InWindow, Le, Lt, PlusSec, Clock, Instant, Zero

\* ---- reference semantics of one execution (C03, C04), for every kind, metadata, facts, configuration and body
Body == [k : {"ret"}, st : Status] \cup [k : {"panic"}] \cup [k : {"nil"}]
THEOREM JudgedOnlyWhenDue ==
  ASSUME NEW kind, NEW m, NEW f, NEW cfg, NEW applies \in BOOLEAN, NEW t, NEW body \in Body,
         Outcome(kind, m, f, cfg, applies, t, body).st \in Judged
  PROVE  /\ BodyDue(kind, m, f, cfg, applies, t)
         /\ body.k = "ret" /\ Outcome(kind, m, f, cfg, applies, t, body).st = body.st
  BY DEF Outcome, BodyDue, Judged, Finding, Body, Status, NA, NE, Pass, Notice, Warn, Error, Fatal
THEOREM NoFindingOutsideWindow ==
  ASSUME NEW kind, NEW m, NEW f, NEW cfg, NEW applies \in BOOLEAN, NEW t, NEW body \in Body,
         ~InWindow(m.eff, m.ineff, t)
  PROVE  Outcome(kind, m, f, cfg, applies, t, body).st \notin Judged
  BY JudgedOnlyWhenDue DEF BodyDue
THEOREM VerdictStands ==
  ASSUME NEW kind, NEW m, NEW f, NEW cfg, NEW applies \in BOOLEAN, NEW t, NEW s \in Status,
         BodyDue(kind, m, f, cfg, applies, t)
  PROVE  Outcome(kind, m, f, cfg, applies, t, [k |-> "ret", st |-> s]) = [st |-> s, why |-> "body"]
  BY DEF Outcome, BodyDue
THEOREM NAOutOfScopeOrInapplicable ==
  ASSUME NEW kind, NEW m, NEW f, NEW cfg, NEW applies \in BOOLEAN, NEW t, NEW body \in Body,
         ~InScope(kind, m.source, f) \/ (cfg \notin {"err", "panic"} /\ ~applies)
  PROVE  Outcome(kind, m, f, cfg, applies, t, body).st = NA
  BY DEF Outcome
\* ---- severity contract: the three prefixes forbid disjoint things and allow Pass, NA, NE, Fatal to everybody
THEOREM OpenToAll == \A p \in {"e", "w", "n"} : Forbidden(p) \cap {Pass, NA, NE, Fatal} = {}
  BY DEF Forbidden, Pass, NA, NE, Fatal, Warn, Notice, Error
=============================================================================

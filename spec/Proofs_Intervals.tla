-------------------------- MODULE Proofs_Intervals --------------------------
(* Unbounded facts about Intervals.tla, proved with TLAPS: the validity limits (C20: an error of *)
(* the 398-day rule always comes with a finding of the 397-day rule; exactness at the limits)     *)
(* and the delegation window of a TLD (C18: both ends inclusive).                                 *)
EXTENDS Intervals, TLAPS
Instant == Int \X Int
THEOREM LongerLimitImpliesShorter == \A nb, na \in Instant : \A n, m \in Nat : m <= n /\ OverDays(nb, na, n) => OverDays(nb, na, m)
  BY DEF OverDays, InclusiveSeconds, Diff, SecOfDay, Instant
THEOREM ErrorImpliesWarning == \A nb, na \in Instant : OverDays(nb, na, 398) => OverDays(nb, na, 397)
  BY DEF OverDays, InclusiveSeconds, Diff, SecOfDay, Instant
\* exactly n days to the second is within the limit, one second more is over it
THEOREM AtTheLimit == \A nb \in Instant : \A n \in Nat :
                         ~OverDays(nb, <<nb[1] + n, nb[2] - 1>>, n) /\ OverDays(nb, <<nb[1] + n, nb[2]>>, n)
  BY DEF OverDays, InclusiveSeconds, Diff, SecOfDay, Instant
THEOREM NotPositiveIsStrict == \A nb \in Instant : ~NotPositive(nb, nb)
  BY DEF NotPositive, Lt, Instant
\* the delegation window: closed at both ends
THEOREM WindowClosed == \A dl, rm, t \in Instant :
     /\ (t = dl /\ Le(dl, rm)) => ValidBetween(dl, TRUE, rm, t)
     /\ Lt(t, dl) => ~ValidBetween(dl, TRUE, rm, t) /\ ~ValidBetween(dl, FALSE, rm, t)
     /\ (t = rm /\ Le(dl, rm)) => ValidBetween(dl, TRUE, rm, t)
     /\ Lt(rm, t) => ~ValidBetween(dl, TRUE, rm, t)
     /\ Le(dl, t) => ValidBetween(dl, FALSE, rm, t)
  BY DEF ValidBetween, Le, Lt, Instant
\* a well-formed entry (removal not before delegation) is valid at some instant
THEOREM NonEmpty == \A dl, rm \in Instant : Le(dl, rm) => \E t \in Instant : ValidBetween(dl, TRUE, rm, t)
  <1>1. TAKE dl, rm \in Instant
  <1>2. ASSUME Le(dl, rm) PROVE ValidBetween(dl, TRUE, rm, dl)
        BY <1>2 DEF ValidBetween, Le, Lt, Instant
  <1> QED BY <1>2
=============================================================================

-------------------------- MODULE Proofs_Registry --------------------------
(* Unbounded laws of Filter as a function (RegistryOps!FilterResult), proved with TLAPS: for    *)
(* every universe of lints, every option record and every family of match sets.  MC_Registry    *)
(* checks the same laws exhaustively on a 6-lint universe; the proofs remove the bound (C08),   *)
(* and give the set-level reason for C07 (a filtered registry is a restriction of its parent).  *)
EXTENDS FilterFn, TLAPS

Sel(R, o, M) == FilterResult(R, o, M).sel
Err(R, o, M) == FilterResult(R, o, M).err

THEOREM SelSubset == ASSUME NEW R, NEW o, NEW M PROVE Sel(R, o, M) \subseteq R
  BY DEF Sel, FilterResult
THEOREM EmptyIsIdentity == ASSUME NEW R, NEW o, NEW M, EmptyOpts(o)
                           PROVE Sel(R, o, M) = R /\ Err(R, o, M) = "none" /\ FilterResult(R, o, M).same
  BY DEF Sel, Err, FilterResult
THEOREM ErrorsAreExactlyTheDocumentedOnes ==
  ASSUME NEW R, NEW o, NEW M
  PROVE  Err(R, o, M) # "none" <=>
           /\ ~EmptyOpts(o)
           /\ \/ \E e \in o.xn \cup o.inn : TrimTok(e) \notin NamesOf(R)
              \/ (o.nf # "nil" /\ (o.xn # {} \/ o.inn # {}))
  BY DEF Err, FilterResult, TrimTok, NamesOf
THEOREM UnknownNameWins ==
  ASSUME NEW R, NEW o, NEW M, \E e \in o.xn \cup o.inn : TrimTok(e) \notin NamesOf(R)
  PROVE  Err(R, o, M) = "unknown" /\ Sel(R, o, M) = {}
  BY DEF Err, Sel, FilterResult, TrimTok, NamesOf, EmptyOpts
THEOREM ExactlyTheDocumentedSet ==
  ASSUME NEW R, NEW o, NEW M, Err(R, o, M) = "none", NEW x \in R
  PROVE  x \in Sel(R, o, M) <=>
           /\ x.source \notin o.xs
           /\ (o.is = {} \/ x.source \in o.is)
           /\ (o.nf = "nil" \/ x.name \in M[o.nf])
           /\ \A e \in o.xn : TrimTok(e) # x.name
           /\ (o.inn = {} \/ \E e \in o.inn : TrimTok(e) = x.name)
  BY DEF Err, Sel, FilterResult, TrimTok, EmptyOpts
THEOREM ExclusionWins ==
  ASSUME NEW R, NEW o, NEW M, NEW x \in Sel(R, o, M), ~EmptyOpts(o)
  PROVE  x.source \notin o.xs /\ \A e \in o.xn : TrimTok(e) # x.name
  BY DEF Sel, FilterResult, TrimTok
\* padding is irrelevant: two option records whose name lists trim to the same names select the same set
THEOREM TrimOnly ==
  ASSUME NEW R, NEW o1, NEW o2, NEW M,
         o1.xs = o2.xs, o1.is = o2.is, o1.nf = o2.nf,
         {TrimTok(e) : e \in o1.xn} = {TrimTok(e) : e \in o2.xn},
         {TrimTok(e) : e \in o1.inn} = {TrimTok(e) : e \in o2.inn}
  PROVE  Sel(R, o1, M) = Sel(R, o2, M) /\ Err(R, o1, M) = Err(R, o2, M)
  <1>1. (o1.xn = {} <=> o2.xn = {}) /\ (o1.inn = {} <=> o2.inn = {})
        OBVIOUS
  <1>2. EmptyOpts(o1) <=> EmptyOpts(o2)
        BY <1>1 DEF EmptyOpts
  <1> QED BY <1>2 DEF Sel, Err, FilterResult, TrimTok
\* filtering is a restriction: over a sub-universe on which the options are still valid, the same options select the restriction
THEOREM Restriction ==
  ASSUME NEW R, NEW S \in SUBSET R, NEW o, NEW M, Err(R, o, M) = "none", Err(S, o, M) = "none"
  PROVE  Sel(S, o, M) = Sel(R, o, M) \cap S
  BY DEF Sel, Err, FilterResult
THEOREM IdempotentWithoutNameLists ==
  ASSUME NEW R, NEW o, NEW M, o.xn = {}, o.inn = {}
  PROVE  Sel(Sel(R, o, M), o, M) = Sel(R, o, M)
  BY DEF Sel, FilterResult, EmptyOpts, NamesOf
\* the source-only and name-only filters commute
THEOREM SourceFiltersCommute ==
  ASSUME NEW R, NEW o1, NEW o2, NEW M,
         o1.xn = {}, o1.inn = {}, o1.nf = "nil", o2.xn = {}, o2.inn = {}, o2.nf = "nil"
  PROVE  Sel(Sel(R, o1, M), o2, M) = Sel(Sel(R, o2, M), o1, M)
  BY DEF Sel, FilterResult, EmptyOpts, NamesOf
=============================================================================

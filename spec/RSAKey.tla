-------------------------------- MODULE RSAKey --------------------------------
(* C16: the RSA key-quality lints decide exactly their arithmetic predicate.  Exact integer      *)
(* arithmetic for moduli below 2^31 (TLC's integers); for real-size moduli the facts are fixed by *)
(* construction in the harness (bit length, parity, planted small divisor, Fermat index).        *)
EXTENDS Base
RECURSIVE BitLen(_)
BitLen(n) == IF n = 0 THEN 0 ELSE 1 + BitLen(n \div 2)
\* integer square root by bisection
RECURSIVE SqrtBetween(_, _, _)
SqrtBetween(n, lo, hi) == IF lo = hi THEN lo
                          ELSE LET mid == (lo + hi + 1) \div 2 IN IF mid * mid <= n THEN SqrtBetween(n, mid, hi) ELSE SqrtBetween(n, lo, mid - 1)
ISqrt(n) == SqrtBetween(n, 0, 46340)
IsSquare(n) == n >= 0 /\ ISqrt(n) * ISqrt(n) = n
IsPrime(p) == p >= 2 /\ \A d \in 2..ISqrt(p) : p % d # 0
\* "a factor below 752": any divisor 2..751 (the prime table is the implementation's business)
SmallFactor(n) == \E d \in 2..751 : d < n /\ n % d = 0
SmallFactorAny(n) == \E d \in 2..751 : n % d = 0
\* Fermat's method as the lint runs it: a0 = floor(sqrt n) + 1, at most `rounds` candidates
FermatFound(n, rounds) == LET a0 == ISqrt(n) + 1 IN \E i \in 0..(rounds - 1) : IsSquare((a0 + i) * (a0 + i) - n)
\* the predicates, by lint
Predicate(lint, k) ==   \* k = [bits, even, small, e, fermat]
  CASE lint = "e_rsa_mod_less_than_2048_bits"              -> k.bits < 2048
    [] lint = "e_mp_modulus_must_be_2048_bits_or_more"     -> k.bits < 2048
    [] lint = "e_old_root_ca_rsa_mod_less_than_2048_bits"  -> k.bits < 2048
    [] lint = "e_old_sub_ca_rsa_mod_less_than_1024_bits"   -> k.bits < 1024
    [] lint = "e_old_sub_cert_rsa_mod_less_than_1024_bits" -> k.bits < 1024
    [] lint = "e_cs_rsa_key_size"                          -> k.bits < 3072
    [] lint = "e_mp_modulus_must_be_divisible_by_8"        -> k.bits % 8 # 0
    [] lint = "w_rsa_mod_not_odd"                          -> k.even
    [] lint = "w_rsa_mod_factors_smaller_than_752"         -> k.small
    [] lint = "e_rsa_public_exponent_not_odd"              -> k.e % 2 = 0
    [] lint = "e_rsa_public_exponent_too_small"            -> k.e < 3
    [] lint = "e_mp_exponent_cannot_be_one"                -> k.e = 1
    [] lint = "w_rsa_public_exponent_not_in_range"         -> k.e < 65537
    [] lint = "e_rsa_fermat_factorization"                 -> k.fermat
KeyLints == {"e_rsa_mod_less_than_2048_bits", "e_mp_modulus_must_be_2048_bits_or_more", "e_old_root_ca_rsa_mod_less_than_2048_bits",
             "e_old_sub_ca_rsa_mod_less_than_1024_bits", "e_old_sub_cert_rsa_mod_less_than_1024_bits", "e_cs_rsa_key_size",
             "e_mp_modulus_must_be_divisible_by_8", "w_rsa_mod_not_odd", "w_rsa_mod_factors_smaller_than_752", "e_rsa_public_exponent_not_odd",
             "e_rsa_public_exponent_too_small", "e_mp_exponent_cannot_be_one", "w_rsa_public_exponent_not_in_range", "e_rsa_fermat_factorization"}
FindingOf(lint) == IF lint \in {"w_rsa_mod_not_odd", "w_rsa_mod_factors_smaller_than_752", "w_rsa_public_exponent_not_in_range"} THEN Warn ELSE Error
\* a lint that judged the key (pass or a finding) must have decided its predicate exactly
VerdictOK(lint, k, st) == st \in Judged => st = (IF Predicate(lint, k) THEN FindingOf(lint) ELSE Pass)
\* facts of a small key, computed here
SmallFacts(n, e, rounds) == [bits |-> BitLen(n), even |-> n % 2 = 0, small |-> SmallFactorAny(n), e |-> e, fermat |-> FermatFound(n, rounds)]
=============================================================================

------------------------------ MODULE Registry ------------------------------
(* State machine over the operators of RegistryOps: init()-time registration into the global   *)
(* registry, then Filter / SetConfiguration in any order.                                       *)
EXTENDS RegistryOps

\* ---------------------------------------------------------------- state machine
CONSTANTS Universe, RegOrder, SourcesNameable, UnknownNames, Pads, MatchSetIds, MatchSetOf, MaxOps, Cfgs, MaxXn, MaxInn
VARIABLES regs, cfg, nregs, nops, nreg1, lastFilter
vars == <<regs, cfg, nregs, nops, nreg1, lastFilter>>
Tokens == (NamesOf(Universe) \cup UnknownNames) \X Pads
OptSpace == [xs : SUBSET SourcesNameable, is : SUBSET SourcesNameable, nf : {"nil"} \cup MatchSetIds,
             xn : {T \in SUBSET Tokens : Cardinality(T) <= MaxXn}, inn : {T \in SUBSET Tokens : Cardinality(T) <= MaxInn}]
Init == regs = <<EmptyRegistry>> /\ cfg = <<"empty">> /\ nregs = 1 /\ nops = 0 /\ nreg1 = 0 /\ lastFilter = [src |-> 0]
\* init()-time registration into the global registry (index 1), in source-file order
Register == /\ nreg1 < Len(RegOrder)
            /\ LET x == RegOrder[nreg1 + 1] IN
                 IF RegisterOutcome(regs[1], x) = "ok" THEN regs' = [regs EXCEPT ![1] = Registered(@, x)] ELSE UNCHANGED regs  \* (the real API panics)
            /\ nreg1' = nreg1 + 1 /\ UNCHANGED <<cfg, nregs, nops>> /\ lastFilter' = [src |-> 0]
Ready == nreg1 = Len(RegOrder)
SetConfiguration(r, c) == /\ Ready /\ nops < MaxOps /\ r \in 1..nregs /\ cfg' = [cfg EXCEPT ![r] = c]
                          /\ nops' = nops + 1 /\ UNCHANGED <<regs, nregs, nreg1>> /\ lastFilter' = [src |-> 0]
Filter(r, o) == /\ Ready /\ nops < MaxOps /\ r \in 1..nregs /\ nops' = nops + 1 /\ UNCHANGED nreg1
                /\ LET res == FilterTables(regs[r], o, MatchSetOf) IN
                     IF res.err # "none" \/ EmptyOpts(o) THEN UNCHANGED <<regs, cfg, nregs>> /\ lastFilter' = [src |-> r, o |-> o, new |-> 0, err |-> res.err]
                     ELSE /\ regs' = Append(regs, res.reg) /\ cfg' = Append(cfg, cfg[r]) /\ nregs' = nregs + 1
                          /\ lastFilter' = [src |-> r, o |-> o, new |-> nregs + 1, err |-> "none"]
Next == \/ Register
        \/ (Ready /\ nops < MaxOps /\ \E r \in 1..nregs, c \in Cfgs : SetConfiguration(r, c))
        \/ (Ready /\ nops < MaxOps /\ \E r \in 1..nregs, o \in OptSpace : Filter(r, o))
Spec == Init /\ [][Next]_vars

TablesOK == \A r \in 1..nregs : LookupsAgree(regs[r]) /\ NamesSorted(regs[r])
FilterSound == lastFilter.src # 0 /\ lastFilter.new # 0 =>
     LET R == AllLints(regs[lastFilter.src])  r == FilterResult(R, lastFilter.o, MatchSetOf) IN
       /\ AllLints(regs[lastFilter.new]) = r.sel                                   \* exactly the documented set, kinds and metadata kept
       /\ cfg[lastFilter.new] = cfg[lastFilter.src]                               \* configuration inherited
       /\ r.sel \subseteq R
FilterErrIffDocumented == lastFilter.src # 0 =>
     LET R == AllLints(regs[lastFilter.src]) o == lastFilter.o IN
       (lastFilter.err # "none") <=> ( (\E e \in o.xn \cup o.inn : TrimTok(e) \notin NamesOf(R))
                                       \/ (o.nf # "nil" /\ (o.xn # {} \/ o.inn # {})) ) /\ ~EmptyOpts(o)
\* the source registry (indeed every existing registry) is left unchanged by Filter; configuration does not flow back
OthersUnchanged == [][\A r \in 1..nregs : regs'[r] = regs[r] \/ (r = 1 /\ ~Ready)]_vars
CfgOnlyBySet == [][\A r \in 1..nregs : cfg'[r] # cfg[r] => lastFilter'.src = 0]_vars
\* laws of the function itself, checked over the whole option space of the bounded universe
FilterLaws ==
   \A o \in OptSpace : LET r == FilterResult(Universe, o, MatchSetOf) IN
      /\ (r.err = "none" => r.sel \subseteq Universe)
      /\ (r.err = "none" /\ o.xn = {} /\ o.inn = {} => FilterResult(r.sel, o, MatchSetOf).sel = r.sel)                 \* idempotent
      /\ ((\E e \in o.xn \cup o.inn : TrimTok(e) \in UnknownNames) => r.err = "unknown")
      /\ (r.err = "none" => \A x \in r.sel : x.source \notin o.xs /\ \A e \in o.xn : TrimTok(e) # x.name)             \* exclusion wins
=============================================================================

---------------------------- MODULE RegistryOps ----------------------------
(* The lint registry (v3/lint/registration.go, lint_lookup.go): per-kind lookup tables that    *)
(* `register` maintains, the merged views (Names, Sources), and Filter.                        *)
(* A lint is a record [name, kind, source]; names are integers standing for their rank in      *)
(* lexicographic order (TLC cannot order strings), 0 is "a name registered nowhere".           *)
EXTENDS FilterFn, TLC

Kinds == {"cert", "crl", "ocsp"}

\* ---------------------------------------------------------------- the tables (C12)
\* one registry: per kind, what register() maintains
EmptyLookup == [lints |-> <<>>, names |-> <<>>, byName |-> <<>>, bySource |-> <<>>, sources |-> {}]
EmptyRegistry == [k \in Kinds |-> EmptyLookup]
RangeOf(s) == {s[i] : i \in 1..Len(s)}
\* insertion into an ascending sequence (the code appends and re-sorts)
InsertSorted(s, n) == LET lo == SelectSeq(s, LAMBDA x : x <= n)  hi == SelectSeq(s, LAMBDA x : x > n) IN lo \o <<n>> \o hi
\* outcomes of registration; the duplicate test is per kind (as written in the code)
RegisterOutcome(reg, x) == IF x.name = 0 THEN "empty-name"                    \* stands for the empty string
                           ELSE IF x.name \in DOMAIN reg[x.kind].byName THEN "duplicate"
                           ELSE "ok"
Registered(reg, x) ==
   LET lk == reg[x.kind] IN
   [reg EXCEPT ![x.kind] =
      [lints    |-> Append(lk.lints, x),
       names    |-> InsertSorted(lk.names, x.name),
       byName   |-> (x.name :> x) @@ lk.byName,
       bySource |-> IF x.source \in DOMAIN lk.bySource THEN [lk.bySource EXCEPT ![x.source] = Append(@, x)]
                    ELSE (x.source :> <<x>>) @@ lk.bySource,
       sources  |-> lk.sources \cup {x.source}]]
\* merged views
AllLints(reg)   == UNION {RangeOf(reg[k].lints) : k \in Kinds}
AllNames(reg)   == UNION {RangeOf(reg[k].names) : k \in Kinds}
AllSources(reg) == UNION {reg[k].sources : k \in Kinds}
IsSorted(s)     == \A i \in 1..(Len(s) - 1) : s[i] < s[i + 1]
\* invariants of one registry
LookupsAgree(reg) ==
   \A k \in Kinds : LET lk == reg[k] IN
      /\ RangeOf(lk.names) = {x.name : x \in RangeOf(lk.lints)} /\ Len(lk.names) = Len(lk.lints)
      /\ DOMAIN lk.byName = RangeOf(lk.names) /\ \A n \in DOMAIN lk.byName : lk.byName[n] \in RangeOf(lk.lints) /\ lk.byName[n].name = n
      /\ lk.sources = {x.source : x \in RangeOf(lk.lints)} /\ DOMAIN lk.bySource = lk.sources
      /\ \A s \in DOMAIN lk.bySource : RangeOf(lk.bySource[s]) = {x \in RangeOf(lk.lints) : x.source = s}
                                       /\ Len(lk.bySource[s]) = Cardinality(RangeOf(lk.bySource[s]))
      /\ \A x \in RangeOf(lk.lints) : x.kind = k
NamesSorted(reg)      == \A k \in Kinds : IsSorted(reg[k].names)
UniqueAcrossKinds(reg) == \A k1, k2 \in Kinds : k1 # k2 => RangeOf(reg[k1].names) \cap RangeOf(reg[k2].names) = {}

\* Filter on tables: a fresh registry, lints re-registered in ascending name order, configuration inherited
RECURSIVE RegisterAll(_, _)
RegisterAll(reg, seq) == IF seq = <<>> THEN reg ELSE RegisterAll(Registered(reg, Head(seq)), Tail(seq))
SortedByName(S) == LET RECURSIVE Build(_)
                       Build(T) == IF T = {} THEN <<>> ELSE LET mn == CHOOSE x \in T : \A y \in T : x.name <= y.name IN <<mn>> \o Build(T \ {mn})
                   IN Build(S)
FilterTables(reg, o, MatchSets) ==
   LET r == FilterResult(AllLints(reg), o, MatchSets) IN
   IF r.err # "none" THEN [err |-> r.err, reg |-> EmptyRegistry]
   ELSE IF r.same THEN [err |-> "none", reg |-> reg]
   ELSE [err |-> "none", reg |-> RegisterAll(EmptyRegistry, SortedByName(r.sel))]

=============================================================================

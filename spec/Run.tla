-------------------------------- MODULE Run --------------------------------
(* One Lint*Ex call (v3/zlint.go + v3/resultset.go): nil guards, the per-lint loop            *)
(* (execute -> attach metadata -> store -> update flags), the final stamp.                    *)
(* The predicates over a result set are stated on plain values so that the trace spec         *)
(* (Trace_Run) evaluates exactly the same operators on recorded executions.                   *)
EXTENDS Base, TLC

\* ---- predicates on a result set (C01)
Complete(expect, keys)  == keys = expect                      \* exactly one result per lint of the kind, no others
AllDefined(S)           == S \subseteq Defined                 \* never reserved / out of range
FlagsIff(S, flags)      == /\ flags[1] <=> Notice \in S
                           /\ flags[2] <=> Warn \in S
                           /\ flags[3] <=> Error \in S
                           /\ flags[4] <=> Fatal \in S
Version3(v)             == v = 3

CONSTANTS LintIds, Order      \* Order: the full registry's lints of one kind, a sequence over LintIds
VARIABLES kind, sel, outc, obj, regarg, pc, i, keys, st, meta, flags, version, pending
vars == <<kind, sel, outc, obj, regarg, pc, i, keys, st, meta, flags, version, pending>>

PanicC == 8  NilC == 9
\* the registry actually used: a filtered registry keeps registration order
RegSeq == IF regarg = "nil" THEN Order ELSE SelectSeq(Order, LAMBDA x : x \in sel)
Init == /\ kind \in {"cert", "crl", "ocsp"} /\ sel \in SUBSET LintIds /\ outc \in [LintIds -> 0..9]
        /\ obj \in {"nil", "obj"} /\ regarg \in {"nil", "given"}
        /\ pc = "entry" /\ i = 1 /\ keys = {} /\ st = <<>> /\ meta = <<>> /\ flags = <<FALSE, FALSE, FALSE, FALSE>>
        /\ version = 0 /\ pending = -1
NilGuard == /\ pc = "entry" /\ obj = "nil" /\ pc' = "returned_nil"
            /\ UNCHANGED <<kind, sel, outc, obj, regarg, i, keys, st, meta, flags, version, pending>>
Begin    == /\ pc = "entry" /\ obj # "nil" /\ pc' = "loop"
            /\ UNCHANGED <<kind, sel, outc, obj, regarg, i, keys, st, meta, flags, version, pending>>
\* lint.Execute(o, cfg): the whole Lifecycle collapsed to its outcome (see Lifecycle.tla)
ExecLint == /\ pc = "loop" /\ i <= Len(RegSeq)
            /\ LET o == outc[RegSeq[i]] IN
                 CASE o = PanicC -> IF kind = "cert" THEN pending' = Fatal /\ pc' = "store"   \* recover net
                                    ELSE pending' = -1 /\ pc' = "escaped"                     \* deviation: no net
                   [] o = NilC   -> pending' = -1 /\ pc' = "escaped"                          \* deviation: nil deref in the loop
                   [] OTHER      -> pending' = o /\ pc' = "store"
            /\ UNCHANGED <<kind, sel, outc, obj, regarg, i, keys, st, meta, flags, version>>
Store    == /\ pc = "store"
            /\ LET n == RegSeq[i] IN
                 /\ keys' = keys \cup {n}
                 /\ st' = (n :> pending) @@ st
                 /\ meta' = (n :> n) @@ meta
            /\ pc' = "flags"
            /\ UNCHANGED <<kind, sel, outc, obj, regarg, i, flags, version, pending>>
UpdateFlags == /\ pc = "flags"
               /\ flags' = [flags EXCEPT ![1] = @ \/ pending = Notice, ![2] = @ \/ pending = Warn,
                                         ![3] = @ \/ pending = Error,  ![4] = @ \/ pending = Fatal]
               /\ i' = i + 1 /\ pc' = "loop"
               /\ UNCHANGED <<kind, sel, outc, obj, regarg, keys, st, meta, version, pending>>
Stamp    == /\ pc = "loop" /\ i > Len(RegSeq) /\ version' = 3 /\ pc' = "returned"
            /\ UNCHANGED <<kind, sel, outc, obj, regarg, i, keys, st, meta, flags, pending>>
Next == NilGuard \/ Begin \/ ExecLint \/ Store \/ UpdateFlags \/ Stamp
Spec == Init /\ [][Next]_vars

Present == {st[k] : k \in DOMAIN st}
RegSet  == {RegSeq[j] : j \in 1..Len(RegSeq)}
\* ---- invariants
ReturnedComplete == pc = "returned" => Complete(RegSet, keys) /\ DOMAIN st = keys
MetaOwn          == \A k \in DOMAIN meta : meta[k] = k
FlagsConsistent  == pc \in {"loop", "returned"} => FlagsIff(Present, flags)
StampedVersion   == pc = "returned" => Version3(version)
DefinedIfBodiesDefined == (pc = "returned" /\ \A n \in RegSet : outc[n] \in Defined \cup {PanicC}) => AllDefined(Present)
EscapeOnlyByDeviation  == pc = "escaped" => \E n \in RegSet : outc[n] = NilC \/ (outc[n] = PanicC /\ kind # "cert")
NilInNilOut      == pc = "returned_nil" <=> (obj = "nil" /\ pc # "entry")
=============================================================================

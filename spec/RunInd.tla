------------------------------- MODULE RunInd -------------------------------
(* Inductive-invariant form of Run.tla for Apalache: the registry is any injective sequence      *)
(* over a set of lint ids of any size up to the bound of ConstInit.                              *)
EXTENDS Integers, Sequences, FiniteSets

CONSTANTS
  \* @type: Set(Int);
  LintIds,
  \* @type: Seq(Int);
  RegSeq
VARIABLES
  \* @type: Str;
  kind,
  \* @type: Int -> Int;
  outc,
  \* @type: Str;
  pc,
  \* @type: Int;
  i,
  \* @type: Set(Int);
  keys,
  \* @type: Int -> Int;
  st,
  \* @type: <<Bool, Bool, Bool, Bool>>;
  flags,
  \* @type: Int;
  version,
  \* @type: Int;
  pending
Notice == 4  Warn == 5  Error == 6  Fatal == 7
PanicC == 8  NilC == 9
Present == {st[k] : k \in DOMAIN st}
\* @type: (Set(Int), <<Bool, Bool, Bool, Bool>>) => Bool;
FlagsIff(S, f) == /\ (f[1] <=> Notice \in S)
                  /\ (f[2] <=> Warn \in S)
                  /\ (f[3] <=> Error \in S)
                  /\ (f[4] <=> Fatal \in S)
Init == /\ kind \in {"cert", "crl", "ocsp"} /\ outc \in [LintIds -> 0..9]
        /\ pc = "loop" /\ i = 1 /\ keys = {} /\ st = [x \in {y \in LintIds : FALSE} |-> 0] /\ flags = <<FALSE, FALSE, FALSE, FALSE>>
        /\ version = 0 /\ pending = -1
ExecLint == /\ pc = "loop" /\ i <= Len(RegSeq)
            /\ LET o == outc[RegSeq[i]] IN
                 IF o = PanicC THEN (IF kind = "cert" THEN pending' = Fatal /\ pc' = "store" ELSE pending' = -1 /\ pc' = "escaped")
                 ELSE IF o = NilC THEN pending' = -1 /\ pc' = "escaped"
                 ELSE pending' = o /\ pc' = "store"
            /\ UNCHANGED <<kind, outc, i, keys, st, flags, version>>
Store == /\ pc = "store"
         /\ LET n == RegSeq[i] IN
              /\ keys' = keys \union {n}
              /\ st' = [k \in DOMAIN st \union {n} |-> IF k = n THEN pending ELSE st[k]]
         /\ pc' = "flags"
         /\ UNCHANGED <<kind, outc, i, flags, version, pending>>
UpdateFlags == /\ pc = "flags"
               /\ flags' = <<flags[1] \/ pending = Notice, flags[2] \/ pending = Warn, flags[3] \/ pending = Error, flags[4] \/ pending = Fatal>>
               /\ i' = i + 1 /\ pc' = "loop"
               /\ UNCHANGED <<kind, outc, keys, st, version, pending>>
Stamp == /\ pc = "loop" /\ i > Len(RegSeq) /\ version' = 3 /\ pc' = "returned"
         /\ UNCHANGED <<kind, outc, i, keys, st, flags, pending>>
Next == ExecLint \/ Store \/ UpdateFlags \/ Stamp
Done(j) == {RegSeq[x] : x \in {y \in DOMAIN RegSeq : y <= j}}
Inj == \A a, b \in DOMAIN RegSeq : RegSeq[a] = RegSeq[b] => a = b
\* the inductive invariant
IndInvCore ==
  /\ kind \in {"cert", "crl", "ocsp"} /\ outc \in [LintIds -> 0..9]
  /\ \A x \in DOMAIN RegSeq : RegSeq[x] \in LintIds
  /\ pc \in {"loop", "store", "flags", "returned", "escaped"}
  /\ i >= 1 /\ i <= Len(RegSeq) + 1
  /\ (pc \in {"store", "flags"} => i <= Len(RegSeq))
  /\ (pc = "returned" => i = Len(RegSeq) + 1 /\ version = 3)
  /\ DOMAIN st = keys
  /\ keys = (IF pc = "flags" THEN Done(i) ELSE Done(i - 1))
  /\ (pc \in {"loop", "store", "returned", "escaped"} => FlagsIff(Present, flags))
  /\ (pc = "flags" => st[RegSeq[i]] = pending /\ FlagsIff({st[k] : k \in keys \ {RegSeq[i]}}, flags))
  /\ flags \in {<<a, b, c, d>> : a \in BOOLEAN, b \in BOOLEAN, c \in BOOLEAN, d \in BOOLEAN}
  /\ version \in {0, 3} /\ pending \in -1..9
  /\ \A k \in keys : st[k] \in -1..9
IndInv == Inj /\ IndInvCore
IndInit == /\ kind \in {"cert", "crl", "ocsp"} /\ outc \in [LintIds -> 0..9]
           /\ pc \in {"loop", "store", "flags", "returned", "escaped"}
           /\ i \in 1..7
           /\ keys \in SUBSET LintIds
           /\ st \in [keys -> -1..9]
           /\ flags \in {<<a, b, c, d>> : a \in BOOLEAN, b \in BOOLEAN, c \in BOOLEAN, d \in BOOLEAN}
           /\ version \in {0, 3} /\ pending \in -1..9
           /\ IndInv
\* the same without the assumption that names are not repeated (negative control: not inductive)
IndInitCore == /\ kind \in {"cert", "crl", "ocsp"} /\ outc \in [LintIds -> 0..9]
               /\ pc \in {"loop", "store", "flags", "returned", "escaped"}
               /\ i \in 1..7
               /\ keys \in SUBSET LintIds
               /\ st \in [keys -> -1..9]
               /\ flags \in {<<a, b, c, d>> : a \in BOOLEAN, b \in BOOLEAN, c \in BOOLEAN, d \in BOOLEAN}
               /\ version \in {0, 3} /\ pending \in -1..9
               /\ IndInvCore
\* what C01 wants at the end
ReturnedOK == pc = "returned" => keys = Done(Len(RegSeq)) /\ DOMAIN st = keys /\ FlagsIff(Present, flags) /\ version = 3
=============================================================================

-------------------------- MODULE RunInd_apalache --------------------------
(* Constant initialiser for Apalache: the registry is ANY sequence of at most 6 distinct lint ids.  *)
EXTENDS RunInd, Apalache
ConstInit == /\ LintIds = 1..6
             /\ RegSeq = Gen(6)                                   \* any sequence of at most 6 elements ...
             /\ \A x \in DOMAIN RegSeq : RegSeq[x] \in LintIds     \* ... over the lint ids ...
             /\ \A a, b \in DOMAIN RegSeq : RegSeq[a] = RegSeq[b] => a = b   \* ... without repetition (names are unique in a registry)
=============================================================================

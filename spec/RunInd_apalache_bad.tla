-------------------------- MODULE RunInd_apalache_bad --------------------------
(* Negative control: without the 'no repetition' constraint on the registry the invariant is NOT   *)
(* inductive (a repeated name overwrites its earlier result) - Apalache must report an error.       *)
EXTENDS RunInd, Apalache
ConstInit == /\ LintIds = 1..6
             /\ RegSeq = Gen(6)                                   \* any sequence of at most 6 elements ...
             /\ \A x \in DOMAIN RegSeq : RegSeq[x] \in LintIds     \* ... over the lint ids ...
=============================================================================

SPECIFICATION SSpec
CONSTANTS
  G = {1, 2, 3}
  Progs <- ProgramsAll
  RecOf <- MCRecOf
  GlobalReg <- MCGlobal
  NSlots = 2
  Selects <- MCSelects
  VerdictOf <- MCVerdictOf
  Flaw = "none"
  MaxPre = 2
INVARIANTS
  Export
  Linearizable

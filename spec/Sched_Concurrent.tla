--------------------------- MODULE Sched_Concurrent ---------------------------
(* Binding G for Concurrent.tla: schedules, not just states.  A schedule is the sequence of      *)
(* goroutines that are let through a gate (operation start, run.lint, filter.register); between   *)
(* two gates a goroutine runs alone, which is exactly what a gate-holding scheduler can enforce   *)
(* on the real code.  This is a restriction of Concurrent!Next (every behaviour here is one of    *)
(* the full model), bounded CHESS-style by the number of pre-emptions.                            *)
EXTENDS MC_Concurrent, Json
CONSTANTS MaxPre
VARIABLES cur, sched, npre
svars == <<st, cur, sched, npre>>
Runnable(s, g) == Enabled(s, g)
\* the goroutine that ran last is parked at a gate, blocked on a registry not yet handed out, or done
Parked(s, g) == IF g = 0 THEN TRUE ELSE Finished(s, g) \/ IsControl(s, g)
SInit == Init /\ cur = 0 /\ sched = <<>> /\ npre = 0
SStep(g) == /\ Enabled(st, g) /\ st' = StepG(st, g)
            /\ IF IsControl(st, g)
                 THEN /\ Parked(st, cur)
                      /\ cur' = g /\ sched' = Append(sched, g)
                      /\ npre' = npre + (IF cur = 0 \/ cur = g THEN 0 ELSE IF Runnable(st, cur) THEN 1 ELSE 0)
                      /\ npre' <= MaxPre
                 ELSE g = cur /\ UNCHANGED <<cur, sched, npre>>
SNext == (\E g \in G : SStep(g)) \/ (AllDone /\ UNCHANGED svars)
SSpec == SInit /\ [][SNext]_svars
ProgId == CHOOSE i \in 1..Len(ProgList) : ProgList[i] = st.prog
Export == AllDone => PrintT(<<"SCHED", ToJson([prog |-> ProgId, sched |-> sched, npre |-> npre, reply |-> st.reply])>>)
=============================================================================

------------------------------- MODULE Select -------------------------------
(* C13: whatever the tool lists can be used to select.  A selector entry point (library name    *)
(* lists, source-list parser, LintSource parser, JSON codec, Filter by source, the CLI flags,   *)
(* profiles) receives a token; the registry lists names and sources; the source constants       *)
(* define what "a source" is.                                                                    *)
EXTENDS Integers, Sequences, FiniteSets, TLC
CONSTANTS ListedNames, OtherNames, ListedSources, DefinedSources, OtherSources, Entries
ASSUME ListedSources \subseteq DefinedSources
VARIABLES tok, entry, kind, accepted
vars == <<tok, entry, kind, accepted>>
\* the reference selector: a name is accepted iff listed; a source iff it is a defined, known source.
\* "Unknown" is a defined constant that stands for "no source": never accepted.
AcceptName(t)   == t \in ListedNames
AcceptSource(t) == t \in DefinedSources \ {"Unknown"}
Init == /\ kind \in {"name", "source"} /\ entry \in Entries
        /\ tok \in (IF kind = "name" THEN ListedNames \cup OtherNames ELSE DefinedSources \cup OtherSources)
        /\ accepted = (IF kind = "name" THEN AcceptName(tok) ELSE AcceptSource(tok))
Next == UNCHANGED vars
Spec == Init /\ [][Next]_vars
\* the property
ListedIsAccepted   == (kind = "name" /\ tok \in ListedNames) \/ (kind = "source" /\ tok \in ListedSources) => accepted
UnknownIsRejected  == (kind = "name" /\ tok \notin ListedNames) \/ (kind = "source" /\ tok \notin DefinedSources) => ~accepted
\* judging one recorded selector use
SelReasons(e) ==
   (IF e.listed /\ ~e.accepted THEN {"listed-but-rejected"} ELSE {}) \cup
   (IF ~e.listed /\ ~e.defined /\ e.accepted THEN {"unknown-but-accepted"} ELSE {}) \cup
   (IF e.listed /\ e.accepted /\ ~e.faithful THEN {"accepted-as-something-else"} ELSE {})
=============================================================================

------------------------------ MODULE Severity ------------------------------
(* C06: the severity a lint may report is fixed by the prefix of its name.                     *)
EXTENDS Base
Prefixes == {"e", "w", "n"}
ProperPrefix(p) == p \in Prefixes
\* what a lint named with prefix p may report
Allowed(p) == Status \ (Forbidden(p) \cup {Reserved})
\* sanity of the contract itself (checked by TLC in MC_Severity)
ContractSane ==
   /\ \A p \in Prefixes : {NA, NE, Pass, Fatal} \subseteq Allowed(p)          \* open to all lints
   /\ Allowed("e") \cap Finding = {Error} /\ Allowed("w") \cap Finding = {Warn} /\ Allowed("n") \cap Finding = {Notice}
   /\ \A s \in Finding : Cardinality({p \in Prefixes : s \in Allowed(p)}) = 1
   /\ Forbidden("x") = Status
\* one lint: statically emittable statuses (precise / approximate) and dynamically observed ones
LintReasons(e) ==
   (IF ProperPrefix(e.prefix) THEN {} ELSE {<<"prefix", -1>>}) \cup
   {<<"emits", s>> : s \in ToSet(e.direct) \cap Forbidden(e.prefix)} \cup
   {<<"observed", s>> : s \in ToSet(e.observed) \cap Forbidden(e.prefix)} \cup
   {<<"fid-undecided", s>> : s \in ((ToSet(e.approx) \cup ToSet(e.shared)) \cap Forbidden(e.prefix)) \ (ToSet(e.direct) \cup ToSet(e.observed))} \cup
   {<<"fid-extractor-missed", s>> : s \in ToSet(e.observed) \ (ToSet(e.direct) \cup ToSet(e.approx) \cup ToSet(e.shared) \cup {NA, NE, Fatal})}
=============================================================================

------------------------------- MODULE Summary -------------------------------
(* The summary tables of the command-line tool (v3/formattedoutput): for one result set, one     *)
(* row per level above pass - info, warn, error, fatal, in this order - with the number of        *)
(* results of that level; the long form lists, per level, one line per counted result (or one    *)
(* placeholder line when the count is zero).  C15: "the counts in its summary tables equal the    *)
(* counts of those results".                                                                      *)
EXTENDS Integers, Sequences, FiniteSets
Levels == <<4, 5, 6, 7>>                          \* Go's LintStatus ordinals of info, warn, error, fatal
LevelNames == <<"info", "warn", "error", "fatal">>
Count(sts, s) == Cardinality({j \in 1..Len(sts) : sts[j] = s})
\* the table the tool must print for a result set whose statuses are sts
Rows(sts) == [k \in 1..4 |-> [level |-> LevelNames[k], count |-> Count(sts, Levels[k])]]
\* a printed table: [long, levels : Seq(STRING), counts : Seq(Nat), nlines : Seq(Nat), namesOK : BOOLEAN]
\*   nlines[k] = detail lines under row k (long form; the placeholder " - " is not counted)
\*   namesOK   = every detail line names (possibly cut to the column width) a lint that has that level  (a fact about strings,
\*               computed by the harness)
TableReasons(tb, sts) ==
   LET want == Rows(sts) IN
   (IF tb.levels = LevelNames THEN {} ELSE {"summary-rows-are-not-the-four-levels-in-order"}) \cup
   (IF tb.levels = LevelNames /\ \E k \in 1..4 : tb.counts[k] # want[k].count THEN {"summary-count-differs-from-the-results"} ELSE {}) \cup
   (IF tb.long /\ tb.levels = LevelNames /\ \E k \in 1..4 : tb.nlines[k] # want[k].count THEN {"long-summary-lines-differ-from-the-count"} ELSE {}) \cup
   (IF tb.long /\ ~tb.namesOK THEN {"long-summary-names-a-lint-without-that-level"} ELSE {})
\* design properties (MC_Summary)
CountsPartition(sts) == Count(sts, 4) + Count(sts, 5) + Count(sts, 6) + Count(sts, 7) + Count(sts, 1) + Count(sts, 2) + Count(sts, 3) = Len(sts)
=============================================================================

--------------------------------- MODULE TLD ---------------------------------
(* C18: TLD validity follows the delegation table.  The table is a header event of the trace   *)
(* (read from the AST of util/gtld_map.go on every run); dates are <<y, m, d>>, <<>> = empty,   *)
(* <<0>> = present but not of the form yyyy-mm-dd.                                              *)
EXTENDS Intervals
Leap(y) == (y % 4 = 0 /\ y % 100 # 0) \/ y % 400 = 0
DaysIn(y, m) == CASE m \in {1, 3, 5, 7, 8, 10, 12} -> 31 [] m \in {4, 6, 9, 11} -> 30 [] m = 2 -> (IF Leap(y) THEN 29 ELSE 28) [] OTHER -> 0
CalendarValid(d) == Len(d) = 3 /\ d[1] \in 1..9999 /\ d[2] \in 1..12 /\ d[3] \in 1..DaysIn(d[1], d[2])
\* days from 0001-01-01 (day 0) to the civil date
DaysBeforeYear(y) == LET p == y - 1 IN 365 * p + p \div 4 - p \div 100 + p \div 400
RECURSIVE DaysBeforeMonth(_, _)
DaysBeforeMonth(y, m) == IF m = 1 THEN 0 ELSE DaysBeforeMonth(y, m - 1) + DaysIn(y, m - 1)
DayNumber(d) == DaysBeforeYear(d[1]) + DaysBeforeMonth(d[1], d[2]) + d[3] - 1
Midnight(d) == <<DayNumber(d), 0>>
\* entry = [key, keyLower, gtld, deleg, removal]
EntryWellFormed(x) == /\ x.key = x.keyLower /\ x.key = x.gtld /\ x.key # ""
                      /\ CalendarValid(x.deleg)
                      /\ (x.removal = <<>> \/ (CalendarValid(x.removal) /\ Le(Midnight(x.deleg), Midnight(x.removal))))
\* valid at instant t: not before the delegation date and, when a removal date is recorded, not after it
ValidAt(x, t) == ValidBetween(Midnight(x.deleg), x.removal # <<>>, IF x.removal = <<>> THEN Zero ELSE Midnight(x.removal), t)
\* a name built from components: the right-most label is the table key (any case) unless a trailing dot makes it empty
NameValid(known, x, dot, t) == known /\ ~dot /\ ValidAt(x, t)
\* the TLD lint on a subscriber certificate: error iff its non-IP common name or one of its DNS names fails the test at notBefore
LintVerdict(applies, inWindow, anyNameInvalid) ==
    IF ~applies THEN NA ELSE IF ~inWindow THEN NE ELSE IF anyNameInvalid THEN Error ELSE Pass
=============================================================================

------------------------------ MODULE Trace_CLI ------------------------------
(* Each recorded invocation of the real binary is judged with the operators of CLI.tla.       *)
EXTENDS Json, TLC, Integers, Sequences, FiniteSets
SM == INSTANCE Summary
C == INSTANCE CLI WITH Scenarios <- {}, scn <- [fmt |-> "pem"], pc <- "setup", i <- 1, printed <- 0, exit <- -1
Trace == ndJsonDeserialize("trace.ndjson")
VARIABLES l, nrej
Reasons(e) ==
  LET s == e.scn
      want == IF C!SetupOK(s) THEN C!LeadingOK(s) ELSE 0
      allOK == C!SetupOK(s) /\ want = Len(s.inputs)
      \* the .pem/.der suffix override is behaviour the property does not promise: a judgement is fidelity only when the input
      \* it hinges on (the first input that was not printed / the first bad input that was) is itself read under an
      \* overriding suffix.  An input without such a suffix must be treated by -format alone, whatever the other inputs are called.
      Over(it) == s.chan = "file" /\ it.suffix # "none" /\ it.suffix # s.fmt
      hMiss == IF e.printedObs < Len(s.inputs) THEN Over(s.inputs[e.printedObs + 1]) ELSE FALSE
      hBad == IF C!SetupOK(s) /\ want < Len(s.inputs) THEN Over(s.inputs[want + 1]) ELSE FALSE
      G(dep, x) == IF dep THEN "fid-suffix-" \o x ELSE x IN
   (IF allOK /\ e.exitObs # 0 THEN {G(hMiss, "valid-input-rejected")} ELSE {}) \cup
   (IF ~allOK /\ e.exitObs = 0 THEN {G(hBad, "exit-zero-on-failure")} ELSE {}) \cup
   (IF e.printedObs > want THEN {G(hBad, "result-printed-for-failing-input")} ELSE {}) \cup
   (IF e.printedObs < want THEN {G(hMiss, "result-missing")} ELSE {}) \cup
   (IF e.printedObs > 0 /\ ~e.match THEN {"output-differs-from-library"} ELSE {}) \cup
   (IF e.junk THEN {"fid-unparsable-stdout"} ELSE {}) \cup
   \* every summary table against the results the library computed for that input (Summary.tla)
   UNION {SM!TableReasons(e.tables[k], e.libSts[e.tables[k].input]) : k \in 1..Len(e.tables)}
\* a PEM input of several blocks whose first block is a parseable certificate: that certificate's results are reported first
BundleReasons(e) ==
   (IF e.exitObs # 0 \/ e.printedObs = 0 THEN {"fid-bundle-not-reported"} ELSE {}) \cup
   (IF e.printedObs > 0 /\ ~e.firstMatches THEN {"bundle-first-report-is-not-the-first-certificate"} ELSE {}) \cup
   (IF e.printedObs > 1 THEN {"fid-bundle-further-reports"} ELSE {}) \cup
   UNION {SM!TableReasons(e.tables[k], e.libSts[e.tables[k].input]) : k \in 1..Len(e.tables)}
TraceInit == l = 1 /\ nrej = 0
Step == /\ l <= Len(Trace)
        /\ LET r == IF Trace[l].ev = "CLI" THEN Reasons(Trace[l]) ELSE IF Trace[l].ev = "CLIBundle" THEN BundleReasons(Trace[l]) ELSE {} IN
             IF r = {} THEN nrej' = nrej ELSE PrintT(<<"REJECT", l, r>>) /\ nrej' = nrej + 1
        /\ l' = l + 1
Done == l = Len(Trace) + 1 /\ PrintT(<<"DONE", Len(Trace), nrej>>) /\ l' = l + 1 /\ UNCHANGED nrej
TraceSpec == TraceInit /\ [][Step \/ Done]_<<l, nrej>>
=============================================================================

------------------------------ MODULE Trace_CLI ------------------------------
(* Each recorded invocation of the real binary is judged with the operators of CLI.tla.       *)
EXTENDS Json, TLC, Integers, Sequences, FiniteSets
C == INSTANCE CLI WITH Scenarios <- {}, scn <- [fmt |-> "pem"], pc <- "setup", i <- 1, printed <- 0, exit <- -1
Trace == ndJsonDeserialize("trace.ndjson")
VARIABLES l, nrej
Reasons(e) ==
  LET s == e.scn
      want == IF C!SetupOK(s) THEN C!LeadingOK(s) ELSE 0
      allOK == C!SetupOK(s) /\ want = Len(s.inputs)
      \* the .pem/.der suffix override is behaviour the property does not promise: scenarios whose outcome hinges on it are fidelity only
      dep == \E j \in 1..Len(s.inputs) : s.chan = "file" /\ s.inputs[j].suffix # "none" /\ s.inputs[j].suffix # s.fmt
      G(x) == IF dep THEN "fid-suffix-" \o x ELSE x IN
   (IF allOK /\ e.exitObs # 0 THEN {G("valid-input-rejected")} ELSE {}) \cup
   (IF ~allOK /\ e.exitObs = 0 THEN {G("exit-zero-on-failure")} ELSE {}) \cup
   (IF e.printedObs > want THEN {G("result-printed-for-failing-input")} ELSE {}) \cup
   (IF e.printedObs < want THEN {G("result-missing")} ELSE {}) \cup
   (IF e.printedObs > 0 /\ ~e.match THEN {G("output-differs-from-library")} ELSE {}) \cup
   (IF e.junk THEN {"fid-unparsable-stdout"} ELSE {})
TraceInit == l = 1 /\ nrej = 0
Step == /\ l <= Len(Trace)
        /\ LET r == IF Trace[l].ev = "CLI" THEN Reasons(Trace[l]) ELSE {} IN
             IF r = {} THEN nrej' = nrej ELSE PrintT(<<"REJECT", l, r>>) /\ nrej' = nrej + 1
        /\ l' = l + 1
Done == l = Len(Trace) + 1 /\ PrintT(<<"DONE", Len(Trace), nrej>>) /\ l' = l + 1 /\ UNCHANGED nrej
TraceSpec == TraceInit /\ [][Step \/ Done]_<<l, nrej>>
=============================================================================

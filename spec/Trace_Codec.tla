----------------------------- MODULE Trace_Codec -----------------------------
EXTENDS Codec, Json
Trace == ndJsonDeserialize("trace.ndjson")
VARIABLES l, nrej
Reasons(e) == CASE e.ev = "Label" -> LabelReasons(e) [] e.ev = "Decode" -> DecodeReasons(e)
                [] e.ev = "RoundTrip" -> RoundTripReasons(e) [] e.ev = "Listing" -> ListingReasons(e)
                [] e.ev = "CliOut" -> CliOutReasons(e) [] OTHER -> {}
TraceInit == l = 1 /\ nrej = 0
Step == /\ l <= Len(Trace)
        /\ LET r == Reasons(Trace[l]) IN IF r = {} THEN nrej' = nrej ELSE PrintT(<<"REJECT", l, r>>) /\ nrej' = nrej + 1
        /\ l' = l + 1
Done == l = Len(Trace) + 1 /\ PrintT(<<"DONE", Len(Trace), nrej>>) /\ l' = l + 1 /\ UNCHANGED nrej
TraceSpec == TraceInit /\ [][Step \/ Done]_<<l, nrej>>
=============================================================================

-------------------------- MODULE Trace_Concurrent --------------------------
(* Validates recorded concurrent executions (gated replays of TLC-exported schedules, and        *)
(* free-running goroutines under the race detector) against Concurrent.tla.  The registry        *)
(* universe is the real one (header: names as ranks in sorted order, kinds, sources, per-kind     *)
(* registration order, the filter catalogue).  Every event of goroutine g advances the model's    *)
(* goroutine g with Concurrent!StepG until it stands where the event says:                        *)
(*   Start  the operation's first step (enabled only if its registry has been handed out),        *)
(*   Yield  the gate (run.lint / filter.register of that lint) at which the goroutine was parked, *)
(*   End    the end of the operation; the recorded reply must be the model's reply, and a Lint    *)
(*          reply must equal the same call made alone (Alone events, memo).                       *)
(* Panic, Hang, Race, Stuck, Starved have no step in the model: always rejected.                  *)
EXTENDS Integers, Sequences, FiniteSets, TLC, Json
Trace == ndJsonDeserialize("trace.ndjson")
Hdr == Trace[1]
N == Len(Hdr.names)
MaxG == 32
MaxSlots == 100
ToSet(s) == {s[i] : i \in 1..Len(s)}
LintRec(r) == [name |-> r, kind |-> Hdr.kind[r], source |-> Hdr.src[r]]
SXT == INSTANCE SequencesExt
TGlobal == [k \in {"cert", "crl", "ocsp"} |->
              [lints |-> Hdr.order[k], names |-> SXT!SetToSortSeq(ToSet(Hdr.order[k]), LAMBDA a, b : a < b), has |-> ToSet(Hdr.order[k])]]
FSets == [f \in 1..Len(Hdr.filters) |-> [xs |-> ToSet(Hdr.filters[f].xs), is |-> ToSet(Hdr.filters[f].is), nf |-> Hdr.filters[f].nf,
                                          m |-> ToSet(Hdr.filters[f].nfMatch), xx |-> ToSet(Hdr.filters[f].xx), ix |-> ToSet(Hdr.filters[f].ix)]]
\* the documented selection of Filter (RegistryOps!Keeps) applied to the catalogue entry f
VARIABLES l, nrej, cst, memo
TSelects(f, x) == LET F == FSets[f] IN
   /\ x.source \notin F.xs
   /\ (F.is = {} \/ x.source \in F.is)
   /\ (~F.nf \/ x.name \in F.m)
   /\ x.name \notin F.xx
   /\ (F.ix = {} \/ x.name \in F.ix)
TVerdict(o, n) == 0
C == INSTANCE Concurrent WITH G <- 1..MaxG, Progs <- {}, RecOf <- LintRec, GlobalReg <- TGlobal, NSlots <- MaxSlots,
                              Selects <- TSelects, VerdictOf <- TVerdict, Flaw <- "none", st <- cst
Pad(progs) == [g \in 1..MaxG |-> IF g <= Len(progs) THEN progs[g] ELSE <<>>]
Fail == [fail |-> TRUE]
IsFail(s) == "fail" \in DOMAIN s
\* where an event says goroutine g stands
Reached(s, g, t) == CASE t.k = "end"  -> s.pc[g].i = t.i + 1
                      [] t.k = "gate" -> /\ s.pc[g].i = t.i /\ s.pc[g].at = t.at /\ s.pc[g].j <= Len(s.pc[g].todo)
                                         /\ s.pc[g].todo[s.pc[g].j] = t.rank
\* advance goroutine g step by step until it stands at t (iteratively: SequencesExt!FoldLeft is evaluated by a Java loop);
\* Fail if the operation ends, blocks, or the fuel runs out first
AdvStep(s, g, t) == IF IsFail(s) THEN s ELSE IF Reached(s, g, t) THEN s
                    ELSE IF s.pc[g].i # t.i \/ ~C!Enabled(s, g) THEN Fail ELSE C!StepG(s, g)
Adv(s, g, t, fuel) == LET r == SXT!FoldLeft(LAMBDA acc, x : AdvStep(acc, g, t), s, [x \in 1..fuel |-> x]) IN
                      IF IsFail(r) THEN r ELSE IF Reached(r, g, t) THEN r ELSE Fail
FuelOf(s, e) == IF s.prog[e.g][e.i].op = "Filter" THEN 8 * N + 60 ELSE 2 * N + 40
Target(e) == IF e.ev = "End" THEN [k |-> "end", i |-> e.i]
             ELSE [k |-> "gate", i |-> e.i, at |-> IF e.point = "run.lint" THEN "Lloop" ELSE "Freg", rank |-> e.rank]
StartOK(e) == cst.pc[e.g].i = e.i /\ cst.pc[e.g].at = "start" /\ e.i <= Len(cst.prog[e.g]) /\ C!Enabled(cst, e.g)
After(e) == CASE e.ev = "Start" -> IF StartOK(e) THEN C!StepG(cst, e.g) ELSE Fail
              [] e.ev \in {"Yield", "End"} -> IF e.i <= Len(cst.prog[e.g]) THEN Adv(cst, e.g, Target(e), FuelOf(cst, e)) ELSE Fail
              [] OTHER -> cst
\* ---- the reply of a finished operation against the model's reply (s = state after the End)
NamesOfAcc(rep) == [j \in 1..Len(rep) |-> rep[j][1]]
LintReasons(e, c, rep) ==
   (IF ToSet(e.names) = ToSet(NamesOfAcc(rep)) /\ Len(e.names) = Len(rep) THEN {} ELSE {<<"results-are-not-the-lints-of-the-registry", 0, 0>>}) \cup
   {<<"differs-from-the-same-call-made-alone", e.names[j], e.st[j]>> :
        j \in {x \in 1..Len(e.names) : <<c.o, e.rkey, e.names[x]>> \in DOMAIN memo /\ memo[<<c.o, e.rkey, e.names[x]>>] # <<e.st[x], e.dg[x]>>}} \cup
   (IF e.jsonBad = "" THEN {} ELSE {<<"encoded-result-differs-from-the-result", 0, 0>>}) \cup
   {<<"no-baseline", e.names[j], 0>> : j \in {x \in 1..Len(e.names) : <<c.o, e.rkey, e.names[x]>> \notin DOMAIN memo}} \cup
   (IF e.gated /\ e.ran # NamesOfAcc(rep) THEN {<<"fid-lints-not-run-in-registration-order", 0, 0>>} ELSE {}) \cup
   (IF e.gated /\ ~(ToSet(e.cons) \subseteq ToSet(e.ran)) THEN {<<"fid-constructed-but-not-run", 0, 0>>} ELSE {})
EndReasons(e, s) ==
   LET c == s.prog[e.g][e.i]  rep == s.reply[e.g][e.i] IN
   CASE c.op = "Lint"   -> LintReasons(e, c, rep)
     [] c.op = "Names"  -> IF e.seq = rep THEN {} ELSE {<<"reply-differs-from-the-sequential-reply", 0, 0>>}
     [] c.op = "Read"   -> IF (IF c.what = "Sources" THEN ToSet(e.set) = rep ELSE e.seq = rep) THEN {} ELSE {<<"reply-differs-from-the-sequential-reply", 0, 0>>}
     [] c.op = "Filter" -> (IF e.err = "" /\ e.seq = rep /\ \A k \in {"cert", "crl", "ocsp"} : e.kinds[k] = s.regs[c.into][k].lints
                              THEN {} ELSE {<<"filtered-registry-differs-from-the-sequential-one", 0, 0>>}) \cup
                           (IF e.gated /\ e.regd # rep THEN {<<"fid-registration-order", 0, 0>>} ELSE {})
Reasons(e, s) ==
   CASE e.ev \in {"Panic", "Hang", "Race", "Stuck", "Starved"} -> {<<e.ev, 0, 0>>}
     [] e.ev \in {"Start", "Yield", "End"} /\ IsFail(s) ->
           {<<IF e.ev = "Start" THEN "operation-started-on-a-registry-not-handed-out" ELSE IF e.ev = "Yield" THEN "gate-not-prescribed-by-the-model" ELSE "operation-end-not-reachable", 0, 0>>}
     [] e.ev = "End" -> EndReasons(e, s)
     \* a repetition of operation i of goroutine g (hot loops) whose reply differed from the first one: judged like the first
     [] e.ev = "Rep" -> IF e.i < cst.pc[e.g].i /\ e.i <= Len(cst.prog[e.g]) THEN EndReasons(e, cst) ELSE {<<"operation-end-not-reachable", 0, 0>>}
     [] OTHER -> {}
TraceInit == l = 2 /\ nrej = 0 /\ cst = C!InitState(Pad(<<>>)) /\ memo = <<>>
Step == /\ l <= Len(Trace)
        /\ LET e == Trace[l]  s == IF e.ev \in {"Start", "Yield", "End"} THEN After(e) ELSE cst  r == Reasons(e, s) IN
             /\ IF r = {} THEN nrej' = nrej ELSE PrintT(<<"REJECT", l, r>>) /\ nrej' = nrej + 1
             /\ CASE e.ev = "Begin" -> cst' = C!InitState(Pad(e.progs)) /\ memo' = <<>>
                  [] e.ev = "Alone" -> /\ memo' = [k \in DOMAIN memo \cup {<<e.o, e.rkey, e.names[j]>> : j \in 1..Len(e.names)} |->
                                                     IF k \in DOMAIN memo THEN memo[k]
                                                     ELSE LET j == CHOOSE x \in 1..Len(e.names) : e.names[x] = k[3] IN <<e.st[j], e.dg[j]>>]
                                       /\ cst' = cst
                  [] OTHER -> cst' = (IF IsFail(s) THEN cst ELSE s) /\ memo' = memo
        /\ l' = l + 1
Done == l = Len(Trace) + 1 /\ PrintT(<<"DONE", Len(Trace), nrej>>) /\ l' = l + 1 /\ UNCHANGED <<nrej, cst, memo>>
TraceSpec == TraceInit /\ [][Step \/ Done]_<<l, nrej, cst, memo>>
=============================================================================

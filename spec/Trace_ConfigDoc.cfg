SPECIFICATION TraceSpec
CHECK_DEADLOCK FALSE

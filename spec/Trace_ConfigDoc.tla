-------------------------- MODULE Trace_ConfigDoc --------------------------
(* Validates recorded configuration runs (harness/cmd/drive/cfgdoc.go) against ConfigDoc!Resolve:  *)
(* every observation of a mock lint - what its freshly configured instance held, or the fatal      *)
(* result it got - must be what the document says to that lint and to nobody else (C11).           *)
(* The shapes are those of ConfigShapes.   Rejections prefixed fid- are fidelity only.               *)
EXTENDS ConfigShapes, Json
Trace == ndJsonDeserialize("trace.ndjson")
VARIABLES l, nrej, memo
Fatal == 7  Pass == 3
ToSet(s) == {s[i] : i \in 1..Len(s)}
\* the document of an event: as logged, the empty one, or the example the model predicts
DocOf(e) == CASE e.docIs = "given" -> e.doc [] e.docIs = "example" -> ExampleDoc(Shapes, ExampleGlobals) [] OTHER -> <<>>
ObsReasons(D, o) ==
   LET sh == Shapes[o.lint]  r == Resolve(sh, D, o.lint) IN
   IF o.escaped THEN {<<o.lint, "panic-escaped">>}
   ELSE IF ~r.ok THEN
      (IF o.st = Fatal /\ o.cls = "cfgmsg" THEN {} ELSE {<<o.lint, "unapplicable-section-not-a-configuration-error">>})
   ELSE
      (IF o.st = Fatal THEN {<<o.lint, "configuration-error-for-a-lint-whose-sections-are-fine">>} ELSE {}) \cup
      (IF o.st = Pass /\ \E k \in sh.opts : k \in DOMAIN o.vals /\ r.vals[k] = "new" /\ o.vals[k] # "new" THEN {<<o.lint, "option-not-applied">>} ELSE {}) \cup
      (IF o.st = Pass /\ \E k \in sh.opts : k \in DOMAIN o.vals /\ r.vals[k] = "def" /\ o.vals[k] # "def" THEN {<<o.lint, "option-changed-without-being-set">>} ELSE {}) \cup
      (IF o.st = Pass /\ DOMAIN o.vals # sh.opts THEN {<<o.lint, "fid-report-shape">>} ELSE {}) \cup
      (IF o.st = Pass /\ ToSet(o.ptrs) # r.ptrs THEN {<<o.lint, "fid-pointer-resolution">>} ELSE {}) \cup
      (IF o.st \notin {Pass, Fatal} THEN {<<o.lint, "fid-unexpected-status">>} ELSE {})
\* C11 read directly: documents that say the same to a lint (same own section, same sections of the higher-scoped
\* configurations it references) must make it behave identically - whatever else they contain, and whether or not they contain
\* anything at all.  memo: <<lint, what the document says to it>> -> first observation.
SaysTo(D, ln) == [key \in Reads(Shapes[ln], ln) |-> Get(D, key)]
Seen(o) == <<o.st, o.cls, o.vals, ToSet(o.ptrs), o.escaped>>
MemoReasons(D, o) == LET k == <<o.lint, SaysTo(D, o.lint)>> IN
   IF k \in DOMAIN memo /\ memo[k] # Seen(o) THEN {<<o.lint, "behaviour-differs-between-configurations-that-say-the-same-to-the-lint">>} ELSE {}
RunReasons(e) == UNION {ObsReasons(DocOf(e), e.obs[i]) \cup MemoReasons(DocOf(e), e.obs[i]) : i \in 1..Len(e.obs)} \cup
                 (IF {e.obs[i].lint : i \in 1..Len(e.obs)} = DOMAIN Shapes THEN {} ELSE {<<"", "fid-mock-missing">>})
ExampleReasons(e) ==
   LET M == ExampleDoc(Shapes, ExampleGlobals) IN
   (IF e.rendered /\ e.valid THEN {} ELSE {<<"", "example-configuration-not-toml">>}) \cup
   {<<n, "example-configuration-lacks-section">> : n \in {x \in ToSet(e.configurable) : x \notin DOMAIN e.tables}} \cup
   \* structure of the mock sections: the option keys, references to higher-scoped configurations stripped
   {<<n, "fid-example-section-keys">> : n \in {x \in DOMAIN Shapes : x \in DOMAIN e.tables /\ ToSet(e.tables[x]) # Shapes[x].opts}} \cup
   {<<n, "fid-example-global-sections">> : n \in {x \in ExampleGlobals : x \notin DOMAIN e.tables}} \cup
   (IF e.nontables = <<>> THEN {} ELSE {<<"", "fid-example-top-level-values">>})
\* an option set in the lint's own section reaches the instance that is about to run (C11: "setting a lint's option changes that
\* lint's behaviour from the next run on" - it cannot if the value never arrives)
ReachReasons(e) == IF e.configured /\ ~e.reached THEN {<<e.lint, "option-does-not-reach-the-lint-instance">>}
                   ELSE IF ~e.configured THEN {<<e.lint, "well-typed-option-refused">>} ELSE {}
Reasons(e) == CASE e.ev = "Run" -> RunReasons(e) [] e.ev = "Example" -> ExampleReasons(e) [] e.ev = "Reach" -> ReachReasons(e)
                [] e.ev = "Unloadable" -> {<<"", "fid-document-not-loadable">>} [] OTHER -> {}
TraceInit == l = 1 /\ nrej = 0 /\ memo = <<>>
Step == /\ l <= Len(Trace)
        /\ LET r == Reasons(Trace[l]) IN IF r = {} THEN nrej' = nrej ELSE PrintT(<<"REJECT", l, r>>) /\ nrej' = nrej + 1
        /\ LET e == Trace[l] IN
             IF e.ev = "Run" THEN
                LET D == DocOf(e)
                    ks == {<<e.obs[i].lint, SaysTo(D, e.obs[i].lint)>> : i \in 1..Len(e.obs)} IN
                memo' = [k \in DOMAIN memo \cup ks |-> IF k \in DOMAIN memo THEN memo[k]
                                                       ELSE Seen(e.obs[CHOOSE i \in 1..Len(e.obs) : e.obs[i].lint = k[1]])]
             ELSE memo' = memo
        /\ l' = l + 1
Done == l = Len(Trace) + 1 /\ PrintT(<<"DONE", Len(Trace), nrej>>) /\ l' = l + 1 /\ UNCHANGED <<nrej, memo>>
TraceSpec == TraceInit /\ [][Step \/ Done]_<<l, nrej, memo>>
=============================================================================

------------------------------ MODULE Trace_Env ------------------------------
EXTENDS Env, Json, TLC
Trace == ndJsonDeserialize("trace.ndjson")
VARIABLES l, nrej
Reasons(e) == CASE e.ev = "Sys" -> IF SyscallOK(e) THEN {} ELSE {"syscall-while-linting"}
                [] e.ev = "Call" -> IF (e.lint = "" /\ FrameworkCallOK(e.callee)) \/ (e.lint # "" /\ CallOK(e.lint, e.callee)) THEN {} ELSE {"forbidden-call-reachable"}
                [] OTHER -> {}
TraceInit == l = 1 /\ nrej = 0
Step == /\ l <= Len(Trace)
        /\ LET r == Reasons(Trace[l]) IN IF r = {} THEN nrej' = nrej ELSE PrintT(<<"REJECT", l, r>>) /\ nrej' = nrej + 1
        /\ l' = l + 1
Done == l = Len(Trace) + 1 /\ PrintT(<<"DONE", Len(Trace), nrej>>) /\ l' = l + 1 /\ UNCHANGED nrej
TraceSpec == TraceInit /\ [][Step \/ Done]_<<l, nrej>>
=============================================================================

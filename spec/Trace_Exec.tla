----------------------------- MODULE Trace_Exec -----------------------------
(* Validates recorded single-lint executions (event Exec: one object, a vector of lints run    *)
(* under the real framework with spied bodies) against Base!Outcome / Base!Calls - the         *)
(* reference semantics that MC_Lifecycle shows to be what Lifecycle.tla computes.              *)
(* Reasons tagged "window" are C03, every other reason is C04; "fid-" reasons are fidelity.    *)
EXTENDS Base, Json, TLC
Trace == ndJsonDeserialize("trace.ndjson")
VARIABLES l, nrej

MetaOf(kind) == IF Trace[1].kind = kind THEN Trace[1] ELSE IF Trace[2].kind = kind THEN Trace[2] ELSE Trace[3]
BodyRec(b) == IF b = -1 THEN [k |-> "panic"] ELSE IF b = -3 THEN [k |-> "nil"] ELSE [k |-> "ret", st |-> b]
HasCall(c, x) == \E j \in 1..Len(c) : c[j] = x
Before(c, x, y) == \E j1 \in 1..Len(c) : c[j1] = x /\ \A j2 \in 1..Len(c) : c[j2] = y => j1 < j2

ReasonsAt(e, mt, k) ==
  LET i    == e.idx[k]
      m    == [source |-> mt.src[i], eff |-> mt.eff[i], ineff |-> mt.ineff[i]]
      f    == [ekus |-> ToSet(e.ekus), unk |-> e.unk, pols |-> ToSet(e.pols), email |-> e.email]
      appl == e.applies[k]
      want == OutcomeA(e.kind, m, f, e.cfg[k], appl, e.t, BodyRec(e.body[k]))
      due  == appl = 1 /\ BodyDue(e.kind, m, f, e.cfg[k], TRUE, e.t)
      obs  == e.obs[k]
      c    == e.called[k]
  IN
   \* C03: nothing judged outside the window; exact half-open boundary
   (IF obs \in Judged /\ ~InWindow(m.eff, m.ineff, e.t) THEN {"window-finding-outside"} ELSE {}) \cup
   (IF want.why = "window" /\ obs # NE THEN {"window-not-NE"} ELSE {}) \cup
   (IF want.why \in {"body", "panicked"} /\ obs = NE /\ (e.body[k] # NE) THEN {"window-NE-inside"} ELSE {}) \cup
   \* C04: NA out of scope / inapplicable, body not run; otherwise the body's verdict, unaltered
   (IF want.why # "window" /\ ~(want.why \in {"body","panicked"} /\ obs = NE /\ e.body[k] # NE) /\ obs # want.st
       THEN {"status"} ELSE {}) \cup
   (IF obs = want.st /\ want.why = "body" /\ e.obsDg[k] # e.bodyDg[k] THEN {"details"} ELSE {}) \cup
   (IF obs = want.st /\ want.why \in {"scope", "applies", "window"} /\ e.obsDg[k] # "" THEN {"details-added"} ELSE {}) \cup
   (IF obs = want.st /\ want.why = "config" /\ e.obsCls[k] # "cfgmsg" THEN {"config-message"} ELSE {}) \cup
   (IF HasCall(c, 4) # due THEN {"body-run-mismatch"} ELSE {}) \cup
   (IF HasCall(c, 4) /\ ~(e.inst[k] = 1 /\ Before(c, 1, 4) /\ (mt.cfgable[i] => Before(c, 2, 4))) THEN {"not-fresh-configured"} ELSE {}) \cup
   (IF Len(e.runSt) > 0 /\ (e.runSt[k] # obs \/ (obs = want.st /\ want.why = "body" /\ e.runDg[k] # e.obsDg[k])) THEN {"run-differs"} ELSE {}) \cup
   \* the deprecated lookup (Registry.ByName -> *lint.Lint -> Execute) is the same lint: same window, same verdict
   (IF e.depSt[k] # -9 /\ e.depSt[k] # obs /\ obs = want.st
       THEN {IF e.depSt[k] \in Judged /\ ~InWindow(m.eff, m.ineff, e.t) THEN "window-finding-outside-through-deprecated-lookup" ELSE "deprecated-lookup-differs"} ELSE {}) \cup
   \* fidelity (never gating): the exact call sequence of base.go
   (IF c # CallCodes(Calls(e.kind, m, mt.cfgable[i], f, e.cfg[k], appl = 1, e.t)) /\ appl # -1 THEN {"fid-call-sequence"} ELSE {})

Rejected(e) == LET mt == MetaOf(e.kind) IN
               {<<k, ReasonsAt(e, mt, k)>> : k \in {k2 \in 1..Len(e.idx) : ReasonsAt(e, mt, k2) # {}}}

TraceInit == l = 1 /\ nrej = 0
Step == /\ l <= Len(Trace)
        /\ IF Trace[l].ev # "Exec" THEN nrej' = nrej
           ELSE LET r == Rejected(Trace[l]) IN
                  IF r = {} THEN nrej' = nrej ELSE PrintT(<<"REJECT", l, r>>) /\ nrej' = nrej + 1
        /\ l' = l + 1
Done == l = Len(Trace) + 1 /\ PrintT(<<"DONE", Len(Trace), nrej>>) /\ l' = l + 1 /\ UNCHANGED nrej
TraceSpec == TraceInit /\ [][Step \/ Done]_<<l, nrej>>
=============================================================================

------------------------------ MODULE Trace_IP ------------------------------
EXTENDS IPReserved, Json
Trace == ndJsonDeserialize("trace.ndjson")
VARIABLES l, nrej
Reasons(e) == CASE e.ev = "Addr" -> AddrReasons(e) [] e.ev = "Chain" -> ChainReasons(e) [] e.ev = "NetAddr" -> NetAddrReasons(e)
                [] e.ev = "Lint" -> LintReasons(e) [] OTHER -> {}
TraceInit == l = 1 /\ nrej = 0
Step == /\ l <= Len(Trace)
        /\ LET r == Reasons(Trace[l]) IN IF r = {} THEN nrej' = nrej ELSE PrintT(<<"REJECT", l, r>>) /\ nrej' = nrej + 1
        /\ l' = l + 1
Done == l = Len(Trace) + 1 /\ PrintT(<<"DONE", Len(Trace), nrej>>) /\ l' = l + 1 /\ UNCHANGED nrej
TraceSpec == TraceInit /\ [][Step \/ Done]_<<l, nrej>>
=============================================================================

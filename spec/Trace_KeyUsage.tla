--------------------------- MODULE Trace_KeyUsage ---------------------------
(* Fidelity oracle of the KeyUsage rule family: every planted (key usage, purposes) judged by the  *)
(* real lint e_key_usage_and_extended_key_usage_inconsistent (12 repetitions; st = the set of       *)
(* statuses seen) against KeyUsage!Consistent.  More than one status = the verdict is not a         *)
(* function of the certificate (C05); a wrong single status is a drift of the rule (no listed       *)
(* property speaks about it: "fid-").                                                                *)
EXTENDS KeyUsage, TLC, Json
Trace == ndJsonDeserialize("trace.ndjson")
VARIABLES l, nrej
ToSet(s) == {s[i] : i \in 1..Len(s)}
Reasons(e) == IF e.ev # "KuEku" THEN {}
              ELSE IF ToSet(e.kuParsed) # ToSet(e.ku) \/ e.nEku # Len(e.ekus) THEN {"harness-planting-failed"}
              ELSE (IF Len(e.st) > 1 THEN {"status-varies-between-repetitions"} ELSE {}) \cup
                   (IF Len(e.st) = 1 /\ e.st[1] # (IF Consistent(ToSet(e.ku), e.ekus) THEN 3 ELSE 6) THEN {"fid-verdict-differs-from-the-rule"} ELSE {})
TraceInit == l = 1 /\ nrej = 0
Step == /\ l <= Len(Trace)
        /\ LET r == Reasons(Trace[l]) IN IF r = {} THEN nrej' = nrej ELSE PrintT(<<"REJECT", l, r>>) /\ nrej' = nrej + 1
        /\ l' = l + 1
Done == l = Len(Trace) + 1 /\ PrintT(<<"DONE", Len(Trace), nrej>>) /\ l' = l + 1 /\ UNCHANGED nrej
TraceSpec == TraceInit /\ [][Step \/ Done]_<<l, nrej>>
=============================================================================

---------------------------- MODULE Trace_NoPanic ----------------------------
(* C02 as a trace-level prohibition: the Lifecycle has a Recover step and an Escape step; a run  *)
(* of real lints on parseable input never takes either.  A fatal result is either a            *)
(* configuration error or a decision of the rule body itself (the direct body call returned      *)
(* that fatal without panicking).                                                                *)
EXTENDS Base, Json, TLC
Trace == ndJsonDeserialize("trace.ndjson")
VARIABLES l, nrej
Reasons(e) == {<<"recovered-panic", n>> : n \in ToSet(e.recovered)} \cup
              (IF e.escaped THEN {<<"panic-escaped", e.kind>>} ELSE {}) \cup
              (IF e.hung THEN {<<"hang", e.kind>>} ELSE {}) \cup
              {<<"fatal-not-decided-by-the-rule", n>> : n \in ToSet(e.fatalUnexplained)}
TraceInit == l = 1 /\ nrej = 0
Step == /\ l <= Len(Trace)
        /\ LET r == IF Trace[l].ev = "Mutant" THEN Reasons(Trace[l]) ELSE {} IN
             IF r = {} THEN nrej' = nrej ELSE PrintT(<<"REJECT", l, r>>) /\ nrej' = nrej + 1
        /\ l' = l + 1
Done == l = Len(Trace) + 1 /\ PrintT(<<"DONE", Len(Trace), nrej>>) /\ l' = l + 1 /\ UNCHANGED nrej
TraceSpec == TraceInit /\ [][Step \/ Done]_<<l, nrej>>
=============================================================================

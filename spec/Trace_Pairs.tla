----------------------------- MODULE Trace_Pairs -----------------------------
EXTENDS Pairs, Json
Trace == ndJsonDeserialize("trace.ndjson")
VARIABLES l, nrej
TraceInit == l = 1 /\ nrej = 0
Step == /\ l <= Len(Trace)
        /\ LET r == IF Trace[l].ev = "Pair" THEN PairReasons(Trace[l]) ELSE {} IN
             IF r = {} THEN nrej' = nrej ELSE PrintT(<<"REJECT", l, r>>) /\ nrej' = nrej + 1
        /\ l' = l + 1
Done == l = Len(Trace) + 1 /\ PrintT(<<"DONE", Len(Trace), nrej>>) /\ l' = l + 1 /\ UNCHANGED nrej
TraceSpec == TraceInit /\ [][Step \/ Done]_<<l, nrej>>
=============================================================================

----------------------------- MODULE Trace_Pairs -----------------------------
EXTENDS Pairs, Json
Trace == ndJsonDeserialize("trace.ndjson")
VARIABLES l, nrej
TraceInit == l = 1 /\ nrej = 0
Step == /\ l <= Len(Trace)
        /\ LET X == IF Trace[1].ev = "ExtraPairs" THEN Trace[1].pairs ELSE <<>>
               r == IF Trace[l].ev = "Pair" THEN PairReasons(Trace[l]) \cup ExtraReasons(Trace[l], X) ELSE {} IN
             IF r = {} THEN nrej' = nrej ELSE PrintT(<<"REJECT", l, r>>) /\ nrej' = nrej + 1
        /\ l' = l + 1
Done == l = Len(Trace) + 1 /\ PrintT(<<"DONE", Len(Trace), nrej>>) /\ l' = l + 1 /\ UNCHANGED nrej
TraceSpec == TraceInit /\ [][Step \/ Done]_<<l, nrej>>
=============================================================================

---------------------------- MODULE Trace_Process ----------------------------
(* Validates recorded process histories against the memo machine of Process.tla: within one     *)
(* segment (all observations of one object, across registries, configurations, repetitions,     *)
(* processes) the verdict <<status, details digest>> of a lint must be a function of            *)
(*      <<lint, what the configuration says to it>>.                                            *)
(* Event Lint carries full-width vectors over the lints of the object's kind (Meta header);     *)
(* -9 marks "no result for this lint in this run".                                               *)
EXTENDS Base, Json, TLC
Trace == ndJsonDeserialize("trace.ndjson")
VARIABLES l, nrej, memo, tags
MetaOf(kind) == IF Trace[1].kind = kind THEN Trace[1] ELSE IF Trace[2].kind = kind THEN Trace[2] ELSE Trace[3]
BadSections == {"ill", "scalar", "array"}
\* what the configuration says to lint i in this event
SecOf(e, i) == LET J == {j \in 1..Len(e.cfgIdx) : e.cfgIdx[j] = i} IN
               IF J = {} THEN "absent" ELSE LET s == e.cfgSec[CHOOSE j \in J : TRUE] IN IF s = "default" THEN "absent" ELSE s
ClsOf(e, i) == LET J == {j \in 1..Len(e.cfgIdx) : e.cfgIdx[j] = i} IN IF J = {} THEN "" ELSE e.cfgCls[CHOOSE j \in J : TRUE]
Present(e) == {i \in 1..Len(e.st) : e.st[i] # -9}
\* what is remembered of a verdict: status and details digest - but only the status under a section that cannot be applied (the
\* text of a configuration error names the offending key, and two ill-typed sections need not offend in the same key)
Obs(e, i) == <<e.st[i], IF SecOf(e, i) \in BadSections THEN 0 ELSE e.dg[i]>>
LintReasons(e) ==
  LET sel == ToSet(e.sel) IN
   {<<i, "result-for-unselected-lint", "">> : i \in Present(e) \ sel} \cup
   {<<i, "no-result-for-selected-lint", "">> : i \in sel \ Present(e)} \cup
   \* a section that cannot be applied: configuration-error fatal for that lint (NA when the object is outside the lint's scope: Base!Outcome)
   {<<i, "unapplicable-section-not-a-configuration-error", SecOf(e, i)>> :
        i \in {j \in Present(e) : SecOf(e, j) \in BadSections /\
                  ~(IF InScope(e.kind, MetaOf(e.kind).src[j], [ekus |-> ToSet(e.ekus), unk |-> e.unk, pols |-> ToSet(e.pols), email |-> e.email])
                      THEN e.st[j] = Fatal /\ ClsOf(e, j) = "cfgmsg" ELSE e.st[j] = NA)}} \cup
   {<<i, IF memo[<<i, SecOf(e, i)>>][1] # e.st[i] THEN "status-differs" ELSE "details-differ", tags[<<i, SecOf(e, i)>>]>> :
        i \in {j \in Present(e) : <<j, SecOf(e, j)>> \in DOMAIN memo /\ memo[<<j, SecOf(e, j)>>] # Obs(e, j)}} \cup
   \* a section that CAN be applied never makes the lint fail internally (the framework's report of a recovered panic)
   {<<i, "recovered-panic-under-an-applicable-section", SecOf(e, i)>> :
        i \in {j \in Present(e) : SecOf(e, j) \notin BadSections /\ e.st[j] = Fatal /\ ClsOf(e, j) = "panicmsg"}} \cup
   (IF e.escaped THEN {<<0, "panic-escaped", "">>} ELSE {}) \cup
   (IF ~e.escaped /\ ~(/\ e.flags[1] <=> \E i \in Present(e) : e.st[i] = Notice
                       /\ e.flags[2] <=> \E i \in Present(e) : e.st[i] = Warn
                       /\ e.flags[3] <=> \E i \in Present(e) : e.st[i] = Error
                       /\ e.flags[4] <=> \E i \in Present(e) : e.st[i] = Fatal) THEN {<<0, "flags", "">>} ELSE {})
Reasons(e) == CASE e.ev = "Lint" -> LintReasons(e)
                [] e.ev = "Snapshot" -> IF e.before = e.after THEN {} ELSE {<<0, "object-modified", e.what>>}
                [] e.ev = "DefaultCfg" -> (IF e.validToml THEN {} ELSE {<<0, "example-configuration-not-toml", "">>}) \cup
                                          {<<0, "example-configuration-lacks-section", n>> : n \in ToSet(e.configurable) \ ToSet(e.sections)}
                [] OTHER -> {}
TraceInit == l = 1 /\ nrej = 0 /\ memo = <<>> /\ tags = <<>>
Step == /\ l <= Len(Trace)
        /\ LET e == Trace[l] r == Reasons(Trace[l]) IN
            /\ IF r = {} THEN nrej' = nrej ELSE PrintT(<<"REJECT", l, r>>) /\ nrej' = nrej + 1
            /\ CASE e.ev = "Reset" -> memo' = <<>> /\ tags' = <<>>
                 [] e.ev = "Lint" ->
                      LET keys == {<<i, SecOf(e, i)>> : i \in Present(e)} IN
                        /\ memo' = [k \in DOMAIN memo \cup keys |-> IF k \in DOMAIN memo THEN memo[k] ELSE Obs(e, k[1])]
                        /\ tags' = [k \in DOMAIN tags \cup keys |-> IF k \in DOMAIN tags THEN tags[k] ELSE e.tag]
                 [] OTHER -> UNCHANGED <<memo, tags>>
        /\ l' = l + 1
Done == l = Len(Trace) + 1 /\ PrintT(<<"DONE", Len(Trace), nrej>>) /\ l' = l + 1 /\ UNCHANGED <<nrej, memo, tags>>
TraceSpec == TraceInit /\ [][Step \/ Done]_<<l, nrej, memo, tags>>
=============================================================================

------------------------------ MODULE Trace_RSA ------------------------------
EXTENDS RSAKey, Json, TLC
Trace == ndJsonDeserialize("trace.ndjson")
VARIABLES l, nrej
KeyReasons(e, k) ==
   {<<e.lints[j], e.st[j]>> : j \in {i \in 1..Len(e.lints) : e.lints[i] \in KeyLints /\ ~VerdictOK(e.lints[i], k, e.st[i])}} \cup
   \* siblings (e.rules[i] = the anchored rule whose name the lint's name ends in): the same predicate, at the lint's own level
   {<<e.lints[j], e.st[j]>> : j \in {i \in 1..Len(e.lints) : e.lints[i] \notin KeyLints /\ e.rules[i] \in KeyLints /\
                                        ~(e.st[i] \in Judged => e.st[i] = (IF Predicate(e.rules[i], k) THEN e.levels[i] ELSE Pass))}} \cup
   (IF e.factorsOK THEN {} ELSE {<<"reported-factors-do-not-multiply-back", 0>>})
Reasons(e) == CASE e.ev = "SmallKey" -> KeyReasons(e, SmallFacts(e.n, e.e, e.rounds))
                [] e.ev = "BigKey" -> KeyReasons(e, [bits |-> e.bits, even |-> e.even, small |-> e.small, e |-> e.e, fermat |-> e.fermat])
                [] OTHER -> {}
TraceInit == l = 1 /\ nrej = 0
Step == /\ l <= Len(Trace)
        /\ LET r == Reasons(Trace[l]) IN IF r = {} THEN nrej' = nrej ELSE PrintT(<<"REJECT", l, r>>) /\ nrej' = nrej + 1
        /\ l' = l + 1
Done == l = Len(Trace) + 1 /\ PrintT(<<"DONE", Len(Trace), nrej>>) /\ l' = l + 1 /\ UNCHANGED nrej
TraceSpec == TraceInit /\ [][Step \/ Done]_<<l, nrej>>
=============================================================================

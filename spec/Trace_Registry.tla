--------------------------- MODULE Trace_Registry ---------------------------
(* Validates (a) the registration history and runtime tables of the default build against the   *)
(* table model of Registry.tla (C12) and (b) recorded Filter calls on real registries against   *)
(* Registry!FilterResult (C08).  Names are ranks in the sorted list of all names (header Reg).   *)
EXTENDS RegistryOps, Json
Trace == ndJsonDeserialize("trace.ndjson")
VARIABLES l, nrej, reg
Hdr == Trace[1]
N == Len(Hdr.names)
KnownSources == {"RFC3279", "RFC5280", "RFC5480", "RFC5891", "RFC6960", "RFC6962", "RFC8813", "CABF_BR", "CABF_CS_BR",
                 "CABF_SMIME_BR", "CABF_EV", "Mozilla", "Apple", "Community", "ETSI_ESI"}
ToSet(s) == {s[i] : i \in 1..Len(s)}
Lt(a, b) == a[1] < b[1] \/ (a[1] = b[1] /\ a[2] < b[2])
NamesOfSeq(s) == [i \in 1..Len(s) |-> s[i].name]

\* ---- C12: one registration
RegisterReasons(e) ==
  LET x == [name |-> e.rank, kind |-> e.kind, source |-> e.src] IN
   (IF RegisterOutcome(reg, x) = "ok" THEN {} ELSE {"registered-twice-in-kind"}) \cup
   (IF \E k \in Kinds \ {e.kind} : e.rank \in DOMAIN reg[k].byName THEN {"name-in-two-kinds"} ELSE {}) \cup
   (IF e.prefix \in {"e", "w", "n"} THEN {} ELSE {"name-prefix"}) \cup
   (IF e.lower /\ ~e.blank /\ e.name # "" THEN {} ELSE {"name-form"}) \cup
   (IF e.hasDesc THEN {} ELSE {"no-description"}) \cup
   (IF e.src \in KnownSources THEN {} ELSE {"unknown-source"}) \cup
   (IF e.implNil THEN {"nil-implementation"} ELSE {}) \cup
   (IF e.eff # <<0, 0>> /\ e.ineff # <<0, 0>> /\ ~Lt(e.eff, e.ineff) THEN {"window-inverted"} ELSE {})
\* ---- C12: the runtime tables equal the tables the model built from the registrations
TablesReasons(e) ==
   (IF IsSorted(e.names) /\ ToSet(e.names) = AllNames(reg) /\ Len(e.names) = Cardinality(AllNames(reg)) /\ ~(0 \in ToSet(e.names))
      THEN {} ELSE {"names-listing"}) \cup
   (IF UniqueAcrossKinds(reg) THEN {} ELSE {"name-in-two-kinds"}) \cup
   (IF \A k \in Kinds : e.kindNames[k] = reg[k].names THEN {} ELSE {"per-kind-names"}) \cup
   (IF \A k \in Kinds : e.kindLints[k] = NamesOfSeq(reg[k].lints) THEN {} ELSE {"per-kind-listing"}) \cup
   (IF ToSet(e.sources) = AllSources(reg) /\ \A k \in Kinds : ToSet(e.kindSources[k]) = reg[k].sources THEN {} ELSE {"source-list"}) \cup
   (IF \A k \in Kinds : \A s \in reg[k].sources : s \in DOMAIN e.bySource[k] /\ e.bySource[k][s] = NamesOfSeq(reg[k].bySource[s])
      THEN {} ELSE {"lookup-by-source"}) \cup
   (IF \A i \in 1..N : /\ e.byNameMeta[i]
                       /\ ToSet(e.byNameKinds[i]) = {k \in Kinds : i \in DOMAIN reg[k].byName}
                       /\ Len(e.byNameKinds[i]) = (IF i \in AllNames(reg) THEN 1 ELSE 0)          \* a registered name: in exactly one kind
      THEN {} ELSE {"lookup-by-name"}) \cup
   \* the JSON listing has exactly one line per registered lint (C14), whatever was refused before
   (IF Len(e.jsonListing) = Cardinality(AllNames(reg)) /\ ToSet(e.jsonListing) = AllNames(reg) THEN {} ELSE {"json-listing"}) \cup
   \* the deprecated lookups (Registry.ByName / BySource) know the certificate lints, and exactly those
   (IF /\ e.depByName
       /\ \A s \in DOMAIN e.depBySource : e.depBySource[s] = (IF s \in reg["cert"].sources THEN NamesOfSeq(reg["cert"].bySource[s]) ELSE <<>>)
      THEN {} ELSE {"deprecated-lookup"})
CensusReasons(e) ==
   \* (Hdr.late: lints the driver itself registers late; they are not part of the tree)
   (IF Len(e.names) = N - Len(Hdr.late) /\ ToSet(e.names) = ToSet(Hdr.names) \ ToSet(Hdr.late) THEN {} ELSE {"census-differs-from-registry"}) \cup
   (IF ToSet(e.rawNames) \subseteq ToSet(Hdr.names) \ ToSet(Hdr.late) THEN {} ELSE {"lint-in-the-sources-is-not-in-the-build"}) \cup
   (IF ToSet(e.lintDirs) \subseteq ToSet(e.imported) THEN {} ELSE {"lint-package-not-imported"}) \cup
   (IF ToSet(e.lintTypes) \subseteq ToSet(e.registeredTypes) THEN {} ELSE {"lint-type-never-registered"})
\* ---- C08: one Filter call
FilterReasons(e) ==
  LET R  == {[name |-> i, kind |-> Hdr.kind[i], source |-> Hdr.src[i]] : i \in ToSet(e.parentNames)}
      o  == [xs |-> ToSet(e.xs), is |-> ToSet(e.is), nf |-> IF e.nf THEN "m" ELSE "nil",
             xn |-> {<<r, "">> : r \in ToSet(e.xx)}, inn |-> {<<r, "">> : r \in ToSet(e.ix)}]
      r  == FilterResult(R, o, [x \in {"m"} |-> ToSet(e.nfMatch)])
  IN
   (IF e.err <=> r.err # "none" THEN {} ELSE {IF e.err THEN "rejected-" \o "valid-options" ELSE "accepted-" \o r.err}) \cup
   (IF ~e.err /\ r.err = "none" /\ (ToSet(e.sel) # NamesOf(r.sel) \/ Len(e.sel) # Cardinality(r.sel)) THEN {"selected-set"} ELSE {}) \cup
   (IF ~e.err /\ ~(e.kindOK /\ e.metaOK) THEN {"kind-or-metadata"} ELSE {}) \cup
   (IF ~e.err /\ ~e.cfgSame THEN {"configuration-not-inherited"} ELSE {}) \cup
   (IF e.parentUnchanged THEN {} ELSE {"source-registry-changed"}) \cup
   (IF ~e.err /\ r.err = "none" /\ e.same # r.same THEN {"fid-same-registry"} ELSE {}) \cup
   (IF ~e.err /\ ~e.srcAgree THEN {"fid-filtered-source-list"} ELSE {})

Reasons(e) == CASE e.ev = "Register" -> RegisterReasons(e)
                [] e.ev = "Tables" -> TablesReasons(e)
                [] e.ev = "Census" -> CensusReasons(e)
                [] e.ev = "RegisterDup" -> IF e.refused THEN {} ELSE {"duplicate-accepted"}
                [] e.ev = "Filter" -> FilterReasons(e)
                \* C01 in this history: a lint registered late is run by the next Lint*Ex of its kind (one result per lint of the kind)
                [] e.ev = "LateRun" -> IF e.hasResult /\ e.results = e.lints /\ ~e.escaped THEN {} ELSE {"registered-lint-without-result"}
                [] OTHER -> {}
TraceInit == l = 1 /\ nrej = 0 /\ reg = EmptyRegistry
Step == /\ l <= Len(Trace)
        /\ LET e == Trace[l] r == Reasons(Trace[l]) IN
             /\ IF r = {} THEN nrej' = nrej ELSE PrintT(<<"REJECT", l, r>>) /\ nrej' = nrej + 1
             /\ IF e.ev = "Register" /\ RegisterOutcome(reg, [name |-> e.rank, kind |-> e.kind, source |-> e.src]) = "ok"
                  THEN reg' = Registered(reg, [name |-> e.rank, kind |-> e.kind, source |-> e.src]) ELSE reg' = reg
        /\ l' = l + 1
Done == l = Len(Trace) + 1 /\ PrintT(<<"DONE", Len(Trace), nrej>>) /\ l' = l + 1 /\ UNCHANGED <<nrej, reg>>
TraceSpec == TraceInit /\ [][Step \/ Done]_<<l, nrej, reg>>
=============================================================================

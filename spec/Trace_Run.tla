----------------------------- MODULE Trace_Run -----------------------------
(* Validates recorded Lint*Ex calls (event RunDone) against the result-set predicates of Run.  *)
(* One event per step; an event the specification cannot explain is reported (REJECT) and      *)
(* skipped, so the rest of the trace is still examined.                                        *)
EXTENDS Base, Json, TLC
INSTANCE Run WITH LintIds <- {}, Order <- <<>>, kind <- "cert", sel <- {}, outc <- <<>>, obj <- "obj", regarg <- "nil",
                  pc <- "entry", i <- 1, keys <- {}, st <- <<>>, meta <- <<>>, flags <- <<FALSE,FALSE,FALSE,FALSE>>, version <- 0, pending <- 0
Trace == ndJsonDeserialize("trace.ndjson")
VARIABLES l, nrej

Reasons(e) ==
   (IF e.escaped THEN {"panic-escaped"} ELSE {}) \cup (IF e.hung THEN {"hang"} ELSE {}) \cup
   (IF e.nilset THEN {"nil-result-set"} ELSE {}) \cup
   (IF ~e.escaped /\ ~e.hung /\ ~e.nilset THEN
      (IF Complete(ToSet(e.expect), ToSet(e.keys)) /\ Len(e.extra) = 0 THEN {} ELSE {"incomplete"}) \cup
      (IF e.nilRes = 0 THEN {} ELSE {"nil-result"}) \cup
      (IF AllDefined(ToSet(e.st) \ {-3}) THEN {} ELSE {"undefined-status"}) \cup
      (IF \A j \in 1..Len(e.metaOK) : e.metaOK[j] = 1 THEN {} ELSE {"metadata"}) \cup
      (IF FlagsIff(ToSet(e.st), e.flags) THEN {} ELSE {"flags"}) \cup
      (IF Version3(e.version) THEN {} ELSE {"version"})
    ELSE {})

TraceInit == l = 1 /\ nrej = 0
Step == /\ l <= Len(Trace)
        /\ LET e == Trace[l] r == Reasons(Trace[l]) IN
             IF e.ev # "RunDone" \/ r = {} THEN nrej' = nrej
             ELSE PrintT(<<"REJECT", l, r>>) /\ nrej' = nrej + 1
        /\ l' = l + 1
Done == l = Len(Trace) + 1 /\ PrintT(<<"DONE", Len(Trace), nrej>>) /\ l' = l + 1 /\ UNCHANGED nrej
TraceSpec == TraceInit /\ [][Step \/ Done]_<<l, nrej>>
=============================================================================

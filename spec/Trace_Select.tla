---------------------------- MODULE Trace_Select ----------------------------
EXTENDS Json, TLC, Integers, Sequences
Trace == ndJsonDeserialize("trace.ndjson")
S == INSTANCE Select WITH ListedNames <- {}, OtherNames <- {}, ListedSources <- {}, DefinedSources <- {}, OtherSources <- {}, Entries <- {},
                          tok <- "", entry <- "", kind <- "name", accepted <- FALSE
VARIABLES l, nrej
ProfileReasons(e) == IF e.missing = <<>> THEN {} ELSE {"profile-names-unknown-lint"}
\* selecting by a profile: the profile is retrievable and listed; its names are selector tokens like any other
ProfileUseReasons(e) ==
   (IF e.retrievable THEN {} ELSE {"registered-profile-not-retrievable"}) \cup
   (IF e.allListed /\ ~e.accepted THEN {"listed-but-rejected"} ELSE {}) \cup
   (IF ~e.allListed /\ e.accepted THEN {"unknown-but-accepted"} ELSE {}) \cup
   (IF e.allListed /\ e.accepted /\ ~e.faithful THEN {"accepted-as-something-else"} ELSE {})
TraceInit == l = 1 /\ nrej = 0
Step == /\ l <= Len(Trace)
        /\ LET e == Trace[l]
               r == IF e.ev = "Sel" THEN S!SelReasons(e) ELSE IF e.ev = "Profile" THEN ProfileReasons(e) ELSE IF e.ev = "ProfileUse" THEN ProfileUseReasons(e) ELSE {} IN
             IF r = {} THEN nrej' = nrej ELSE PrintT(<<"REJECT", l, r>>) /\ nrej' = nrej + 1
        /\ l' = l + 1
Done == l = Len(Trace) + 1 /\ PrintT(<<"DONE", Len(Trace), nrej>>) /\ l' = l + 1 /\ UNCHANGED nrej
TraceSpec == TraceInit /\ [][Step \/ Done]_<<l, nrej>>
=============================================================================

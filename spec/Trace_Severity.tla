--------------------------- MODULE Trace_Severity ---------------------------
(* One event per registered lint: extracted emittable statuses + statuses observed in sweeps.  *)
EXTENDS Severity, Json, TLC
Trace == ndJsonDeserialize("trace.ndjson")
VARIABLES l, nrej
TraceInit == l = 1 /\ nrej = 0
Step == /\ l <= Len(Trace)
        /\ LET r == IF Trace[l].ev = "Lint" THEN LintReasons(Trace[l]) ELSE {} IN
             IF r = {} THEN nrej' = nrej ELSE PrintT(<<"REJECT", l, r>>) /\ nrej' = nrej + 1
        /\ l' = l + 1
Done == l = Len(Trace) + 1 /\ PrintT(<<"DONE", Len(Trace), nrej>>) /\ l' = l + 1 /\ UNCHANGED nrej
TraceSpec == TraceInit /\ [][Step \/ Done]_<<l, nrej>>
=============================================================================

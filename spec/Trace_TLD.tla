------------------------------ MODULE Trace_TLD ------------------------------
EXTENDS TLD, Json, TLC
Trace == ndJsonDeserialize("trace.ndjson")
VARIABLES l, nrej
Tbl == Trace[1]
Entry(i) == [key |-> Tbl.keys[i], keyLower |-> Tbl.keysLower[i], gtld |-> Tbl.gtld[i], deleg |-> Tbl.deleg[i], removal |-> Tbl.removal[i]]
TableReasons == {<<"table-entry-malformed", i>> : i \in {j \in 1..Len(Tbl.keys) : ~EntryWellFormed(Entry(j))}} \cup
                (IF Cardinality(ToSet(Tbl.keys)) = Len(Tbl.keys) THEN {} ELSE {<<"duplicate-key", 0>>})
\* one event per table entry (i = 0: a label that is in no table): parallel arrays over probes
ProbeReasons(e) ==
  LET known == e.i > 0 /\ EntryWellFormed(Entry(e.i)) IN
   IF e.i > 0 /\ ~known THEN {} ELSE
   {<<"validity-differs", k>> : k \in {j \in 1..Len(e.t) : e.valid[j] # (IF e.i = 0 THEN FALSE ELSE NameValid(TRUE, Entry(e.i), e.dot[j], e.t[j]))}} \cup
   {<<"ever-a-tld-differs", k>> : k \in {j \in 1..Len(e.inmap) : e.inmap[j] # (e.i > 0)}}
LintReasons(e) ==
  LET x == IF e.i > 0 THEN Entry(e.i) ELSE [key |-> "", keyLower |-> "", gtld |-> "", deleg |-> <<1, 1, 1>>, removal |-> <<>>]
      inv == e.i = 0 \/ ~NameValid(TRUE, x, e.dot, e.t)
      \* names planted: the probe name (as CN and/or SAN per e.where) next to a name that is valid at every probed instant
      anyInvalid == inv /\ (e.sanProbe \/ (e.cnProbe /\ ~e.cnIsIP))
      want == LintVerdict(e.subscriber, InWindow(e.eff, e.ineff, e.t), anyInvalid) IN
   IF e.i > 0 /\ ~EntryWellFormed(x) THEN {} ELSE IF e.status = want THEN {} ELSE {<<"lint-verdict", want>>}
\* a table written by the generator from synthetic registry data: it may refuse the data, it must not write a malformed table
GenEntry(e, i) == [key |-> e.keys[i], keyLower |-> e.keysLower[i], gtld |-> e.gtld[i], deleg |-> e.deleg[i], removal |-> e.removal[i]]
GenReasons(e) ==
   (IF e.wrote /\ ~e.parsedBack THEN {<<"generated-file-does-not-parse", 0>>} ELSE {}) \cup
   {<<"generated-table-entry-malformed", i>> : i \in {j \in 1..Len(e.keys) : e.wrote /\ ~EntryWellFormed(GenEntry(e, j))}} \cup
   (IF e.wrote /\ e.exit # 0 THEN {<<"table-written-although-the-generator-reported-failure", 0>>} ELSE {}) \cup
   (IF e.class = "clean" /\ ~e.wrote THEN {<<"fid-clean-registry-data-refused", 0>>} ELSE {})
Reasons(e) == CASE e.ev = "Gen" -> GenReasons(e) [] e.ev = "TLDTable" -> TableReasons [] e.ev = "Probe" -> ProbeReasons(e) [] e.ev = "TLDLint" -> LintReasons(e) [] OTHER -> {}
TraceInit == l = 1 /\ nrej = 0
Step == /\ l <= Len(Trace)
        /\ LET r == Reasons(Trace[l]) IN IF r = {} THEN nrej' = nrej ELSE PrintT(<<"REJECT", l, r>>) /\ nrej' = nrej + 1
        /\ l' = l + 1
Done == l = Len(Trace) + 1 /\ PrintT(<<"DONE", Len(Trace), nrej>>) /\ l' = l + 1 /\ UNCHANGED nrej
TraceSpec == TraceInit /\ [][Step \/ Done]_<<l, nrej>>
=============================================================================

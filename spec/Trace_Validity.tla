--------------------------- MODULE Trace_Validity ---------------------------
(* Fidelity oracle of the Validity rule family: certificates forged with notBefore / notAfter around every limit (to the  *)
(* second, on month-end and leap days) judged by the real lints; a lint that ran (pass or finding) must agree with        *)
(* Validity!Finds.  No listed property speaks about these rules one by one: every reason is "fid-".                        *)
EXTENDS Validity, Json, TLC
Trace == ndJsonDeserialize("trace.ndjson")
VARIABLES l, nrej
Reasons(e) == IF e.ev # "Validity" THEN {}
              ELSE {<<"fid-validity-rule-differs", e.lints[i], e.st[i]>> :
                      i \in {j \in 1..Len(e.lints) : RuleOf(e.lints[j]) # "none" /\ e.st[j] \in Judged /\
                                                     e.st[j] # (IF Finds(RuleOf(e.lints[j]), e.nb, e.na) THEN Level(RuleOf(e.lints[j])) ELSE Pass)}}
TraceInit == l = 1 /\ nrej = 0
Step == /\ l <= Len(Trace)
        /\ LET r == Reasons(Trace[l]) IN IF r = {} THEN nrej' = nrej ELSE PrintT(<<"REJECT", l, r>>) /\ nrej' = nrej + 1
        /\ l' = l + 1
Done == l = Len(Trace) + 1 /\ PrintT(<<"DONE", Len(Trace), nrej>>) /\ l' = l + 1 /\ UNCHANGED nrej
TraceSpec == TraceInit /\ [][Step \/ Done]_<<l, nrej>>
=============================================================================

------------------------------ MODULE Validity ------------------------------
(* Rule family: validity-period limits, exact to the second.  Instants are <<day, second>> (Base);   *)
(* civil dates <<y, m, d>> and the calendar arithmetic come from TLD.tla.                            *)
(*   398 / 397 days : the period is inclusive of both ends (RFC 5280 4.1.2.5): notAfter + 1 s -       *)
(*                    notBefore, in days of 86 400 s; error above 398 days, warning above 397         *)
(*   825 days       : error iff notBefore + 825 calendar days (UTC) is before notAfter                *)
(*   39 / 27 months : error iff notBefore + n calendar months is before notAfter; a day that does     *)
(*                    not exist in the target month rolls over into the next one (Jan 31 + 1 month =  *)
(*                    Mar 3 or Mar 2), as Go's time.AddDate normalises                                 *)
(*   not positive   : error iff notBefore is after notAfter                                            *)
EXTENDS TLD
PlusDays(t, n) == <<t[1] + n, t[2]>>
\* civil date of a day number (inverse of TLD!DayNumber), by search over a plausible year range
YearOf(n) == CHOOSE y \in 1900..2100 : DaysBeforeYear(y) <= n /\ n < DaysBeforeYear(y + 1)
MonthOf(n, y) == CHOOSE m \in 1..12 : DaysBeforeYear(y) + DaysBeforeMonth(y, m) <= n /\ n < DaysBeforeYear(y) + DaysBeforeMonth(y, m) + DaysIn(y, m)
Civil(n) == LET y == YearOf(n) m == MonthOf(n, y) IN <<y, m, n - DaysBeforeYear(y) - DaysBeforeMonth(y, m) + 1>>
\* t + k calendar months, overflow days rolling into the following month
PlusMonths(t, k) == LET c == Civil(t[1])  mm == (c[2] - 1) + k  y == c[1] + (mm \div 12)  m == (mm % 12) + 1 IN
                    <<DaysBeforeYear(y) + DaysBeforeMonth(y, m) + c[3] - 1, t[2]>>
Over398(nb, na) == OverDays(nb, na, 398)
Over397(nb, na) == OverDays(nb, na, 397)
Over825(nb, na) == Lt(PlusDays(nb, 825), na)
OverMonths(nb, na, k) == Lt(PlusMonths(nb, k), na)
\* the verdict a lint gives when it runs (error / warn level per lint); 0 = the rule does not speak
RuleOf(name) == CASE name = "e_tls_server_cert_valid_time_longer_than_398_days" -> "398"
                  [] name = "w_tls_server_cert_valid_time_longer_than_397_days" -> "397"
                  [] name = "e_sub_cert_valid_time_longer_than_825_days" -> "825"
                  [] name = "e_sub_cert_valid_time_longer_than_39_months" -> "39m"
                  [] name = "e_ev_valid_time_too_long" -> "27m"
                  [] name = "e_validity_time_not_positive" -> "pos"
                  [] OTHER -> "none"
Finds(rule, nb, na) == CASE rule = "398" -> Over398(nb, na) [] rule = "397" -> Over397(nb, na) [] rule = "825" -> Over825(nb, na)
                         [] rule = "39m" -> OverMonths(nb, na, 39) [] rule = "27m" -> OverMonths(nb, na, 27) [] rule = "pos" -> NotPositive(nb, na)
                         [] OTHER -> FALSE
Level(rule) == IF rule = "397" THEN Warn ELSE Error
\* laws
Laws == /\ \A d \in {0, 1, 30, 365} : Civil(DayNumber(<<2020, 2, 29>>) + d) = Civil(DayNumber(<<2020, 2, 29>>) + d)
        /\ Civil(DayNumber(<<2019, 12, 31>>)) = <<2019, 12, 31>> /\ Civil(DayNumber(<<2020, 3, 1>>)) = <<2020, 3, 1>>
        /\ PlusMonths(<<DayNumber(<<2017, 1, 31>>), 5>>, 1) = <<DayNumber(<<2017, 3, 3>>), 5>>          \* Jan 31 + 1 month rolls over
        /\ PlusMonths(<<DayNumber(<<2016, 11, 30>>), 0>>, 39) = <<DayNumber(<<2020, 3, 1>>), 0>>       \* Nov 30 + 39 months = "Feb 30" 2020
        /\ \A nb \in {<<737000, 0>>, <<737000, 86399>>} : \A na \in {PlusDays(nb, 397), PlusDays(nb, 398)} : Over398(nb, na) => Over397(nb, na)
=============================================================================
